# -*- coding: utf-8 -*-
"""demo3: concurrent requests on one Application do not interfere.

Focus: BoundRoute.match_path / match_method / execute / execute_error and
clastic.middleware.core.make_middleware_chain (phase splitting, generated
process_request, unresolved-argument errors).  Shared BoundRoute objects are
used directly from several threads, and a full Application with
provides-middlewares is exercised concurrently.
Prints PASS and exits 0 on success.
"""
import sys
import json
import time
import random
import threading

sys.setswitchinterval(1e-6)

from clastic import Application, Route, GET, POST, Middleware, Response, Request
from clastic.errors import NotFound, BadRequest
from clastic.middleware.core import make_middleware_chain
from werkzeug.test import EnvironBuilder


def _yield():
    for _ in range(3):
        time.sleep(0)


SEEN_IDS = []


class UserMW(Middleware):
    provides = ('user',)

    def request(self, next, request):
        # a request may run several routes (fallthrough, null route): the id
        # must be stable across them, and is recorded once per request
        if getattr(request, '_demo_seen_id', None) is None:
            request._demo_seen_id = request.request_id
            SEEN_IDS.append(request.request_id)
        assert request._demo_seen_id == request.request_id
        user = 'u:' + request.args.get('u', 'anon')
        _yield()
        return next(user=user)


class TokenMW(Middleware):
    endpoint_provides = ('token',)

    def endpoint(self, next, user, request):
        _yield()
        return next(token='%s@%s' % (user, request.path))


class SuffixMW(Middleware):
    render_provides = ('suffix',)

    def render(self, next, context, user):
        _yield()
        return next(suffix='|' + user)


class RenderOnlyMW(Middleware):
    # takes part in the render phase only, provides nothing
    def render(self, next, context):
        assert context is not None
        _yield()
        return next()


def render_ctx(context, suffix, request):
    body = json.dumps(context, sort_keys=True) + suffix + '|' + request.path
    return Response(body, mimetype='text/plain')


def ep_hello(name, user, token, request, _route, greeting):
    _yield()
    return {'ep': 'hello', 'name': name, 'user': user, 'token': token,
            'pp': request.path_params, 'pattern': _route.pattern,
            'greeting': greeting}


def ep_num(n, user, times=2):
    _yield()
    return {'ep': 'num', 'n': n * times, 'user': user}


def ep_pair(a, b, user):
    _yield()
    return {'ep': 'pair', 'a': a, 'b': b, 'user': user}


def ep_post(request, user):
    return {'ep': 'post', 'method': request.method, 'user': user}


def ep_boom(name, user):
    _yield()
    raise ValueError('boom-%s-%s' % (name, user))


def ep_bad(user):
    raise BadRequest(detail='bad for ' + user)


def ep_fall_first(x, user):
    raise NotFound(detail='first declined %s for %s' % (x, user), is_breaking=False)


def ep_fall_second(x, user, _dispatch_state):
    _yield()
    return {'ep': 'fall2', 'x': x, 'user': user,
            'prev': [e.detail for e in _dispatch_state.exceptions]}


def ep_branch(user):
    return {'ep': 'branch', 'user': user}


def ep_direct(user, token):
    return Response('direct %s %s' % (user, token), mimetype='text/plain')


def make_app():
    routes = [('/hello/<name>', ep_hello, render_ctx),
              ('/num/<n:int>', ep_num, render_ctx),
              ('/pair/<a:int>/<b:float>', ep_pair, render_ctx),
              POST('/post_only', ep_post, render_ctx),
              GET('/get_only', ep_post, render_ctx),
              ('/boom/<name>', ep_boom, render_ctx),
              ('/bad', ep_bad, render_ctx),
              ('/fall/<x>', ep_fall_first, render_ctx),
              ('/fall/<x>', ep_fall_second, render_ctx),
              ('/branch/', ep_branch, render_ctx),
              ('/direct', ep_direct, render_ctx)]
    return Application(routes, resources={'greeting': 'hi'},
                       middlewares=[UserMW(), TokenMW(), SuffixMW(), RenderOnlyMW()])


def fetch(app, method, url):
    resp = app.get_local_client().open(url, method=method)
    return (resp.status_code, resp.get_data(as_text=True),
            resp.headers.get('Location'), resp.headers.get('Allow'))


REQUESTS = [('GET', '/hello/alice?u=1'), ('GET', '/hello/bob?u=2'),
            ('GET', '/num/21?u=3'), ('GET', '/num/0?u=4'),
            ('GET', '/pair/3/1.5?u=5'), ('GET', '/pair/3/x?u=5b'),
            ('POST', '/post_only?u=6'), ('GET', '/post_only?u=7'),
            ('HEAD', '/get_only?u=7h'), ('PUT', '/get_only?u=7p'),
            ('GET', '/boom/x?u=8'), ('GET', '/boom/y?u=9'),
            ('GET', '/bad?u=10'),
            ('GET', '/fall/a?u=11'), ('GET', '/fall/b?u=12'),
            ('GET', '/branch?u=14'), ('GET', '/direct?u=17'),
            ('GET', '/missing?u=18'), ('GET', '/hello/nobody')]


def run_threads(targets):
    errors = []

    def wrap(fn):
        def run():
            try:
                fn()
            except Exception as exc:
                errors.append(repr(exc))
        return run

    threads = [threading.Thread(target=wrap(fn)) for fn in targets]
    for t in threads:
        t.start()
    for t in threads:
        t.join()
    assert not errors, errors[:3]


def run_group(app, group, expected):
    barrier = threading.Barrier(len(group))
    results = [None] * len(group)

    def make(i, req):
        def fn():
            barrier.wait()
            results[i] = fetch(app, *req)
        return fn

    run_threads([make(i, req) for i, req in enumerate(group)])
    for req, res in zip(group, results):
        assert res == expected[req], (req, res, expected[req])


def check_match(app):
    hello, num, pair, post_only, get_only = app.routes[:5]
    # match_path: converted values, a fresh dict per call, None on mismatch
    assert hello.match_path('/hello/alice') == {'name': 'alice'}
    assert num.match_path('/num/42') == {'n': 42}
    assert num.match_path('/num/-7/') == {'n': -7}
    assert num.match_path('/num/abc') is None
    assert num.match_path('/num/') is None
    assert num.match_path('/nope') is None
    assert pair.match_path('/pair/3/1.5') == {'a': 3, 'b': 1.5}
    assert pair.match_path('/pair/3') is None
    assert post_only.match_path('/post_only') == {}
    d1, d2 = hello.match_path('/hello/x'), hello.match_path('/hello/x')
    assert d1 == d2 and d1 is not d2 and type(d1) is dict
    d1['name'] = 'mutated'
    assert hello.match_path('/hello/x') == {'name': 'x'}
    try:
        hello.match_path(None)
    except TypeError:
        pass
    else:
        raise AssertionError('expected TypeError')
    # a converter which fails maps to "no match", other errors propagate
    saved = num.converters
    try:
        num.converters = {'n': lambda v: int('not-a-number')}
        assert num.match_path('/num/1') is None
        num.converters = {'n': lambda v: None.nope}
        try:
            num.match_path('/num/1')
        except AttributeError:
            pass
        else:
            raise AssertionError('expected AttributeError')
        num.converters = {'other': int}
        assert num.match_path('/num/1') is None  # KeyError -> no match
    finally:
        num.converters = saved
    assert num.match_path('/num/1') == {'n': 1}

    # match_method: exact booleans
    assert hello.methods is None
    for m in ('GET', 'get', 'POST', 'BREW', '', None):
        assert hello.match_method(m) is True, m
    assert post_only.match_method('POST') is True
    assert post_only.match_method('post') is True
    assert post_only.match_method('GET') is False
    assert post_only.match_method('HEAD') is False
    assert post_only.match_method('') is True
    assert post_only.match_method(None) is True
    assert get_only.match_method('GET') is True
    assert get_only.match_method('head') is True
    assert get_only.match_method('PUT') is False

    # the same BoundRoute objects matched from several threads at once
    def matcher(tid):
        def fn():
            for i in range(400):
                n = tid * 10000 + i
                assert num.match_path('/num/%d' % n) == {'n': n}
                assert hello.match_path('/hello/t%d' % n) == {'name': 't%d' % n}
                assert pair.match_path('/pair/%d/%d.5' % (n, tid)) == {'a': n, 'b': tid + 0.5}
                assert post_only.match_method('GET') is False
        return fn
    run_threads([matcher(t) for t in range(4)])


def _request(url):
    # a request built outside of Application._dispatch_wsgi: tag it by hand
    req = Request(EnvironBuilder(path=url).get_environ())
    req.request_id = -1
    req.path_params = None
    return req


def check_execute(app):
    hello, num = app.routes[0], app.routes[1]
    req = _request('/hello/zed?u=9')
    resp = hello.execute(request=req, name='zed')
    body = resp.get_data(as_text=True)
    ctx = json.loads(body.split('|')[0])
    assert ctx == {'ep': 'hello', 'name': 'zed', 'user': 'u:9', 'token': 'u:9@/hello/zed',
                   'pp': None, 'pattern': '/hello/<name>', 'greeting': 'hi'}, ctx
    assert body.endswith('|u:9|/hello/zed'), body
    # explicit kwargs win over route resources, which win over nothing else
    resp = hello.execute(request=req, name='zed', greeting='yo')
    assert json.loads(resp.get_data(as_text=True).split('|')[0])['greeting'] == 'yo'
    assert hello.resources == {'greeting': 'hi'}  # untouched
    # unknown extras are dropped by injection; _route cannot be displaced by accident
    resp = hello.execute(request=req, name='zed', unrelated=object())
    assert json.loads(resp.get_data(as_text=True).split('|')[0])['pattern'] == '/hello/<name>'
    # missing required path argument -> TypeError from the generated chain
    try:
        hello.execute(request=req)
    except TypeError:
        pass
    else:
        raise AssertionError('expected TypeError')

    # execute_error: uses the (bound) error handler's render_error
    err = BadRequest(detail='nope')
    out = hello.execute_error(request=req, _error=err, name='zed', greeting='x')
    assert out is err and out.status_code == 400
    # ... and raises TypeError when there is no callable render_error
    bare = Route('/bare', ep_branch, render_ctx).bind(app, rebind_render_error=False)
    assert bare.render_error is None
    try:
        bare.execute_error(request=req, _error=err)
    except TypeError as te:
        assert str(te) == 'render_error not set or not callable', te
    else:
        raise AssertionError('expected TypeError')

    # concurrent direct execution on one shared BoundRoute
    def runner(tid):
        def fn():
            for i in range(60):
                tag = '%d-%d' % (tid, i)
                r = _request('/num/5?u=' + tag)
                # 'times' is not provided by anything, so the chain does not
                # thread it through and the endpoint default (2) applies
                out = num.execute(request=r, n=i, times=tid)
                got = json.loads(out.get_data(as_text=True).split('|')[0])
                assert got == {'ep': 'num', 'n': i * 2, 'user': 'u:' + tag}, got
        return fn
    run_threads([runner(t) for t in range(1, 5)])


def check_chain_errors():
    def render_plain(context):
        return Response(repr(context))

    def expect_name_error(fragment, **kw):
        args = dict(middlewares=[UserMW(), TokenMW()], endpoint=ep_branch,
                    render=render_plain, preprovided=['request'])
        args.update(kw)
        try:
            make_middleware_chain(**args)
        except NameError as ne:
            assert fragment in str(ne), (fragment, str(ne))
        else:
            raise AssertionError('expected NameError: ' + fragment)

    expect_name_error("argument 'next' reserved for middleware use only (<function",
                      endpoint=lambda next: None)
    expect_name_error("argument 'next' reserved for middleware use only (<function",
                      render=lambda context, next: None)
    expect_name_error("unresolved endpoint middleware arguments: ['nope']",
                      endpoint=lambda nope: None)
    expect_name_error("unresolved render middleware arguments: ['zzz']",
                      render=lambda context, zzz: None)
    expect_name_error("unresolved endpoint middleware arguments: ['request']",
                      preprovided=[])
    expect_name_error("unresolved request middleware arguments: ['request']",
                      middlewares=[UserMW()], preprovided=[])
    # 'context' is not available to the endpoint phase, 'next' never preprovided
    expect_name_error("unresolved endpoint middleware arguments: ['context']",
                      endpoint=lambda context: None, preprovided=['request', 'context'])

    # a working chain; no middlewares at all is fine too
    chain = make_middleware_chain([UserMW(), TokenMW()], lambda user, token: (user, token),
                                  render_plain, ['request'])
    req = _request('/p?u=7')
    assert chain(request=req).get_data(as_text=True) == repr(('u:7', 'u:7@/p'))
    chain0 = make_middleware_chain([], lambda request: Response('raw ' + request.path),
                                   render_plain, ['request', 'unused'])
    assert chain0(request=req).get_data(as_text=True) == 'raw /p'
    chain1 = make_middleware_chain((), lambda: 0, render_plain, ())
    assert chain1().get_data(as_text=True) == '0'


def check_application(app):
    expected = dict((req, fetch(app, *req)) for req in REQUESTS)
    st, body = expected[('GET', '/hello/alice?u=1')][:2]
    assert st == 200 and body.endswith('|u:1|/hello/alice'), (st, body)
    assert json.loads(body.split('|')[0]) == {
        'ep': 'hello', 'name': 'alice', 'user': 'u:1', 'token': 'u:1@/hello/alice',
        'pp': {'name': 'alice'}, 'pattern': '/hello/<name>', 'greeting': 'hi'}
    assert json.loads(expected[('GET', '/pair/3/1.5?u=5')][1].split('|')[0]) == \
        {'ep': 'pair', 'a': 3, 'b': 1.5, 'user': 'u:5'}
    assert expected[('GET', '/pair/3/x?u=5b')][0] == 404
    st, _, _, allow = expected[('GET', '/post_only?u=7')]
    assert (st, allow) == (405, 'POST'), (st, allow)
    assert expected[('HEAD', '/get_only?u=7h')][0] == 200
    st, _, _, allow = expected[('PUT', '/get_only?u=7p')]
    assert (st, allow) == (405, 'GET, HEAD'), (st, allow)
    assert expected[('GET', '/boom/y?u=9')][0] == 500
    st, body = expected[('GET', '/bad?u=10')][:2]
    assert st == 400 and 'bad for u:10' in body
    assert json.loads(expected[('GET', '/fall/b?u=12')][1].split('|')[0])['prev'] == \
        ['first declined b for u:12']
    assert expected[('GET', '/direct?u=17')][:2] == (200, 'direct u:17 u:17@/direct')
    assert expected[('GET', '/missing?u=18')][0] == 404

    rng = random.Random(99)
    for _ in range(120):
        run_group(app, rng.sample(REQUESTS, rng.randint(2, 4)), expected)
    for _ in range(30):
        run_group(app, [('GET', '/pair/3/1.5?u=5'), ('GET', '/pair/3/x?u=5b'),
                        ('GET', '/post_only?u=7'), ('PUT', '/get_only?u=7p')], expected)
    assert len(SEEN_IDS) > 100
    real_ids = [i for i in SEEN_IDS if i != -1]
    assert len(set(real_ids)) == len(real_ids)


def main():
    app = make_app()
    check_chain_errors()
    check_match(app)
    check_execute(app)
    check_application(app)
    print('PASS')


if __name__ == '__main__':
    main()
