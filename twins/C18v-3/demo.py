# -*- coding: utf-8 -*-
"""demo3: the per-route argument listing of the meta application
(get_route_arg_info: where does each endpoint argument come from), on fake
routes (precedence, early exit, errors) and on whole pages (200, no secrets).
Prints PASS and exits 0.
"""
import json
import sys
import types

from clastic import (Application, MetaApplication, render_basic,
                     StaticFileRoute, GET, RESERVED_ARGS)
from clastic.meta import get_route_arg_info, get_route_infos
from clastic.middleware import Middleware
from clastic.middleware.cookie import SignedCookieMiddleware
from clastic.static import StaticApplication

SECRET = 'Zq9hunter2Xy'
COOKIE_KEY = 'K3yK3yK3y-cookie-signing'


def ns(**kw):
    return types.SimpleNamespace(**kw)


def fake_route(endpoint, path_args=(), resources=None, middlewares=()):
    return ns(endpoint=endpoint, path_args=path_args,
              resources={} if resources is None else resources,
              middlewares=middlewares)


def srcs(infos):
    return [(i['name'], i['source']) for i in infos]


class ExplodingProvides(object):
    touched = 0

    @property
    def provides(self):
        ExplodingProvides.touched += 1
        raise RuntimeError('provides must not be looked at')


# ---------------------------------------------------------------- unit level
def ep(request, a, b, c, d, e=5, f=None, *args, **kwargs):
    pass


mw_c = ns(provides=('c', 'a'))
mw_d = ns(provides=['d', 'e'])

# every source kind + the unknown one
infos = get_route_arg_info(fake_route(ep, path_args=['a'], resources={'b': SECRET},
                                      middlewares=[mw_c, mw_d]))
assert infos == [{'name': 'request', 'source': 'builtin'},
                 {'name': 'a', 'source': 'url'},
                 {'name': 'b', 'source': 'resources'},
                 {'name': 'c', 'source': 'middleware'},
                 {'name': 'd', 'source': 'middleware'},
                 {'name': 'e', 'source': 'middleware'},
                 {'name': 'f', 'source': 'default'}], infos
assert all(type(i) is dict and list(i) == ['name', 'source'] for i in infos)
assert SECRET not in repr(infos)          # resource *values* are never reported

# nothing knows the arguments: None, except for the ones with a default
infos = get_route_arg_info(fake_route(ep))
assert srcs(infos) == [('request', 'builtin'), ('a', None), ('b', None), ('c', None),
                       ('d', None), ('e', 'default'), ('f', 'default')]
assert infos[1]['source'] is None

# precedence: builtin > url > resources > middleware > default
def all_reserved(request, next, context, _application, _route, _dispatch_state):
    pass


everything = list(RESERVED_ARGS) + ['a', 'b', 'c', 'd', 'e', 'f']
res_all = dict((k, None) for k in everything)       # falsy values on purpose
mw_all = ns(provides=tuple(everything))
assert srcs(get_route_arg_info(fake_route(all_reserved, path_args=everything,
                                          resources=res_all, middlewares=[mw_all]))) == \
    [(n, 'builtin') for n in ('request', 'next', 'context', '_application',
                              '_route', '_dispatch_state')]
assert srcs(get_route_arg_info(fake_route(ep, path_args=everything, resources=res_all,
                                          middlewares=[mw_all])))[1:] == \
    [(n, 'url') for n in 'abcdef']
assert srcs(get_route_arg_info(fake_route(ep, resources=res_all,
                                          middlewares=[mw_all])))[1:] == \
    [(n, 'resources') for n in 'abcdef']
assert srcs(get_route_arg_info(fake_route(ep, middlewares=[mw_all])))[1:] == \
    [(n, 'middleware') for n in 'abcdef']
# a default never hides a provider, a provider never needs a default
assert srcs(get_route_arg_info(fake_route(ep, path_args=('e',), resources={'f': 0}))) == \
    [('request', 'builtin'), ('a', None), ('b', None), ('c', None), ('d', None),
     ('e', 'url'), ('f', 'resources')]

# containers are only used through `in`: sets, strings, dict views, generators-free
assert srcs(get_route_arg_info(fake_route(ep, path_args={'a', 'b'},
                                          resources={'c': 1}.keys(),
                                          middlewares=(ns(provides='d'),))))[1:5] == \
    [('a', 'url'), ('b', 'url'), ('c', 'resources'), ('d', 'middleware')]
# substring semantics of a str `provides` are kept too ('d' in 'abcd-ish')
assert srcs(get_route_arg_info(fake_route(ep, middlewares=[ns(provides='xdx')])))[4] == \
    ('d', 'middleware')

# the middleware scan stops at the first provider ...
def only_c(c):
    pass


ExplodingProvides.touched = 0
assert srcs(get_route_arg_info(fake_route(only_c, middlewares=[mw_c, ExplodingProvides()]))) == \
    [('c', 'middleware')]
assert ExplodingProvides.touched == 0
# ... is not run at all when an earlier source knows the argument ...
for kw in ({'path_args': ['c']}, {'resources': {'c': 1}}):
    r = fake_route(only_c, middlewares=[ExplodingProvides()], **kw)
    assert get_route_arg_info(r)[0]['source'] in ('url', 'resources')
assert ExplodingProvides.touched == 0
# ... and otherwise lets the error through, in middleware order
try:
    get_route_arg_info(fake_route(only_c, middlewares=[mw_d, ExplodingProvides(), mw_c]))
except RuntimeError as e:
    assert str(e) == 'provides must not be looked at'
else:
    raise AssertionError('expected RuntimeError')
assert ExplodingProvides.touched == 1

# no arguments at all; methods; callable objects; builtins
def no_args():
    pass


class Obj(object):
    def __call__(self, request, thing=1):
        pass

    def meth(self, _route, other):
        pass


assert get_route_arg_info(fake_route(no_args)) == []
assert srcs(get_route_arg_info(fake_route(Obj().meth))) == [('_route', 'builtin'), ('other', None)]
assert srcs(get_route_arg_info(fake_route(sum, resources={'start': 0}))) == \
    [('iterable', None), ('start', 'resources')]
first = get_route_arg_info(fake_route(ep))
assert first == get_route_arg_info(fake_route(ep)) and first is not get_route_arg_info(fake_route(ep))

# broken route-likes keep raising what they raised
for broken in (ns(), ns(endpoint=ep), ns(endpoint=ep, path_args=()),
               ns(endpoint=ep, path_args=(), resources={})):
    try:
        get_route_arg_info(broken)
    except AttributeError:
        pass
    else:
        raise AssertionError('expected AttributeError for %r' % broken)
try:
    get_route_arg_info(fake_route(ep, path_args=None))
except TypeError:
    pass
else:
    raise AssertionError('expected TypeError')
# ... but an attribute that is never needed is never looked at
assert get_route_arg_info(ns(endpoint=no_args)) == []
assert srcs(get_route_arg_info(ns(endpoint=all_reserved)))[0] == ('request', 'builtin')


# --------------------------------------------------------------- whole pages
class ThingMW(Middleware):
    provides = ('thing', 'other_thing')

    def request(self, next):
        return next(thing=1, other_thing=2)


def hello(request, name, cookie, db_secret, thing, limit=3, ok='dflt'):
    return 'hello'


def star(a, b, _route, other_thing=None):
    return 'star'


def make_host(prefix):
    return Application([(prefix, MetaApplication()),
                        ('/h/<name>', hello, render_basic),
                        GET('/g/<a:int>/<b*>', star, render_basic),
                        ('/obj', Obj(), render_basic),
                        ('/sum', sum, render_basic),
                        StaticFileRoute('/f', __file__),
                        ('/s', StaticApplication('.'))],
                       resources={'db_secret': SECRET, 'ok': 'bokay',
                                  'iterable': [1], 'start': 0},
                       middlewares=[SignedCookieMiddleware(secret_key=COOKIE_KEY),
                                    ThingMW()])


def fetch(app, prefix):
    cl = app.get_local_client()
    html_resp = cl.get(prefix + '/')
    json_resp = cl.get(prefix + '/json/')
    assert html_resp.status_code == 200 and json_resp.status_code == 200
    html = html_resp.get_data(as_text=True)
    raw = json_resp.get_data(as_text=True)
    for body in (html, raw):
        assert SECRET not in body and COOKIE_KEY not in body
        assert '[REDACTED]' in body and 'bokay' in body
    data = json.loads(raw)
    assert 'exc_content' not in data['app']
    return html, data


EXPECTED = {
    '/h/<name>': [('request', 'builtin'), ('name', 'url'), ('cookie', 'middleware'),
                  ('db_secret', 'resources'), ('thing', 'middleware'),
                  ('limit', 'default'), ('ok', 'resources')],
    '/g/<a:int>/<b*>': [('a', 'url'), ('b', 'url'), ('_route', 'builtin'),
                        ('other_thing', 'middleware')],
    '/obj': [('request', 'builtin'), ('thing', 'middleware')],
    '/sum': [('iterable', 'resources'), ('start', 'resources')],
    '/f': [('request', 'builtin')],
    '/s/<path*>': [('path', 'url'), ('request', 'builtin')],
}

for prefix in ('/meta', '/x/y/meta'):
    host = make_host(prefix)
    html, data = fetch(host, prefix)
    by_pattern = dict((r['url_pattern'], r) for r in data['app']['routes'])
    for pattern, expected in EXPECTED.items():
        assert srcs(by_pattern[pattern]['args']) == expected, (pattern, by_pattern[pattern]['args'])
    meta_args = [('request', 'builtin'), ('_application', 'builtin'),
                 ('_route', 'builtin'), ('script_root', 'middleware')]
    assert srcs(by_pattern[prefix + '/']['args']) == meta_args
    assert srcs(by_pattern[prefix + '/json/']['args']) == meta_args
    assert data['app']['routes'] == json.loads(json.dumps(get_route_infos(host)))
    for word in ('builtin', 'url', 'resources', 'middleware', 'default', 'db_secret'):
        assert word in html

# embedded two levels deep: sources are resolved against the bound routes
inner = make_host('/meta')
outer = Application([('/outer', Application([('/inner', inner)]))],
                    resources={'outer_secret': SECRET, 'ok': 'bokay'})
html, data = fetch(outer, '/outer/inner/meta')
by_pattern = dict((r['url_pattern'], r) for r in data['app']['routes'])
for pattern, expected in EXPECTED.items():
    assert srcs(by_pattern['/outer/inner' + pattern]['args']) == expected, pattern

print('PASS')
sys.exit(0)
