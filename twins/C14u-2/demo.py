# -*- coding: utf-8 -*-
"""Standalone check of property C14 (static serving never leaves its roots
and serves files faithfully).  Prints PASS and exits 0 when all assertions
hold.  Usage: /venv/bin/python demoN.py   (run from the worktree root)
"""
import os
import sys
import warnings
import errno
import random
import shutil
import builtins
import tempfile
import itertools
import mimetypes
from datetime import datetime, timedelta
from urllib.parse import quote

warnings.simplefilter('ignore')
sys.path.insert(0, os.path.dirname(os.path.abspath(__file__)))

import clastic
from clastic import Application, StaticApplication, StaticFileRoute
from clastic import static as static_mod
from clastic.errors import Forbidden, NotFound
from werkzeug.http import http_date

assert os.path.dirname(os.path.abspath(clastic.__file__)).startswith(
    os.path.dirname(os.path.abspath(__file__))), clastic.__file__
assert IOError is OSError
assert not issubclass(NotFound, (ValueError, OSError))
assert not issubclass(Forbidden, (ValueError, OSError))

mimetypes.guess_type('prime.txt')  # mimetypes reads its tables on first use

FOCUS = 'build_file_response'  # what this demo stresses in addition to the core

CHECKS = [0]


def check(cond, *info):
    CHECKS[0] += 1
    if not cond:
        raise AssertionError(repr(info))


# ---------------------------------------------------------------- the tree
TMP = os.path.realpath(tempfile.mkdtemp(prefix='c14demo'))
OUTER = os.path.join(TMP, 'outer')
ROOT_A = os.path.join(OUTER, 'rootA')
ROOT_B = os.path.join(OUTER, 'rootB')

FILES_A = {
    'a.txt': b'hello a\n',
    'empty': b'',
    'empty.txt': b'',
    'bin.dat': bytes(range(256)) * 5,
    'blob': b'\x00\x01\x02 binary without extension',
    'textnoext': b'plain words without extension\n',
    'with space.txt': b'spaced out',
    'dots.in.name.tar.gz': b'\x1f\x8b not really gzip',
    u'\xfcn\xef c\xf6de.css': u'body { content: "\xfc" }'.encode('utf-8'),
    'sub/b.txt': b'hello b in A',
    'sub/deep/page.html': b'<html>deep</html>',
    'sub/deep/big.bin': os.urandom(70000),
    'shared.txt': b'shared from A',
    '..hidden': b'begins with two dots: always refused',
    '...': b'three dots file',
}
FILES_B = {
    'shared.txt': b'shared from B (shadowed)',
    'only_b.txt': b'only in B',
    'sub/b_only.txt': b'B sub',
    'sub/deep/page.html': b'<html>deep from B, shadowed</html>',
}
SECRETS = {
    os.path.join(OUTER, 'secret.txt'): b'SECRET beside the root',
    os.path.join(TMP, 'topsecret.txt'): b'SECRET above the root',
    os.path.join(OUTER, 'rootA.txt'): b'SECRET sharing the root name prefix',
}


def write_tree():
    for root, files in ((ROOT_A, FILES_A), (ROOT_B, FILES_B)):
        for rel, data in files.items():
            full = os.path.join(root, *rel.split('/'))
            os.makedirs(os.path.dirname(full), exist_ok=True)
            with open(full, 'wb') as f:
                f.write(data)
    os.makedirs(os.path.join(ROOT_A, 'emptydir'), exist_ok=True)
    for full, data in SECRETS.items():
        with open(full, 'wb') as f:
            f.write(data)


def read(full):
    with open(full, 'rb') as f:
        return f.read()


# ------------------------------------------------------------------ oracle
def expected_for(roots, raw_path):
    """Model of the contract for the part of the URL after the mount
    point: ('file', fullpath) | 403 | 404."""
    # the route regex '(/+[^/]+)*' followed by '/*' drops trailing slashes
    joined = ('/' + raw_path).rstrip('/')[1:]
    norm = os.path.normpath(joined)
    if norm.startswith('/') or norm.startswith('..'):
        return 403
    for root in roots:
        full = os.path.join(root, norm)
        if os.path.isfile(full):
            return ('file', full)
    return 404


def assert_confined(roots, resp, url):
    """Whatever was answered, it is a 403/404 or the bytes of a regular
    file inside one of the roots with faithful headers."""
    check(resp.status_code in (200, 403, 404), url, resp.status_code)
    for data in SECRETS.values():
        check(data not in resp.data, 'secret leaked', url)


def assert_faithful(resp, full, url):
    data = read(full)
    check(resp.status_code == 200, url, resp.status_code)
    check(resp.data == data, url, 'body differs')
    check(resp.headers.get('Content-Length') == str(len(data)), url,
          resp.headers.get('Content-Length'))
    check(resp.content_length == len(data), url)
    mtime = datetime.utcfromtimestamp(round(os.path.getmtime(full), 0))
    check(resp.headers.get('Last-Modified') == http_date(mtime), url,
          resp.headers.get('Last-Modified'))
    guessed = mimetypes.guess_type(full)[0]
    if guessed:
        check(resp.mimetype == guessed, url, resp.mimetype, guessed)
    else:
        head = data[:1024]
        want = ('application/octet-stream'
                if head and static_mod.is_binary_string(head) else 'text/plain')
        check(resp.mimetype == want, url, resp.mimetype, want)
    check('max-age=360' in resp.headers.get('Cache-Control', ''), url,
          resp.headers.get('Cache-Control'))


def url_for(prefix, raw_path, encode=False):
    if encode:
        raw_path = quote(raw_path, safe='/')
    return prefix.rstrip('/') + '/' + raw_path


def run_confinement(prefix, roots, rng):
    app = Application([(prefix, StaticApplication(list(roots)))])
    client = app.get_local_client()
    abs_pieces = [p for p in OUTER.split('/') if p]
    segments = ['a.txt', 'sub', 'deep', 'b.txt', '.', '..', '', '...',
                'secret.txt', 'rootA'] + abs_pieces[:1]
    paths = set()
    for depth in (1, 2, 3, 4):
        for combo in itertools.product(segments, repeat=depth):
            if depth == 4 and rng.random() > 0.03:
                continue
            paths.add('/'.join(combo))
    # absolute paths made from repeated slashes
    for full in list(SECRETS) + [os.path.join(ROOT_A, 'a.txt'), '/etc/hosts']:
        paths.add(full)                    # '<prefix>//abs/path'
        paths.add('/' + full)
        paths.add('sub/..' + full)
        paths.add('../' * 8 + full.lstrip('/'))
        paths.add('sub/' + '../' * 9 + full.lstrip('/'))
    # every real file, plain and mutated
    for files in (FILES_A, FILES_B):
        for rel in files:
            paths.add(rel)
            paths.add('./' + rel)
            paths.add(rel + '/')
            paths.add(rel + '/.')
            paths.add('sub/../' + rel)
            paths.add('nonexistent/../' + rel)
            paths.add(rel.replace('/', '//'))
            paths.add(rel + '/../../secret.txt')
            chars = list(rel)
            for _ in range(3):
                i = rng.randrange(len(chars) + 1)
                mutated = chars[:]
                mutated.insert(i, rng.choice(['/', '.', '..', '../', '/..', 'x', ' ']))
                paths.add(''.join(mutated))
    paths.update(['', '.', '..', '/', '//', 'emptydir', 'emptydir/', 'sub',
                  'sub/deep', '..hidden', '...', '.../a.txt', '..a.txt',
                  'rootA.txt', '../rootA.txt', '../rootA/a.txt',
                  '../rootB/only_b.txt', 'sub/../../rootA/a.txt'])
    served = set()
    for raw in sorted(paths):
        if prefix == '/' and raw.startswith('/'):
            # under the bare '/' mount leading slashes merge with the mount
            # point; only the universal confinement claim is checked
            resp = client.get(url_for(prefix, raw))
            assert_confined(roots, resp, raw)
            if resp.status_code == 200:
                check(any(resp.data == read(os.path.join(r, *rel.split('/')))
                          for r, fs in ((ROOT_A, FILES_A), (ROOT_B, FILES_B))
                          for rel in fs), raw)
            continue
        for encode in (False, True):
            url = url_for(prefix, raw, encode)
            resp = client.get(url)
            assert_confined(roots, resp, url)
            want = expected_for(roots, raw)
            if isinstance(want, tuple):
                real = os.path.realpath(want[1])
                check(any(real.startswith(r + os.sep) for r in roots), url, real)
                assert_faithful(resp, want[1], url)
                served.add(want[1])
            else:
                check(resp.status_code == want, url, resp.status_code, want)
                check(resp.headers.get('Last-Modified') is None, url)
    # fully encoded dots and slashes
    for enc in ('%2e%2e/secret.txt', '%2E%2E%2Fsecret.txt', 'sub/%2e%2e/%2e%2e/secret.txt',
                '%2fetc/hosts', 'sub%2f..%2f..%2fsecret.txt', '..%2f..%2ftopsecret.txt'):
        resp = client.get(prefix.rstrip('/') + '/' + enc)
        assert_confined(roots, resp, enc)
        check(resp.status_code in (403, 404), enc, resp.status_code)
    # served-at-its-path: every regular file, first root winning
    seen_rel = set()
    for root, files in ((ROOT_A, FILES_A), (ROOT_B, FILES_B)):
        if root not in roots:
            continue
        for rel in files:
            if rel.split('/')[0].startswith('..') or rel in seen_rel:
                continue
            seen_rel.add(rel)
            check(os.path.join(root, *rel.split('/')) in served, prefix, rel)
    return len(paths)


# -------------------------------------------------------- conditional GETs
def run_conditional(prefix, roots):
    app = Application([(prefix, StaticApplication(list(roots)))])
    client = app.get_local_client()
    for rel in ('a.txt', 'sub/deep/page.html', 'empty', 'bin.dat', 'shared.txt'):
        url = url_for(prefix, rel)
        first = client.get(url)
        check(first.status_code == 200, url)
        sent = first.headers['Last-Modified']
        again = client.get(url, headers={'If-Modified-Since': sent})
        check(again.status_code == 304, url, again.status_code)
        check(again.data == b'', url)
        check('public' in again.headers.get('Cache-Control', ''), url)
        check('max-age=360' in again.headers.get('Cache-Control', ''), url)
        check(again.headers.get('Last-Modified') is None, url)
        mtime = first.last_modified.replace(tzinfo=None)
        later = client.get(url, headers={
            'If-Modified-Since': http_date(mtime + timedelta(seconds=5))})
        check(later.status_code == 304 and later.data == b'', url)
        earlier = client.get(url, headers={
            'If-Modified-Since': http_date(mtime - timedelta(seconds=5))})
        check(earlier.status_code == 200, url)
        check(earlier.data == first.data, url)
        check(earlier.headers['Last-Modified'] == sent, url)
        check(earlier.headers['Content-Length'] == first.headers['Content-Length'], url)
        check('public' in earlier.headers.get('Cache-Control', ''), url)
        garbage = client.get(url, headers={'If-Modified-Since': 'not a date'})
        check(garbage.status_code == 200 and garbage.data == first.data, url)
        check('public' not in garbage.headers.get('Cache-Control', ''), url)
        check(list(first.headers.keys()) == list(garbage.headers.keys()), url)
    # conditional request never turns a refusal into a disclosure
    for bad in ('../secret.txt', '/' + OUTER + '/secret.txt', 'nope.txt'):
        resp = client.get(url_for(prefix, bad),
                          headers={'If-Modified-Since': http_date(datetime(2040, 1, 1))})
        check(resp.status_code in (403, 404), bad, resp.status_code)
    # caching disabled: If-Modified-Since is ignored
    app0 = Application([(prefix, StaticApplication(list(roots), cache_timeout=0))])
    c0 = app0.get_local_client()
    resp = c0.get(url_for(prefix, 'a.txt'),
                  headers={'If-Modified-Since': http_date(datetime(2040, 1, 1))})
    check(resp.status_code == 200 and resp.data == FILES_A['a.txt'])


# --------------------------------------------------------- fault injection
class Faults(object):
    """Make the k-th filesystem call (os.stat / open) under TMP fail."""

    def __init__(self):
        self.real_stat = os.stat
        self.real_open = builtins.open
        self.trace = None
        self.fail_at = None
        self.err = None

    def _hit(self, kind, path):
        if self.trace is None:
            return
        try:
            spath = os.fsdecode(path)
        except TypeError:
            return
        if not spath.startswith(TMP):
            return
        self.trace.append((kind, spath))
        if self.fail_at is not None and len(self.trace) == self.fail_at:
            raise OSError(self.err, os.strerror(self.err), spath)

    def install(self):
        def stat(path, *a, **kw):
            self._hit('stat', path)
            return self.real_stat(path, *a, **kw)

        def open_(path, *a, **kw):
            self._hit('open', path)
            return self.real_open(path, *a, **kw)
        os.stat = stat
        builtins.open = open_

    def uninstall(self):
        os.stat = self.real_stat
        builtins.open = self.real_open

    def run(self, func, fail_at=None, err=None):
        self.trace, self.fail_at, self.err = [], fail_at, err
        try:
            return func(), self.trace
        finally:
            self.trace = None


def run_faults():
    faults = Faults()
    faults.install()
    try:
        a_txt = os.path.join(ROOT_A, 'a.txt')
        shared_a = os.path.join(ROOT_A, 'shared.txt')
        shared_b = os.path.join(ROOT_B, 'shared.txt')
        only_b = os.path.join(ROOT_B, 'only_b.txt')
        single = Application([('/s/', StaticApplication([ROOT_A, ROOT_B]))]).get_local_client()
        # two overlapping applications, tried in order
        overlap = Application([('/s/', StaticApplication(ROOT_A)),
                               ('/s/', StaticApplication(ROOT_B))]).get_local_client()

        # the filesystem calls made while serving, in order
        resp, trace = faults.run(lambda: single.get('/s/a.txt'))
        check(resp.status_code == 200)
        check(trace == [('stat', a_txt), ('stat', a_txt), ('open', a_txt),
                        ('stat', a_txt), ('stat', a_txt)], trace)
        resp, trace = faults.run(lambda: single.get('/s/only_b.txt'))
        check(resp.status_code == 200 and resp.data == FILES_B['only_b.txt'])
        check(trace == [('stat', os.path.join(ROOT_A, 'only_b.txt')),
                        ('stat', only_b), ('stat', only_b), ('open', only_b),
                        ('stat', only_b), ('stat', only_b)], trace)
        sent = resp.headers['Last-Modified']
        resp, trace = faults.run(lambda: single.get(
            '/s/a.txt', headers={'If-Modified-Since': sent}))
        check(resp.status_code == 304 and resp.data == b'')
        check(trace == [('stat', a_txt), ('stat', a_txt)], trace)
        resp, trace = faults.run(lambda: single.get(
            '/s/a.txt', headers={'If-Modified-Since': http_date(datetime(1999, 1, 1))}))
        check(resp.status_code == 200 and resp.data == FILES_A['a.txt'])
        check(trace == [('stat', a_txt), ('stat', a_txt), ('stat', a_txt),
                        ('open', a_txt), ('stat', a_txt), ('stat', a_txt)], trace)
        resp, trace = faults.run(lambda: single.get('/s/../secret.txt'))
        check(resp.status_code == 403 and trace == [], trace)
        resp, trace = faults.run(lambda: single.get('/s//' + a_txt.lstrip('/')))
        check(resp.status_code == 403 and trace == [], trace)

        outcomes = {}
        for err in (errno.ENOENT, errno.EACCES, errno.EIO, errno.EISDIR):
            for headers in ({}, {'If-Modified-Since': sent},
                            {'If-Modified-Since': http_date(datetime(1999, 1, 1))}):
                for name, client, url in (('single', single, '/s/shared.txt'),
                                          ('single', single, '/s/only_b.txt'),
                                          ('single', single, '/s/blob'),
                                          ('overlap', overlap, '/s/shared.txt'),
                                          ('overlap', overlap, '/s/a.txt'),
                                          ('overlap', overlap, '/s/only_b.txt')):
                    _, clean_trace = faults.run(lambda: client.get(url, headers=headers))
                    for k in range(1, len(clean_trace) + 1):
                        resp, trace = faults.run(
                            lambda: client.get(url, headers=headers), fail_at=k, err=err)
                        key = (name, url, bool(headers), k)
                        check(resp.status_code in (200, 304, 403, 404), key,
                              errno.errorcode[err], resp.status_code)
                        check(resp.status_code != 500, key)
                        for data in SECRETS.values():
                            check(data not in resp.data, key)
                        if resp.status_code == 200:
                            check(resp.data in (read(shared_a), read(shared_b),
                                                read(only_b), FILES_A['a.txt'],
                                                FILES_A['blob']), key)
                            check(resp.headers['Content-Length'] == str(len(resp.data)), key)
                        # the same fault at the same call gives the same
                        # status whatever the errno
                        outcomes.setdefault((key, tuple(sorted(headers.items()))),
                                            set()).add(resp.status_code)
        for key, statuses in outcomes.items():
            check(len(statuses) == 1, key, statuses)

        # exact fall-through behaviour for the overlapping applications
        def status_at(client, url, k, headers=None):
            resp, _ = faults.run(lambda: client.get(url, headers=headers or {}),
                                 fail_at=k, err=errno.EACCES)
            return resp.status_code, resp.data
        # 1: isfile in find_file of app A fails -> A says 404, B serves its copy
        check(status_at(overlap, '/s/shared.txt', 1) == (200, read(shared_b)))
        # 2: isfile in build_file_response fails -> 404 non-breaking -> B serves
        check(status_at(overlap, '/s/shared.txt', 2) == (200, read(shared_b)))
        # 3: open fails -> 403 non-breaking -> B serves
        check(status_at(overlap, '/s/shared.txt', 3) == (200, read(shared_b)))
        # 4/5: getmtime / getsize fail -> 403 non-breaking -> B serves
        check(status_at(overlap, '/s/shared.txt', 4) == (200, read(shared_b)))
        check(status_at(overlap, '/s/shared.txt', 5) == (200, read(shared_b)))
        # a file only A has: the failure is reported, never a 500
        check(status_at(overlap, '/s/a.txt', 1)[0] == 404)
        check(status_at(overlap, '/s/a.txt', 2)[0] == 404)
        for k in (3, 4, 5):
            check(status_at(overlap, '/s/a.txt', k)[0] in (403, 404))
        for k in (3, 4, 5):
            check(status_at(single, '/s/a.txt', k)[0] == 403, k)
        # conditional branch: getmtime failing is a 403, not a 500
        cond = {'If-Modified-Since': sent}
        check(status_at(single, '/s/a.txt', 2, cond)[0] == 403)
        check(status_at(overlap, '/s/shared.txt', 2, cond)[0] in (200, 304))

        # the file vanishes between lookup and open
        vanish = os.path.join(ROOT_A, 'vanishing.txt')
        with open(vanish, 'wb') as f:
            f.write(b'now you see me')
        real_isfile = static_mod.isfile
        calls = []

        def isfile_then_remove(path):
            rv = real_isfile(path)
            calls.append(path)
            if path == vanish and rv and os.path.exists(vanish):
                os.remove(vanish)
            return rv
        static_mod.isfile = isfile_then_remove
        try:
            resp = single.get('/s/vanishing.txt')
        finally:
            static_mod.isfile = real_isfile
        check(resp.status_code == 404, resp.status_code)
        check(calls == [vanish, vanish], calls)

        # peek failing while sniffing an extension-less file
        real_peek = static_mod.peek_file

        def bad_peek(file_obj, size=-1):
            raise OSError(errno.EIO, 'injected')
        static_mod.peek_file = bad_peek
        try:
            check(single.get('/s/blob').status_code == 403)
            check(single.get('/s/a.txt').status_code == 200)  # not sniffed
        finally:
            static_mod.peek_file = real_peek
    finally:
        faults.uninstall()


# ------------------------------------------------ direct calls of the parts
def run_direct():
    ff = static_mod.find_file
    roots = [ROOT_A, ROOT_B]
    check(ff(roots, 'a.txt') == os.path.join(ROOT_A, 'a.txt'))
    check(ff(roots, 'shared.txt') == os.path.join(ROOT_A, 'shared.txt'))
    check(ff(roots[::-1], 'shared.txt') == os.path.join(ROOT_B, 'shared.txt'))
    check(ff(roots, 'only_b.txt') == os.path.join(ROOT_B, 'only_b.txt'))
    check(ff(roots, 'sub/../sub/./deep//page.html') ==
          os.path.join(ROOT_A, 'sub/deep/page.html'))
    check(ff(roots, 'nope') is None)
    check(ff([], 'a.txt') is None)
    check(ff((), 'a.txt') is None)
    check(ff(iter(roots), 'only_b.txt') == os.path.join(ROOT_B, 'only_b.txt'))
    check(ff(roots, '') is None and ff(roots, '.') is None and ff(roots, 'sub') is None)
    for bad, msg in (('/etc/hosts', "expected relative path, not '/etc/hosts'"),
                     ('//etc/hosts', "expected relative path, not '//etc/hosts'"),
                     ('..', 'attempted to access beyond root directory'),
                     ('../secret.txt', 'attempted to access beyond root directory'),
                     ('sub/../../secret.txt', 'attempted to access beyond root directory'),
                     ('..hidden', 'attempted to access beyond root directory'),
                     ('.../a.txt', 'attempted to access beyond root directory'),
                     ('/..', "expected relative path, not '/..'")):
        try:
            ff(roots, bad)
        except ValueError as e:
            check(type(e) is ValueError and str(e) == msg, bad, str(e))
        else:
            check(False, 'not refused', bad)
        try:  # refused before any search path is looked at
            ff(None, bad)
        except ValueError:
            check(True)
    # limit_root=False: no refusal, plain join
    secret = os.path.join(OUTER, 'secret.txt')
    check(ff([ROOT_A], '../secret.txt', limit_root=False) == os.path.join(ROOT_A, '../secret.txt'))
    check(ff([ROOT_A], secret, limit_root=False) == secret)
    check(ff([ROOT_A], secret, False) == secret)
    check(ff([ROOT_A], '..hidden', limit_root=False) == os.path.join(ROOT_A, '..hidden'))
    check(ff([ROOT_A], 'nope', limit_root=False) is None)
    for exc_type, args in ((TypeError, ([ROOT_A], None)), (TypeError, ([ROOT_A], 5)),
                           (TypeError, ([ROOT_A], b'a.txt')), (TypeError, (None, 'a.txt')),
                           (TypeError, ([None], 'a.txt'))):
        try:
            ff(*args)
        except Exception as e:
            check(type(e) is exc_type, args, type(e))
        else:
            check(False, args)

    # StaticApplication.get_file_response called as the router calls it
    class Req(object):
        def __init__(self, ims=None, environ=None):
            self.if_modified_since = ims
            self.environ = environ or {}

    sapp = StaticApplication([ROOT_A, ROOT_B])
    check(sapp.search_paths == [ROOT_A, ROOT_B])
    check(StaticApplication(ROOT_A).search_paths == [ROOT_A])
    tup = (ROOT_A, ROOT_B)
    check(StaticApplication(tup).search_paths is tup)
    for path in (['a.txt'], ('a.txt',), 'a.txt', ['sub', '', 'b.txt'], ['sub', '..', 'a.txt']):
        resp = sapp.get_file_response(path, Req())
        check(resp.status_code == 200)
        check(b''.join(resp.response) in (FILES_A['a.txt'], FILES_A['sub/b.txt']))
        check(type(resp.response).__name__ == 'FileWrapper')
    for path, exc_type in ((['', 'etc', 'hosts'], Forbidden), (['..', 'secret.txt'], Forbidden),
                           (['..'], Forbidden), (['..hidden'], Forbidden),
                           (['nope'], NotFound), ([], NotFound), ([''], NotFound),
                           (['sub'], NotFound), ('', NotFound), ('/etc/hosts', Forbidden),
                           (OUTER.split('/') + ['secret.txt'], Forbidden)):
        try:
            sapp.get_file_response(path, Req())
        except (Forbidden, NotFound) as e:
            check(type(e) is exc_type, path, type(e))
            check(e.is_breaking is False, path)
        else:
            check(False, path)
    for path, exc_type in (([1, 2], TypeError), (5, TypeError), (None, TypeError),
                           (b'a.txt', TypeError)):
        try:
            sapp.get_file_response(path, Req())
        except Exception as e:
            check(type(e) is exc_type, path, type(e))
        else:
            check(False, path)

    # wsgi.file_wrapper from the environ is used, for both entry points
    class MyWrapper(object):
        def __init__(self, f):
            self.f = f

        def __iter__(self):
            data = self.f.read()
            self.f.close()
            return iter([data])

    env = {'wsgi.file_wrapper': MyWrapper}
    resp = sapp.get_file_response(['bin.dat'], Req(environ=env))
    check(type(resp.response) is MyWrapper and b''.join(resp.response) == FILES_A['bin.dat'])
    route = StaticFileRoute('/x', os.path.join(ROOT_A, 'bin.dat'))
    resp = route.get_file_response(Req(environ=env))
    check(type(resp.response) is MyWrapper and b''.join(resp.response) == FILES_A['bin.dat'])
    resp = route.get_file_response(Req())
    check(type(resp.response).__name__ == 'FileWrapper')
    resp.response.close()
    # 304 through both entry points, mtime compared with <=
    mtime = static_mod.get_file_mtime(os.path.join(ROOT_A, 'bin.dat'))
    for ims, status in ((mtime, 304), (mtime + timedelta(seconds=1), 304),
                        (mtime - timedelta(seconds=1), 200), (None, 200)):
        for resp in (route.get_file_response(Req(ims)),
                     sapp.get_file_response(['bin.dat'], Req(ims))):
            check(resp.status_code == status, ims, resp.status_code)
            check(bool(resp.cache_control.public) == (ims is not None))
            check(resp.cache_control.max_age == 360)
            if status == 200:
                check(resp.last_modified.replace(tzinfo=None) == mtime)
                check(resp.content_length == len(FILES_A['bin.dat']))
                resp.response.close()
            else:
                check(resp.last_modified is None and resp.content_length in (None, 0))
                check(b''.join(resp.response) == b'')

    # build_file_response on its own
    bfr = static_mod.build_file_response
    for rel, want in (('a.txt', 'text/plain'), ('empty', 'text/plain'),
                      ('blob', 'application/octet-stream'), ('textnoext', 'text/plain'),
                      ('sub/deep/page.html', 'text/html'), ('...', 'text/plain')):
        resp = bfr(os.path.join(ROOT_A, rel))
        check(resp.mimetype == want, rel, resp.mimetype)
        check(resp.cache_control.max_age is None)
        check(b''.join(resp.response) == FILES_A[rel])
    resp = bfr(os.path.join(ROOT_A, 'blob'), default_binary_mime='x/bin', default_text_mime='x/txt')
    check(resp.mimetype == 'x/bin')
    resp.response.close()
    resp = bfr(os.path.join(ROOT_A, 'empty'), default_binary_mime='x/bin', default_text_mime='x/txt')
    check(resp.mimetype == 'x/txt')
    resp.response.close()
    resp = bfr(os.path.join(ROOT_A, 'blob'), mimetype='image/png')
    check(resp.mimetype == 'image/png')
    resp.response.close()
    for missing in (os.path.join(ROOT_A, 'nope'), ROOT_A, os.path.join(ROOT_A, 'emptydir'), ''):
        try:
            bfr(missing)
        except NotFound as e:
            check(e.is_breaking is False)
        else:
            check(False, missing)
    # conditional branch consults the mtime before isfile: a missing file is a 403 there
    try:
        bfr(os.path.join(ROOT_A, 'nope'), cache_timeout=10, cached_modify_time=mtime)
    except Forbidden as e:
        check(e.is_breaking is False)
    else:
        check(False)
    # a directory that is "not modified" still answers 304 (as before)
    old = static_mod.get_file_mtime(ROOT_A) + timedelta(days=1)
    check(bfr(ROOT_A, cache_timeout=10, cached_modify_time=old).status_code == 304)
    # cache_timeout=0 / None disables the conditional branch
    for ct in (0, None):
        resp = bfr(os.path.join(ROOT_A, 'a.txt'), cache_timeout=ct, cached_modify_time=old)
        check(resp.status_code == 200 and not resp.cache_control.public)
        resp.response.close()


# ------------------------------------------------------- StaticFileRoute
def run_file_route():
    target = os.path.join(ROOT_A, 'sub', 'deep', 'page.html')
    app = Application([StaticFileRoute('/page', target),
                       StaticFileRoute('/blob', os.path.join(ROOT_A, 'blob')),
                       StaticFileRoute('/forced', os.path.join(ROOT_A, 'blob'),
                                       mimetype='text/css', cache_timeout=7)])
    client = app.get_local_client()
    resp = client.get('/page')
    assert_faithful(resp, target, '/page')
    check(resp.mimetype == 'text/html')
    again = client.get('/page', headers={'If-Modified-Since': resp.headers['Last-Modified']})
    check(again.status_code == 304 and again.data == b'')
    check(client.get('/blob').mimetype == 'application/octet-stream')
    forced = client.get('/forced')
    check(forced.mimetype == 'text/css' and 'max-age=7' in forced.headers['Cache-Control'])
    check(forced.data == FILES_A['blob'])
    # construction checks the file ...
    for bad, exc_type in ((os.path.join(ROOT_A, 'missing.txt'), FileNotFoundError),
                          (ROOT_A, IsADirectoryError)):
        try:
            StaticFileRoute('/bad', bad)
        except OSError as e:
            check(type(e) is exc_type, bad, type(e))
        else:
            check(False, bad)
    # ... unless told not to; the failure then is a non-breaking 404 at request time
    late = StaticFileRoute('/late', os.path.join(ROOT_A, 'missing.txt'), check_file=False)
    check(late.file_path.endswith('missing.txt') and late.cache_timeout == 360 and late.mimetype is None)

    from werkzeug.wrappers import Response
    app2 = Application([late, ('/late', lambda: Response('fallback'))])
    check(app2.get_local_client().get('/late').data == b'fallback')
    check(Application([late]).get_local_client().get('/late').status_code == 404)
    # the construction check opens the file once (text mode) and closes it
    opened = []
    real_open = builtins.open

    class Spy(object):
        def __init__(self, f):
            self.f = f

        def close(self):
            opened.append('closed')
            return self.f.close()

        def __enter__(self):
            return self

        def __exit__(self, *a):
            self.close()
            return False

    def spy_open(*a, **kw):
        opened.append((a, kw))
        return Spy(real_open(*a, **kw))
    static_mod.open = spy_open
    try:
        StaticFileRoute('/spy', target)
    finally:
        del static_mod.open
    check(opened == [((target,), {}), 'closed'], opened)
    # the file disappearing after construction
    temp = os.path.join(ROOT_A, 'temp_route.txt')
    with open(temp, 'wb') as f:
        f.write(b'temp')
    route = StaticFileRoute('/temp', temp)
    c3 = Application([route]).get_local_client()
    first = c3.get('/temp')
    check(first.data == b'temp')
    os.remove(temp)
    check(c3.get('/temp').status_code == 404)
    check(c3.get('/temp', headers={'If-Modified-Since': first.headers['Last-Modified']}
                 ).status_code == 403)


def main():
    rng = random.Random(1404)
    write_tree()
    try:
        n = 0
        for prefix in ('/static/', '/', '/deep/er/prefix/'):
            for roots in ([ROOT_A, ROOT_B], [ROOT_B, ROOT_A], [ROOT_A]):
                if roots[0] == ROOT_B:
                    continue  # oracle FILES tables assume A first; covered in run_direct
                n += run_confinement(prefix, roots, rng)
            run_conditional(prefix, [ROOT_A, ROOT_B])
        run_direct()
        run_faults()
        run_file_route()
    finally:
        shutil.rmtree(TMP, ignore_errors=True)
    print('%s paths, %s checks (focus: %s)' % (n, CHECKS[0], FOCUS))
    print('PASS')


if __name__ == '__main__':
    main()
