# -*- coding: utf-8 -*-
"""Demo for C10: embedding a sub-application == declaring its routes flat.

Builds nested applications (depth 1 and 2) over a grid of prefixes, slash
modes, inherit_slashes / rebind_render flags, and compares every response
(status, body, Location, middleware trace) with an independently flattened
application.  Also pins the helpers of the mechanism on edge cases.
Prints PASS and exits 0.
"""
import itertools
import sys

from werkzeug.wrappers import Response

from clastic import Application, Route, SubApplication
from clastic.application import cast_to_route_factory
from clastic.errors import ErrorHandler, NotFound
from clastic.middleware import Middleware
from clastic.middleware.core import (check_middlewares, merge_middlewares,
                                     make_middleware_chain)
from clastic.route import (S_REDIRECT, S_REWRITE, S_STRICT, BoundRoute,
                           normalize_path, RESERVED_ARGS)
import clastic.route

TRACE = []


class TraceMW(Middleware):
    tag = '?'

    def request(self, next):
        TRACE.append('>' + self.tag)
        try:
            return next()
        finally:
            TRACE.append('<' + self.tag)


class MWA(TraceMW):
    tag = 'A'


class MWB(TraceMW):
    tag = 'B'
    provides = ('bval',)

    def request(self, next):
        TRACE.append('>B')
        return next(bval='b!')


class MWC(TraceMW):
    tag = 'C'

    def endpoint(self, next):
        TRACE.append('epC')
        return next()

    def render(self, next, context):
        TRACE.append('rnC')
        return next()


class Factory(object):
    def __init__(self, tag):
        self.tag = tag

    def __call__(self, arg):
        tag = self.tag

        def render(context):
            return Response('%s:%s:%s' % (tag, arg, context))
        return render


class TagHandler(ErrorHandler):
    def __init__(self, tag):
        ErrorHandler.__init__(self)
        self.tag = tag

    def render_error(self, request, _error, who):
        return Response('ERR[%s/%s] %s' % (self.tag, who, _error.code),
                        status=_error.code)


def ep_root(who, shared):
    return 'root(%s,%s)' % (who, shared)


def ep_leaf(who, bval='nob'):
    return 'leaf(%s,%s)' % (who, bval)


def ep_branch(deep='-'):
    return 'branch(%s)' % deep


def ep_item(item_id, who):
    return 'item(%r,%s)' % (item_id, who)


def ep_multi(parts, shared):
    return 'multi(%r,%s)' % (parts, shared)


def ep_boom():
    raise ValueError('boom')


def ep_nf():
    raise NotFound()


def ep_post(request):
    return 'post(%s)' % request.method


def ep_direct():
    return Response('direct')


def ep_own(who):
    return 'own(%s)' % who


INNER_ROUTES = [('/', ep_root, 'r_root', None),
                ('/leaf', ep_leaf, 'r_leaf', None),
                ('/branch/', ep_branch, 'r_branch', None),
                ('/item/<item_id:int>', ep_item, 'r_item', None),
                ('/multi/<parts*>/', ep_multi, 'r_multi', None),
                ('/boom', ep_boom, 'r_boom', None),
                ('/nf', ep_nf, 'r_nf', None),
                ('/post', ep_post, 'r_post', ['POST']),
                ('/direct', ep_direct, None, None)]

PATHS = ['', '/', '/leaf', '/leaf/', '//leaf', '/branch', '/branch/',
         '/branch//', '/item/3', '/item/-4/', '/item/x', '/multi',
         '/multi/a/b', '/multi/a//b/', '/boom', '/nf', '/post', '/direct',
         '/nope', '/leaf?q=1&r=%C3%A9']


def dedupe(mws):
    out = []
    for mw in mws:
        if mw not in out:
            out.append(mw)
    return out


def level_cfg(tag, mws, slash, res):
    return dict(tag=tag, middlewares=mws, slash_mode=slash, resources=res)


def build_nested(levels, prefixes, rebind_render, inherit_slashes, as_tuple):
    """levels: outermost first; prefixes: one per embedding."""
    inner = levels[-1]
    app = Application([Route(p, ep, rn, methods=m)
                       for p, ep, rn, m in INNER_ROUTES],
                      resources=inner['resources'],
                      middlewares=inner['middlewares'],
                      render_factory=Factory(inner['tag']),
                      error_handler=TagHandler(inner['tag']),
                      slash_mode=inner['slash_mode'])
    for lvl, prefix in zip(reversed(levels[:-1]), reversed(prefixes)):
        if as_tuple and not rebind_render and inherit_slashes:
            entry = (prefix, app)
            assert isinstance(cast_to_route_factory(entry), SubApplication)
        else:
            entry = SubApplication(prefix, app, rebind_render=rebind_render,
                                   inherit_slashes=inherit_slashes)
        app = Application([Route('/own', ep_own, 'r_own'), entry,
                           Route('/own2/', ep_own, 'r_own2')],
                          resources=lvl['resources'],
                          middlewares=lvl['middlewares'],
                          render_factory=Factory(lvl['tag']),
                          error_handler=TagHandler(lvl['tag']),
                          slash_mode=lvl['slash_mode'])
    return app


def build_flat(levels, prefixes, rebind_render, inherit_slashes):
    outer, inner = levels[0], levels[-1]
    def merged(upto):
        resources = {}
        for lvl in reversed(levels[:upto]):
            resources.update(lvl['resources'])  # outermost wins
        mws = dedupe(list(itertools.chain.from_iterable(
            lvl['middlewares'] for lvl in levels[:upto])))
        return dict(resources=resources, middlewares=mws)
    full_prefix = ''.join(p.rstrip('/') for p in prefixes)
    slash = outer['slash_mode'] if inherit_slashes else inner['slash_mode']
    render_tag = outer['tag'] if rebind_render else inner['tag']
    factory = Factory(render_tag)
    routes = []
    # outer applications' own routes, in declaration order around the embed
    head, tail = [], []
    acc = ''
    for k, (lvl, prefix) in enumerate(zip(levels[:-1], prefixes)):
        own_factory = Factory(outer['tag'] if rebind_render else lvl['tag'])
        own_slash = outer['slash_mode'] if inherit_slashes else lvl['slash_mode']
        head.append(Route(acc + '/own', ep_own, own_factory('r_own'),
                          slash_mode=own_slash, **merged(k + 1)))
        tail.insert(0, Route(acc + '/own2/', ep_own, own_factory('r_own2'),
                             slash_mode=own_slash, **merged(k + 1)))
        acc += prefix.rstrip('/')
    assert acc == full_prefix
    for p, ep, rn, m in INNER_ROUTES:
        render = factory(rn) if rn is not None else None
        routes.append(Route(full_prefix + p, ep, render, methods=m,
                            slash_mode=slash, **merged(len(levels))))
    flat = Application(resources=outer['resources'],
                       middlewares=outer['middlewares'],
                       error_handler=TagHandler(outer['tag']),
                       slash_mode=outer['slash_mode'])
    for rt in head + routes + tail:
        flat.add(rt, inherit_slashes=False)
    return flat, full_prefix


def observe(app, path, method='GET'):
    del TRACE[:]
    cl = app.get_local_client()
    resp = cl.open(path, method=method)
    return (resp.status_code, resp.get_data(True),
            resp.headers.get('Location'), tuple(TRACE))


def compare_tree(levels, prefixes, rebind_render, inherit_slashes, as_tuple):
    nested = build_nested(levels, prefixes, rebind_render, inherit_slashes,
                          as_tuple)
    flat, full_prefix = build_flat(levels, prefixes, rebind_render,
                                   inherit_slashes)
    n_pat = [(r.pattern, r.slash_mode, [type(m) for m in r.middlewares])
             for r in nested.routes]
    f_pat = [(r.pattern, r.slash_mode, [type(m) for m in r.middlewares])
             for r in flat.routes]
    assert n_pat == f_pat, (n_pat, f_pat)
    count = 0
    urls = [full_prefix + p for p in PATHS]
    urls += ['/own', '/own/', '/own2', '/own2/', '/outside', '/']
    for url in urls:
        for method in ('GET', 'POST'):
            got = observe(nested, url, method)
            want = observe(flat, url, method)
            assert got == want, (url, method, got, want)
            count += 1
    return count


def check_trees():
    total = 0
    shared_mw = [MWA(), MWB()]
    for slash_o, slash_i in [(S_REDIRECT, S_STRICT), (S_REWRITE, S_REDIRECT),
                             (S_STRICT, S_REWRITE), (S_REDIRECT, S_REDIRECT)]:
        for rebind, inherit, as_tuple in itertools.product((False, True),
                                                           repeat=3):
            for prefixes in (['/p'], ['/p/'], ['/'], ['/a', '/b/'],
                             ['/', '/deep'], ['/x/', '/']):
                depth = len(prefixes) + 1
                levels = [level_cfg('L0', [MWA(), MWC()], slash_o,
                                    {'who': 'outer', 'shared': 's0'})]
                if depth == 3:
                    levels.append(level_cfg('L1', [MWC()], S_REDIRECT,
                                            {'who': 'mid'}))
                levels.append(level_cfg('L%d' % (depth - 1), shared_mw,
                                        slash_i,
                                        {'who': 'inner', 'shared': 's2',
                                         'deep': 'd2'}))
                if depth == 3:
                    # 'shared' defined by outermost and innermost only;
                    # 'deep' by the innermost only
                    pass
                total += compare_tree(levels, prefixes, rebind, inherit,
                                      as_tuple)
    return total


def check_helpers():
    # normalize_path, through every public import path
    from clastic.application import normalize_path as np_app
    assert np_app is normalize_path is clastic.route.normalize_path
    cases = {('', False): '/', ('', True): '/', ('/', True): '/',
             ('//', False): '/', ('a', False): '/a', ('a', True): '/a/',
             ('/a//b/', False): '/a/b', ('/a//b', True): '/a/b/',
             ('///a/', 0): '/a', ('/a', 'yes'): '/a/', ('/ /', True): '/ /'}
    for (path, branch), want in cases.items():
        assert normalize_path(path, branch) == want, (path, branch)
        assert normalize_path(path=path, is_branch=branch) == want
    try:
        normalize_path(None, True)
    except AttributeError:
        pass
    else:
        raise AssertionError('expected AttributeError')

    # match_path
    app = Application()
    br = Route('/i/<n:int>/<rest*>', lambda n, rest: None).bind(app)
    assert br.match_path('/i/5') == {'n': 5, 'rest': []}
    assert br.match_path('/i/+5/a/b/') == {'n': 5, 'rest': ['a', 'b']}
    assert br.match_path('/i/x') is None
    assert br.match_path('/j/5') is None
    assert br.match_path('') is None
    br2 = Route('/f/<x:float>', lambda x: None).bind(app)
    assert br2.match_path('/f/1.5') == {'x': 1.5}
    assert br2.match_path('/f/+ 2') == {'x': 2.0} or br2.match_path('/f/+ 2') is None
    res = br.match_path('/i/7')
    assert res is not br.match_path('/i/7')  # a fresh dict per call
    plain = Route('/plain', lambda: None).bind(app)
    assert plain.match_path('/plain') == {} and plain.match_path('/x') is None

    # check_middlewares: conflict reporting (sources in declaration order)
    class Prov(Middleware):
        provides = ('who',)

        def request(self, next):
            return next(who=1)
    try:
        Application([Route('/<who>', lambda who: None)],
                    resources={'who': 1})
    except NameError as ne:
        msg = str(ne)
        assert msg.startswith('found conflicting provides'), msg
        assert msg.index("'url'") < msg.index("'resources'"), msg
    else:
        raise AssertionError('expected NameError')
    try:
        Application([Route('/<request>', lambda request: None)])
    except NameError as ne:
        msg = str(ne)
        assert msg.index("'url'") < msg.index("'builtins'"), msg
    else:
        raise AssertionError('expected NameError')
    assert check_middlewares([]) is True
    assert check_middlewares([MWA()], {'x': set('ab')}) is True

    # make_middleware_chain: unresolved arguments of each kind, reserved next
    class NeedsReq(Middleware):
        def request(self, next, nonesuch):
            return next()

    class NeedsEp(Middleware):
        def endpoint(self, next, nonesuch):
            return next()

    class NeedsRn(Middleware):
        def render(self, next, nonesuch):
            return next()

    def rn(context):
        return context
    for mw, kind in ((NeedsReq(), 'request'), (NeedsEp(), 'endpoint'),
                     (NeedsRn(), 'render')):
        try:
            make_middleware_chain([mw], lambda: None, rn, RESERVED_ARGS)
        except NameError as ne:
            want = "unresolved %s middleware arguments: ['nonesuch']" % kind
            assert str(ne) == want, (str(ne), want)
        else:
            raise AssertionError('expected NameError for %s' % kind)
    # endpoint is reported before render, render before request
    try:
        make_middleware_chain([NeedsReq(), NeedsRn(), NeedsEp()],
                              lambda: None, rn, RESERVED_ARGS)
    except NameError as ne:
        assert 'endpoint' in str(ne), str(ne)
    try:
        make_middleware_chain([NeedsReq(), NeedsRn()],
                              lambda: None, rn, RESERVED_ARGS)
    except NameError as ne:
        assert 'render' in str(ne), str(ne)
    for bad_ep, bad_rn in ((lambda next: None, rn), (lambda: None,
                                                    lambda next: None)):
        try:
            make_middleware_chain([], bad_ep, bad_rn, RESERVED_ARGS)
        except NameError as ne:
            assert "argument 'next' reserved" in str(ne)
        else:
            raise AssertionError('expected NameError')
    chain = make_middleware_chain([], lambda: 'ctx', rn, ())
    assert chain() == 'ctx'
    chain = make_middleware_chain((MWC(), MWB()), lambda bval: bval,
                                  lambda context: context.upper(), ('zzz',))
    del TRACE[:]
    assert chain() == 'B!' and TRACE == ['>C', '>B', 'epC', 'rnC', '<C'], TRACE

    # merge_middlewares: outer first, unique kept once at outermost position
    a, b, c, a2 = MWA(), MWB(), MWC(), MWA()
    merged = merge_middlewares([a2, b], [a, c])
    assert [id(m) for m in merged] == [id(a), id(c), id(b)]

    class Rigid(Middleware):
        reorderable = False
    try:
        merge_middlewares([Rigid()], [Rigid()])
    except ValueError as ve:
        assert 'multiple inclusion of unique middleware' in str(ve)
    else:
        raise AssertionError('expected ValueError')

    # binding: unknown keyword arguments are still rejected
    try:
        BoundRoute(Route('/', lambda: None), app, nonesuch=1)
    except TypeError as te:
        assert 'unexpected keyword args' in str(te)
    else:
        raise AssertionError('expected TypeError')


def main():
    check_helpers()
    total = check_trees()
    assert total > 5000, total
    print('compared %d requests' % total)
    print('PASS')
    return 0


if __name__ == '__main__':
    sys.exit(main())
