# Standalone demo for property C16 (signed cookies). Prints PASS on success.
import sys, os, re, json, time, base64
sys.path.insert(0, os.path.dirname(os.path.abspath(__file__)))

import secure_cookie.cookie as sc
from werkzeug.test import Client
from werkzeug.wrappers import Response

from clastic import Application, render_basic
from clastic.middleware import cookie as cmod
from clastic.middleware.cookie import (SignedCookieMiddleware, JSONCookie,
                                       SESSION, NEVER, NOW, DEFAULT_EXPIRY)

assert (SESSION, NEVER, NOW, DEFAULT_EXPIRY) == (0, 'never', 'now', 0)

CLOCK = [1000000.0]
_real_time = time.time
time.time = lambda: CLOCK[0]
sc.time = lambda: CLOCK[0]


def ep_set(cookie, key, request):
    cookie[key] = json.loads(request.args['v'])
    return json.dumps(dict(cookie), sort_keys=True)


def ep_del(cookie, key):
    cookie.pop(key, None)
    return json.dumps(dict(cookie), sort_keys=True)


def ep_read(cookie):
    return json.dumps(dict(cookie), sort_keys=True)


def ep_clear(cookie):
    cookie.clear()
    return json.dumps(dict(cookie), sort_keys=True)


def ep_expire(cookie):
    cookie.set_expires()
    return json.dumps(dict(cookie), sort_keys=True)


def make(arg_name='cookie', **kw):
    mw = SignedCookieMiddleware(arg_name=arg_name, **kw)
    routes = [('/set/<key>', ep_set, render_basic),
              ('/del/<key>', ep_del, render_basic),
              ('/read', ep_read, render_basic),
              ('/clear', ep_clear, render_basic),
              ('/expire', ep_expire, render_basic)]
    if arg_name != 'cookie':
        def r_set(sess, key, request): return ep_set(sess, key, request)
        def r_del(sess, key): return ep_del(sess, key)
        def r_read(sess): return ep_read(sess)
        def r_clear(sess): return ep_clear(sess)
        def r_expire(sess): return ep_expire(sess)
        assert arg_name == 'sess'
        routes = [('/set/<key>', r_set, render_basic),
                  ('/del/<key>', r_del, render_basic),
                  ('/read', r_read, render_basic),
                  ('/clear', r_clear, render_basic),
                  ('/expire', r_expire, render_basic)]
    app = Application(routes, middlewares=[mw])
    return mw, app


class Browser(object):
    """Minimal client with an explicit, tamperable cookie store."""
    def __init__(self, app, name):
        self.c = Client(app, Response, use_cookies=False)
        self.name = name
        self.value = None      # raw cookie value or None
        self.last_set = None   # raw Set-Cookie header of last response

    def get(self, path):
        headers = []
        if self.value is not None:
            headers.append(('Cookie', '%s=%s' % (self.name, self.value)))
        resp = self.c.get(path, headers=headers)
        assert resp.status_code == 200, (path, resp.status_code, resp.data)
        sets = resp.headers.getlist('Set-Cookie')
        assert len(sets) <= 1, sets
        self.last_set = sets[0] if sets else None
        if sets:
            first = sets[0].split(';', 1)[0]
            n, v = first.split('=', 1)
            assert n == self.name, (n, self.name)
            if v.startswith('"') and v.endswith('"') and len(v) >= 2:
                v = v[1:-1]   # werkzeug's dump_cookie quotes the value
            assert '\\' not in v and '"' not in v, v
            self.value = v
        return json.loads(resp.get_data(as_text=True))


def expires_of(set_cookie):
    import calendar
    m = re.search(r'(?i); expires=([^;]+)', set_cookie)
    txt = m.group(1).strip()
    for fmt in ('%a, %d-%b-%Y %H:%M:%S GMT', '%a, %d %b %Y %H:%M:%S GMT'):
        try:
            return calendar.timegm(time.strptime(txt, fmt))
        except ValueError:
            pass
    raise AssertionError(txt)


VALUES = [u'plain', u'', 0, 1.5, -3, None, True, [], {}, [1, [2, {u'a': u'b'}]],
          {u'k': [u'é中', u'x y&z=?']}, u'☃ snow', u'a' * 300]


def run_happy(expiry_kw, name='clastic_cookie', arg_name='cookie', **kw):
    mw, app = make(arg_name=arg_name, **dict(kw, **expiry_kw))
    b = Browser(app, name)
    model = {}
    assert b.get('/read') == {}
    timed = expiry_kw.get('expiry') not in (None, NEVER, 0)
    # unmodified cookie is not saved, but a lifetime stamp is a modification
    assert (b.last_set is not None) == timed, b.last_set
    for i, v in enumerate(VALUES):
        k = 'k%d' % i
        from werkzeug.urls import url_quote
        got = b.get('/set/%s?v=%s' % (k, url_quote(json.dumps(v), safe='')))
        model[k] = v
        assert got == model, (got, model)
        assert b.last_set is not None
        assert b.get('/read') == model
    assert b.get('/del/k0') == dict((k, v) for k, v in model.items() if k != 'k0')
    del model['k0']
    assert b.get('/read') == model
    return mw, app, b, model


def tamper_variants(good, other_good, foreign):
    sig, _, payload = good.partition('?')
    osig, _, opayload = other_good.partition('?')
    flip = lambda s, i: s[:i] + ('A' if s[i] != 'A' else 'B') + s[i + 1:]
    out = [flip(good, 0), flip(good, len(good) - 3), flip(good, len(sig) + 3),
           good[:-1], good[:len(good) // 2], good[:3], good + 'AAAA', good + '&x=eA==',
           'x=eA==&' + payload, sig + '?' + opayload, osig + '?' + payload,
           foreign, payload, sig, sig + '?', '?' + payload, '?', '&', '=',
           'garbage', '!!!!?a=b', '%%%?%%%=%%%', 'abc?k0', 'a?b=c', '\xe9\xe9?\xe9=\xe9',
           base64.b64encode(os.urandom(20)).decode() + '?k=' + 'IiI=',
           'A?k=IiI=', 'AA?k=IiI=', 'AAA?k=IiI=', sig + '?k1=###', good.replace('?', '&'),
           '"' + flip(good, 2) + '"', '""', '"']
    return out


def run_tamper(expiry_kw):
    mw, app, b, model = run_happy(expiry_kw, secret_key='server-secret')
    good = b.value
    b.get('/set/extra?v=1')
    other_good = b.value
    assert other_good != good
    # a cookie signed with another key
    mw2, app2, b2, _ = run_happy(expiry_kw, secret_key='attacker-secret')
    foreign = b2.value
    # old good cookie is still valid (server is stateless) -> presents old data
    b.value = good
    assert b.get('/read') == model
    # werkzeug-jar style quoted cookie is accepted
    b.value = '"' + good + '"'
    assert b.get('/read') == model
    for bad in tamper_variants(good, other_good, foreign):
        t = Browser(app, 'clastic_cookie')
        t.value = bad
        assert t.get('/read') == {}, bad
        assert (t.last_set is not None) == (expiry_kw.get('expiry') == 3600), bad
        t.value = bad
        got = t.get('/set/n?v=%22v%22')
        assert got == {'n': 'v'}, (bad, got)
        assert t.get('/read') == {'n': 'v'}
    # direct API
    for bad in tamper_variants(good, other_good, foreign):
        ck = JSONCookie.unserialize(bad, 'server-secret')
        assert dict(ck) == {} and ck.new is False and not ck.should_save, bad
    ck = JSONCookie.unserialize(good, 'server-secret')
    assert dict(ck) == model
    assert dict(JSONCookie.unserialize(good, 'attacker-secret')) == {}


def run_expiry():
    # numeric expiry
    CLOCK[0] = 2000000.0
    mw, app = make(expiry=100, secret_key='s')
    b = Browser(app, 'clastic_cookie')
    assert b.get('/set/a?v=1') == {'a': 1}
    assert 'expires=' in b.last_set.lower()
    assert expires_of(b.last_set) == int(2000100), b.last_set
    CLOCK[0] += 99
    assert b.get('/read') == {'a': 1}
    # sliding expiry: every request re-stamps (and so re-saves) the cookie
    assert expires_of(b.last_set) == 2000199, b.last_set
    # modification re-stamps from now (the _expires key is stripped on load)
    assert b.get('/set/b?v=2') == {'a': 1, 'b': 2}
    assert expires_of(b.last_set) == int(2000099 + 100), b.last_set
    CLOCK[0] += 100
    assert b.get('/read') == {'a': 1, 'b': 2}   # exactly at expiry: still valid
    assert expires_of(b.last_set) == 2000299, b.last_set
    stale = b.value
    CLOCK[0] += 100.5
    assert b.get('/read') == {}
    CLOCK[0] -= 1   # the same cookie one second earlier is still fine
    b.value = stale
    assert b.get('/read') == {'a': 1, 'b': 2}
    assert b.get('/set/c?v=3') == {'a': 1, 'b': 2, 'c': 3}
    # endpoint-chosen expiry (set_expires) overrides
    got = b.get('/expire')
    assert got == {'a': 1, 'b': 2, 'c': 3, '_expires': 123456}
    assert expires_of(b.last_set) == int(123456), b.last_set
    assert b.get('/read') == {}
    # session / default: no expires attribute, no _expires
    for kw in ({}, {'expiry': SESSION}, {'expiry': NEVER}, {'data_expiry': NEVER}):
        mw, app = make(secret_key='s', **kw)
        b = Browser(app, 'clastic_cookie')
        assert b.get('/set/a?v=1') == {'a': 1}
        assert 'expires' not in b.last_set.lower(), b.last_set
        CLOCK[0] += 10 ** 8
        assert b.get('/read') == {'a': 1}
        assert b.get('/expire') == {'a': 1, '_expires': 123456}
        assert expires_of(b.last_set) == int(123456), b.last_set
        assert b.get('/read') == {}
    # deprecated data_expiry wins over expiry
    mw = SignedCookieMiddleware(expiry=5, data_expiry=7)
    assert mw.expiry == 7
    # float expiry, zero-ish
    mw, app = make(expiry=0.0, secret_key='s')   # 0.0 == SESSION
    b = Browser(app, 'clastic_cookie')
    b.get('/set/a?v=1')
    assert 'expires' not in b.last_set.lower()
    # a bad expiry type is a server error at save time (TypeError)
    mw, app = make(expiry='soon', secret_key='s')
    c = Client(app, Response)
    try:
        r = c.get('/read')
        assert r.status_code == 500
    except TypeError:
        pass


def run_options():
    mw, app = make(arg_name='sess', cookie_name='SID', secret_key=b'k', domain='example.com',
                   path='/app', secure=True, http_only=True, expiry=50)
    assert mw.provides == ('sess',)
    b = Browser(app, 'SID')
    assert b.get('/set/a?v=1') == {'a': 1}
    low = b.last_set.lower()
    for frag in ('domain=example.com', 'path=/app', 'secure', 'httponly', 'expires='):
        assert frag in low, (frag, low)
    assert b.get('/read') == {'a': 1}
    mw, app = make(arg_name='sess', secret_key='k')
    assert mw.cookie_name == 'clastic_sess'
    assert repr(mw) == "SignedCookieMiddleware(arg_name='sess', cookie_name='clastic_sess')"
    class Sub(SignedCookieMiddleware):
        pass
    assert repr(Sub(arg_name=u'\xe9', cookie_name=None)) == \
        "Sub(arg_name='\xe9', cookie_name='clastic_\xe9')"
    # random key: 20 bytes, distinct per instance
    m1, m2 = SignedCookieMiddleware(), SignedCookieMiddleware(secret_key='')
    assert len(m1.secret_key) == 20 and len(m2.secret_key) == 20
    assert m1.secret_key != m2.secret_key
    assert SignedCookieMiddleware(secret_key='x').secret_key == 'x'


def run_codec():
    for v in VALUES + [{'a': {'b': [1, 2, {'c': None}]}}]:
        q = JSONCookie.quote(v)
        assert isinstance(q, bytes) and b'\n' not in q and q == q.strip()
        assert q == base64.b64encode(json.dumps(v).encode('utf8'))
        assert JSONCookie.unquote(q) == v
        assert JSONCookie.unquote(q.decode('ascii')) == v
    for bad in (b'!!!', b'abc', base64.b64encode(b'not json'), base64.b64encode(b'\xff\xfe'),
                None, 5, b'', u'\xe9', base64.b64encode(b'{"a":')):
        try:
            JSONCookie.unquote(bad)
        except sc.UnquoteError:
            pass
        else:
            raise AssertionError(bad)
    for bad in (set([1]), object(), b'bytes'):
        try:
            JSONCookie.quote(bad)
        except TypeError:
            pass
        else:
            raise AssertionError(bad)
    # a swapped serialization_method is honoured
    class Upper(object):
        @staticmethod
        def dumps(v): return json.dumps(v).upper()
        @staticmethod
        def loads(s): return json.loads(s.lower())
    class UC(JSONCookie):
        serialization_method = Upper
    assert UC.quote('ab') == base64.b64encode(b'"AB"')
    assert UC.unquote(UC.quote('ab')) == 'ab'
    ck = JSONCookie({'a': 1}, 'k')
    ck.set_expires(); assert ck['_expires'] == 123456
    ck.set_expires(NOW); assert ck['_expires'] == 123456
    ck.set_expires(99.5); assert ck['_expires'] == 99.5
    ck.set_expires(epoch_time=0); assert ck['_expires'] == 0


for ekw in ({'expiry': NEVER}, {}, {'expiry': 3600}):
    run_happy(ekw)
    run_tamper(ekw)
run_happy({'expiry': 10}, name='SID', arg_name='sess', cookie_name='SID')
run_expiry()
run_options()
run_codec()
time.time = _real_time
print('PASS')
