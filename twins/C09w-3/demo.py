# -*- coding: utf-8 -*-
"""demo3: error responses -- status, negotiated format, escaping.

Focus of this demo: the text pieces built with string formatting (status line
of to_text, repr, MethodNotAllowed detail, STDLIB_EXC_URL error types) and the
cooperative __init__/to_dict chains of the error classes and handlers.
Prints PASS and exits 0 when every assertion holds.
"""
import json
import sys
from html.parser import HTMLParser
from xml.etree import ElementTree as ET

from clastic import Application, render_basic
from clastic import errors
from clastic.errors import (HTTPException, BadRequest, NotFound, Forbidden,
                            MethodNotAllowed, InternalServerError,
                            MIME_SUPPORT_MAP, DEFAULT_MIME, ERROR_CODE_MAP)

MARK = 'xssmarker'
PAYLOADS = [
    '<%s>alert(1)</%s>' % (MARK, MARK),
    '"quoted" & \'single\' <b %s="1">' % MARK,
    '{braces} {0} {code} {detail!r} }{',
    '{{tmpl}} {#x}{/x} {>partial/} <%s/>' % MARK,
    u'\xfcn\xef\xa9ode ☃ <%s>' % MARK,
    '',
    '0',
]

ALLOWED_HTML_TAGS = {'html', 'head', 'title', 'body', 'h1', 'p', 'a'}


class TagCollector(HTMLParser):
    def __init__(self):
        HTMLParser.__init__(self, convert_charrefs=True)
        self.tags = []
        self.attrs = []
        self.text = []

    def handle_starttag(self, tag, attrs):
        self.tags.append(tag)
        self.attrs.extend(attrs)

    def handle_data(self, data):
        self.text.append(data)


def parse_html(body):
    tc = TagCollector()
    tc.feed(body)
    tc.close()
    return tc


def check_body(fmt, ctype, body, exc):
    """Content-Type agrees with the body and every field is there, escaped."""
    fields = exc.to_dict()
    if fmt == 'json':
        assert ctype == 'application/json', ctype
        data = json.loads(body)
        for key in ('code', 'message', 'detail', 'error_type'):
            assert key in data, (key, data)
        assert data['code'] == exc.code
        assert data['message'] == exc.message
        assert data['detail'] == exc.detail
        assert data['error_type'] == exc.error_type
    elif fmt == 'xml':
        assert ctype == 'application/xml; charset=utf-8', ctype
        root = ET.fromstring(body.encode('utf-8'))
        assert root.tag == 'http_error'
        assert [c.tag for c in root] == ['code', 'message', 'detail',
                                         'error_type']
        assert all(len(c) == 0 for c in root)  # no injected children
        got = dict((c.tag, c.text or '') for c in root)
        assert got['code'] == str(exc.code)
        assert got['message'] == exc.message
        assert got['detail'] == (exc.detail or '')
        assert got['error_type'] == (exc.error_type or '')
    elif fmt == 'html':
        assert ctype == 'text/html; charset=utf-8', ctype
        if type(exc).__name__.startswith('Contextual'):
            # debug pages: rendered from the ashes templates
            tc = parse_html(body)
            assert MARK not in tc.tags
            assert all(MARK not in name for name, _ in tc.attrs)
            assert '<%s' % MARK not in body
            return fields
        assert body.startswith('<!doctype html><html>')
        assert body.endswith('</body></html>')
        tc = parse_html(body)
        assert set(tc.tags) <= ALLOWED_HTML_TAGS, tc.tags
        assert MARK not in tc.tags
        assert all(MARK not in name for name, _ in tc.attrs)
        text = ''.join(tc.text)
        assert exc.message in text
        if exc.detail:
            assert exc.detail in text
        if exc.error_type:
            assert exc.error_type in text
    else:
        assert fmt == 'text'
        assert ctype == 'text/plain; charset=utf-8', ctype
        assert body.startswith('%s - %s' % (exc.code, exc.message))
        if exc.detail:
            assert '\n\n' + exc.detail in body
        if exc.error_type:
            assert body.endswith('\n\nError type: %s' % exc.error_type)
    return fields


def test_codes():
    assert len(errors.__all__) == 31
    for name in errors.__all__:
        cls = getattr(errors, name)
        assert issubclass(cls, HTTPException)
        inst = cls()
        assert inst.status_code == cls.code
        assert 400 <= cls.code < 600
        assert ERROR_CODE_MAP[cls.code].code == cls.code
        for mime, fmt in MIME_SUPPORT_MAP.items():
            inst = cls(detail='<%s> & "x"' % MARK, code=499, message='M <%s>' % MARK,
                       error_type='T&<%s>' % MARK, mimetype=mime)
            assert inst.status_code == 499
            body = inst.get_data(True)
            if fmt == 'json':
                data = json.loads(body)
                assert data['code'] == 499
                assert data['detail'] == '<%s> & "x"' % MARK
            else:
                check_body(fmt, inst.headers['Content-Type'], body, inst)


ACCEPTS = [
    ('text/html', 'html'), ('application/json', 'json'),
    ('application/xml', 'xml'), ('text/plain', 'text'),
    ('image/png', 'text'), ('', 'text'), (None, 'text'), (';;;', 'text'),
    ('text/html;q=0.1, application/json;q=0.9', 'json'),
    ('application/xml;q=0.5, text/plain;q=0.4, image/*', 'xml'),
    ('image/png, text/plain;q=0.1', 'text'),
    ('*/*', None), ('text/*', None), ('application/*', None),
    ('text/html;q=abc', None), ('text/html;q=0', None),
]

CTYPE_FMT = {'text/html; charset=utf-8': 'html',
             'application/json': 'json',
             'application/xml; charset=utf-8': 'xml',
             'text/plain; charset=utf-8': 'text'}


def _boom():
    secret = '<%s>local</%s>' % (MARK, MARK)
    raise ValueError('<%s>boom</%s> & "q" {x}' % (MARK, MARK))


def _forbid():
    raise Forbidden('<%s>nope</%s>' % (MARK, MARK),
                    error_type='http://e.x/?<%s>' % MARK)


def test_through_application():
    for debug in (False, True):
        app = Application([('/boom', _boom, render_basic),
                           ('/forbid', _forbid, render_basic)], debug=debug)
        cl = app.get_local_client()
        for accept, want in ACCEPTS:
            headers = {} if accept is None else {'Accept': accept}
            for path, status in (('/boom', 500), ('/forbid', 403),
                                 ('/nf/<%s>"&' % MARK, 404)):
                resp = cl.get(path, headers=headers)
                assert resp.status_code == status, (path, resp.status_code)
                ctype = resp.headers['Content-Type']
                fmt = CTYPE_FMT[ctype]
                if want is not None:
                    assert fmt == want, (accept, fmt, want)
                body = resp.get_data(True)
                if fmt == 'json':
                    data = json.loads(body)
                    for key in ('code', 'message', 'detail', 'error_type'):
                        assert key in data
                    assert data['code'] == status
                elif fmt == 'xml':
                    root = ET.fromstring(resp.get_data())
                    assert root.tag == 'http_error'
                    assert root.find('code').text == str(status)
                    assert all(len(c) == 0 for c in root)
                elif fmt == 'html':
                    tc = parse_html(body)
                    assert MARK not in tc.tags, (path, debug)
                    assert all(MARK not in n for n, _ in tc.attrs)
                    assert '<%s' % MARK not in body
                    if path != '/nf/<%s>"&' % MARK or debug:
                        assert MARK in ''.join(tc.text) or MARK in body
                else:
                    assert body.startswith('%d - ' % status)



class Weird(object):
    def __str__(self):
        return 'weird-str'

    def __repr__(self):
        return '<weird-repr>'

    def __format__(self, spec):
        return 'weird-format'


class StrSub(str):
    def __str__(self):
        return 'sub-str'

    def __format__(self, spec):
        return 'sub-format'


def test_formatting_golden():
    assert errors.PY_VERSION == 3
    assert errors.STDLIB_EXC_URL == \
        'http://docs.python.org/3/library/exceptions.html#exceptions.'
    e = NotFound('d', error_type='t')
    assert e.to_text() == '404 - Not found\n\nd\n\nError type: t'
    assert e.get_data(True) == e.to_text()
    assert repr(e) == "NotFound(message='Not found')"
    assert str(e) == 'd'
    e = HTTPException()
    assert e.to_text() == 'None - Error\n\nAn unspecified error occurred.'
    assert repr(e) == "HTTPException(message='Error')"
    e = BadRequest('d', code='418', message=None)
    assert e.to_text() == '418 - None\n\nd'
    assert repr(e) == 'BadRequest(message=None)'
    e = BadRequest('d', code=499, message=Weird())
    assert e.to_text() == '499 - weird-str\n\nd'
    assert repr(e) == 'BadRequest(message=<weird-repr>)'
    e = BadRequest('d', code=499, message=StrSub('raw'))
    assert e.to_text() == '499 - sub-str\n\nd'
    e = BadRequest('d', code=499, message=(1, 2))
    assert e.to_text() == '499 - (1, 2)\n\nd'
    assert repr(e) == 'BadRequest(message=(1, 2))'
    e = BadRequest('d', code=499, message=b'bytes')
    assert e.to_text() == "499 - b'bytes'\n\nd"
    e = BadRequest('d', message=u'☃ <%s>' % MARK)
    assert e.to_text() == u'400 - ☃ <%s>\n\nd' % MARK
    # a one-element tuple error type is unpacked by the text serializer
    e = BadRequest('d')
    e.error_type = ('tup',)
    assert e.to_text() == '400 - Bad Request\n\nd\n\nError type: tup'
    # repr works on a half-initialised instance / renamed class
    class Renamed(BadRequest):
        message = '{m} %s %(x)s'
    Renamed.__name__ = 'Other{0}%s'
    assert repr(Renamed()) == "Other{0}%s(message='{m} %s %(x)s')"
    assert Renamed().to_text().startswith('400 - {m} %s %(x)s\n\n')


def test_method_not_allowed():
    base = 'The method used is not allowed for the requested URL.'
    e = MethodNotAllowed()
    assert e.detail == base and 'Allow' not in e.headers
    assert e.allowed_methods == set()
    e = MethodNotAllowed(['POST', 'GET', 'POST'])
    assert e.detail == base + " Allowed methods: ['GET', 'POST']"
    assert e.headers['Allow'] == 'GET, POST'
    assert e.to_text() == '405 - Method not allowed\n\n' + e.detail
    e = MethodNotAllowed(('PUT',), 'custom <%s>' % MARK)
    assert e.detail == 'custom <%s>' % MARK
    assert e.headers['Allow'] == 'PUT'
    e = MethodNotAllowed(allowed_methods={'X<%s>' % MARK}, mimetype='text/html')
    assert e.status_code == 405
    check_body('html', e.headers['Content-Type'], e.get_data(True), e)

    class Odd(MethodNotAllowed):
        detail = Weird()
    e = Odd(['GET'])
    assert e.detail == "weird-str Allowed methods: ['GET']"

    class Odd2(MethodNotAllowed):
        detail = StrSub('raw')
    assert Odd2(['GET']).detail == "sub-str Allowed methods: ['GET']"

    class Odd3(MethodNotAllowed):
        detail = ('a', 'b')
    assert Odd3(['GET']).detail == "('a', 'b') Allowed methods: ['GET']"
    app = Application([('/only', lambda: 'x', render_basic)])
    from clastic import POST
    app = Application([POST('/only', lambda: 'x', render_basic)])
    resp = app.get_local_client().get('/only',
                                      headers={'Accept': 'application/json'})
    assert resp.status_code == 405
    data = json.loads(resp.get_data(True))
    assert data['detail'] == base + " Allowed methods: ['POST']"
    assert resp.headers['Allow'] == 'POST'


def test_init_chains():
    from boltons.tbutils import ExceptionInfo, ContextualExceptionInfo
    from clastic.errors import (ContextualInternalServerError,
                                ContextualNotFound, ErrorHandler,
                                ContextualErrorHandler, REPLErrorHandler,
                                _REPLDebuggedApplication, BadGateway)
    # NotFound keeps dispatch_state and passes everything on
    e = NotFound('d', dispatch_state='ds', code=410, is_breaking=False,
                 headers={'X-A': '1'}, mimetype='application/json')
    assert (e.dispatch_state, e.code, e.is_breaking) == ('ds', 410, False)
    assert e.headers['X-A'] == '1' and e.status_code == 410
    assert json.loads(e.get_data(True))['detail'] == 'd'
    assert NotFound().dispatch_state is None
    # InternalServerError: exc_info popped, error_type derived from it
    try:
        raise ValueError('<%s>' % MARK)
    except ValueError:
        ei = ExceptionInfo.from_current()
        cei = ContextualExceptionInfo.from_current()
    for cls in (InternalServerError, BadGateway):
        e = cls(repr(ei), exc_info=ei)
        assert e.exc_info is ei
        assert e.error_type == errors.STDLIB_EXC_URL + 'ValueError'
        d = e.to_dict()
        assert sorted(d) == ['code', 'detail', 'error_type', 'exc_info',
                             'message']
        assert d['exc_info']['exc_type'] == 'ValueError'
        assert cls().to_dict()['exc_info'] is None
        assert cls().error_type is None
        assert cls(exc_info=ei, error_type='mine').error_type == 'mine'
        for mime, fmt in MIME_SUPPORT_MAP.items():
            e.adapt(mime)
            if fmt != 'json':
                check_body(fmt, e.headers['Content-Type'], e.get_data(True), e)
            else:
                assert json.loads(e.get_data(True))['code'] == cls.code
    # contextual 500
    e = ContextualInternalServerError(repr(cei), exc_info=cei, request=None,
                                      hide_internal_frames=False)
    assert e.hide_internal_frames is False and e.request is None
    assert e.exc_info is cei and e.status_code == 500
    d = e.to_dict()
    assert 'exc_info' not in d and d['exc_type'] == 'ValueError'
    assert d['code'] == 500 and d['exc_value'] == '<%s>' % MARK
    assert ContextualInternalServerError().hide_internal_frames is True
    assert sorted(ContextualInternalServerError().to_dict()) == \
        ['code', 'detail', 'error_type', 'message']
    try:
        ContextualInternalServerError().to_dict(1)
    except TypeError:
        pass
    else:
        raise AssertionError('expected TypeError')
    # contextual 404
    app = Application([('/a/<x>', lambda x: x, render_basic)], debug=True)
    e = ContextualNotFound(application=app, request=None, dispatch_state='ds')
    assert (e.application, e.request, e.dispatch_state) == (app, None, 'ds')
    d = e.to_dict()
    assert d['code'] == 404 and [r['pattern'] for r in d['routes']] == ['/a/<x>']
    assert sorted(ContextualNotFound().to_dict()) == \
        ['code', 'detail', 'error_type', 'message']
    # handlers
    assert ErrorHandler().reraise_uncaught is None
    assert ErrorHandler(reraise_uncaught=True).reraise_uncaught is True
    assert type(ErrorHandler()).__mro__ == (ErrorHandler, object)
    h = ContextualErrorHandler(hide_internal_frames=False, reraise_uncaught=1)
    assert (h.hide_internal_frames, h.reraise_uncaught) == (False, 1)
    assert ContextualErrorHandler().hide_internal_frames is True
    assert REPLErrorHandler().wsgi_wrapper is _REPLDebuggedApplication
    wrapped = _REPLDebuggedApplication(app, evalex=False)
    assert wrapped.evalex is True and wrapped.app is app
    # subclasses written the old way keep working
    class Legacy(InternalServerError):
        def __init__(self, *a, **kw):
            self.extra = kw.pop('extra', 7)
            super(Legacy, self).__init__(*a, **kw)

        def to_dict(self):
            ret = super(Legacy, self).to_dict()
            ret['extra'] = self.extra
            return ret
    e = Legacy('d', exc_info=ei, extra=9, mimetype='application/json')
    assert json.loads(e.get_data(True))['extra'] == 9


def main():
    test_formatting_golden()
    test_method_not_allowed()
    test_init_chains()
    test_codes()
    test_through_application()
    print('PASS')
    return 0


if __name__ == '__main__':
    sys.exit(main())
