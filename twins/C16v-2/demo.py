# -*- coding: utf-8 -*-
"""demo2: signed cookies -- only intact, unexpired, server-signed data is
ever presented to the endpoint.

Emphasis of this demo: JSONCookie.unquote's contract "every failure is an
UnquoteError, nothing else is swallowed" -- directly, through
JSONCookie.unserialize with correctly signed but undecodable payloads, and
through the middleware (status 200 + empty cookie); plus the model-based
run with tampering.

Prints PASS and exits 0 when every assertion holds.
"""
import os
import sys

sys.path.insert(0, os.path.dirname(os.path.abspath(__file__)))

import base64
import hashlib
import hmac
import json
import random
import time
import warnings

warnings.simplefilter('ignore')

import secure_cookie.cookie as sc_mod
from secure_cookie.cookie import SecureCookie, UnquoteError
from werkzeug.http import cookie_date
from werkzeug.test import Client
from werkzeug.urls import url_quote_plus, url_unquote_plus
from werkzeug.wrappers import Response

from clastic import Application, render_basic
from clastic.middleware import cookie as cookie_mod
from clastic.middleware.cookie import (SignedCookieMiddleware, JSONCookie,
                                       NEVER, SESSION, NOW, DEFAULT_EXPIRY)

CHECKS = [0]


def check(cond, *msg):
    CHECKS[0] += 1
    if not cond:
        raise AssertionError(' '.join(str(m) for m in msg))


# ---------------------------------------------------------------- fake clock
class Clock(object):
    now = 1700000000.25


def fake_time():
    return Clock.now


time.time = fake_time
sc_mod.time = fake_time


# ------------------------------------------------ independent signer/decoder
def my_quote(value):
    return base64.b64encode(json.dumps(value).encode('utf8')).decode('ascii')


def my_sign(items, key):
    """items: dict key -> already-quoted text value. Returns the inner
    (unwrapped) cookie text mac?k=v&k=v"""
    parts = []
    mac = hmac.new(key, None, hashlib.sha1)
    for k in sorted(items):
        part = ('%s=%s' % (url_quote_plus(k), items[k])).encode('ascii')
        parts.append(part)
        mac.update(b'|' + part)
    return (base64.b64encode(mac.digest()).strip() + b'?' + b'&'.join(parts)).decode('ascii')


def my_serialize(data, key):
    return my_sign(dict((k, my_quote(v)) for k, v in data.items()), key)


def my_decode(inner, key):
    """Independent decode of a server-issued value: returns (data, macs_ok)."""
    mac_text, _, payload = inner.partition('?')
    mac = hmac.new(key, None, hashlib.sha1)
    data = {}
    for part in payload.split('&'):
        mac.update(b'|' + part.encode('ascii'))
        k, _, v = part.partition('=')
        data[url_unquote_plus(k)] = json.loads(base64.b64decode(v).decode('utf8'))
    return data, hmac.compare_digest(base64.b64decode(mac_text), mac.digest())


# ---------------------------------------------------------------- the site
ENDPOINT_SRC = '''
def endpoint(request, %(arg)s):
    ck = %(arg)s
    q = request.args
    action = q['a']
    seen = json.loads(json.dumps(dict(ck)))
    if action == 'set':
        ck[q['k']] = json.loads(q['v'])
    elif action == 'del':
        ck.pop(q['k'], None)
    elif action == 'clear':
        ck.clear()
    elif action == 'expire_now':
        ck.set_expires()
    elif action == 'expire_at':
        ck.set_expires(json.loads(q['v']))
    elif action == 'read':
        pass
    else:
        raise ValueError(action)
    return json.dumps({'seen': seen, 'after': dict(ck), 'new': ck.new,
                       'type': type(ck).__name__})
'''


def make_endpoint(arg_name):
    ns = {'json': json}
    exec(ENDPOINT_SRC % {'arg': arg_name}, ns)
    return ns['endpoint']


def apply_action(data, action, k=None, v=None):
    data = dict(data)
    if action == 'set':
        data[k] = v
    elif action == 'del':
        data.pop(k, None)
    elif action == 'clear':
        data.clear()
    elif action == 'expire_now':
        data['_expires'] = 123456
    elif action == 'expire_at':
        data['_expires'] = v
    return data


NO_EXPIRY = object()


class Browser(object):
    def __init__(self):
        self.jar = None   # raw Cookie value, exactly as the server sent it


def unwrap(raw):
    check(raw.startswith('"') and raw.endswith('"'), 'expected quoted value', raw)
    return raw[1:-1]


class Site(object):
    def __init__(self, expiry=None, arg_name='cookie', cookie_name=None,
                 key=b'0123456789abcdefghij', **mw_kw):
        kw = dict(mw_kw)
        if expiry is not None:
            kw['expiry'] = expiry
        self.expiry = DEFAULT_EXPIRY if expiry is None else expiry
        self.key = key
        self.name = cookie_name or 'clastic_%s' % arg_name
        self.mw = SignedCookieMiddleware(arg_name=arg_name,
                                         cookie_name=cookie_name,
                                         secret_key=key, **kw)
        self.mw_kw = mw_kw
        self.app = Application([('/op', make_endpoint(arg_name), render_basic)],
                               middlewares=[self.mw])
        self.client = Client(self.app, Response, use_cookies=False)
        self.issued = {}   # inner text -> (data without _expires, expires or None)

    def timed(self):
        return self.expiry != NEVER and self.expiry != SESSION

    def expected_seen(self, raw):
        """what the endpoint must see for raw cookie text `raw`"""
        if raw is None:
            return {}
        inner = raw.strip('"')
        if inner not in self.issued:
            return {}
        data, expires = self.issued[inner]
        if expires is not NO_EXPIRY:
            try:
                if Clock.now > expires:
                    return {}
            except TypeError:
                # e.g. a stored null: the comparison fails inside
                # unserialize, which must count as an invalid cookie
                return {}
        return data

    def request(self, browser, action, k=None, v=None, send=None,
                expect_seen=None):
        raw = browser.jar if send is None else send
        seen = self.expected_seen(raw) if expect_seen is None else expect_seen
        q = {'a': action}
        if k is not None:
            q['k'] = k
        if action in ('set', 'expire_at'):
            q['v'] = json.dumps(v)
        headers = []
        if raw is not None:
            headers.append(('Cookie', '%s=%s' % (self.name, raw)))
        resp = self.client.get('/op', query_string=q, headers=headers)
        check(resp.status_code == 200, 'status', resp.status_code, repr(raw))
        body = json.loads(resp.data.decode('utf8'))
        check(body['type'] == 'JSONCookie', body)
        check(body['seen'] == seen, 'seen', body['seen'], '!=', seen, 'for', repr(raw))
        after = apply_action(seen, action, k, v)
        check(body['after'] == after, 'after', body, after)
        if raw is None:
            check(body['new'] is True, 'new flag', body)
        elif raw.strip(' "') != '':
            check(body['new'] is False, 'new flag', body, repr(raw))

        modified = (action in ('set', 'clear', 'expire_now', 'expire_at')
                    or (action == 'del' and k in seen))
        stored = dict(after)
        if self.timed() and '_expires' not in stored:
            stored['_expires'] = Clock.now + self.expiry
            modified = True
        set_cookies = resp.headers.getlist('Set-Cookie')
        check(len(set_cookies) == (1 if modified else 0), 'Set-Cookie count',
              set_cookies, modified)
        if not modified:
            return body
        header = set_cookies[0]
        first, _, attr_text = header.partition(';')
        name, _, raw_new = first.partition('=')
        check(name == self.name, 'cookie name', name)
        attrs = [a.strip() for a in attr_text.split(';') if a.strip()]
        exp_attrs = []
        if self.mw_kw.get('domain'):
            exp_attrs.append('Domain=%s' % self.mw_kw['domain'])
        cookie_expires = stored.get('_expires')
        if cookie_expires is not None:
            exp_attrs.append('Expires=%s' % cookie_date(cookie_expires))
        if self.mw_kw.get('secure'):
            exp_attrs.append('Secure')
        if self.mw_kw.get('http_only'):
            exp_attrs.append('HttpOnly')
        exp_attrs.append('Path=%s' % self.mw_kw.get('path', '/'))
        check(sorted(attrs) == sorted(exp_attrs), 'attrs', attrs, exp_attrs)
        # payload
        if cookie_expires:
            stored['_expires'] = int(cookie_expires)
        inner = unwrap(raw_new)
        if stored:
            data, mac_ok = my_decode(inner, self.key)
            check(mac_ok, 'server MAC verifies independently')
            check(data == stored, 'stored payload', data, stored)
            check(inner == my_serialize(stored, self.key), 'byte-identical wire format')
        else:
            check(inner == my_sign({}, self.key), 'empty cookie wire format', inner)
        payload = dict(stored)
        expires = payload.pop('_expires', NO_EXPIRY)
        self.issued[inner] = (payload, expires)
        browser.jar = raw_new
        return body


VALUES = [u'plain', u'', u'sn\xf6w ☃ \U0001f600', 0, 1, -7, 3.5, 1e100, True,
          False, None, [], {}, [1, [2, [3, {u'k': [None, u'']}]]],
          {u'a': {u'b': {u'c': [1, 2, 3]}}, u'': u'empty key'},
          u'"quoted"', u'a?b&c=d|e', u'x' * 600]
KEYS = [u'name', u'k', u'', u'sp ace', u'a=b&c?d', u'\xfcml\xe4ut', u'_private',
        u'+plus%25']


def tampered_variants(inner, other_inner, key, rng):
    """yield (label, raw cookie text, maybe_valid)"""
    mac_text, _, payload = inner.partition('?')
    o_mac, _, o_payload = other_inner.partition('?')
    out = []
    for pos in sorted(set([0, 1, len(mac_text) - 2, len(mac_text) - 1, len(mac_text),
                           len(mac_text) + 1, len(inner) // 2, len(inner) - 2,
                           len(inner) - 1] + [rng.randrange(len(inner)) for _ in range(6)])):
        if not 0 <= pos < len(inner):
            continue
        c = inner[pos]
        repl = 'A' if c != 'A' else 'B'
        out.append(('flip@%d' % pos, inner[:pos] + repl + inner[pos + 1:]))
    for n in (0, 1, 5, len(mac_text) - 1, len(mac_text), len(mac_text) + 1,
              len(inner) - 5, len(inner) - 1):
        out.append(('truncate@%d' % n, inner[:n]))
        out.append(('behead@%d' % n, inner[n + 1:]))
    out.append(('extend-A', inner + 'A'))
    out.append(('extend-item', inner + '&admin=' + my_quote(True)))
    out.append(('extend-amp', inner + '&'))
    out.append(('prepend', 'A' + inner))
    out.append(('prepend-item', mac_text + '?admin=' + my_quote(True) + '&' + payload))
    out.append(('swap-payload', mac_text + '?' + o_payload))
    out.append(('swap-mac', o_mac + '?' + payload))
    out.append(('resign-other-key', my_sign(dict((url_unquote_plus(p.partition('=')[0]), p.partition('=')[2])
                                                 for p in payload.split('&') if p),
                                            b'another key entirely')))
    out.append(('resign-empty-key', my_sign({'admin': my_quote(True)}, b'')))
    out.append(('no-separator', mac_text + payload))
    out.append(('only-mac', mac_text))
    out.append(('only-mac-q', mac_text + '?'))
    out.append(('only-payload', payload))
    out.append(('q-payload', '?' + payload))
    out.append(('no-equals', mac_text + '?' + payload.replace('=', '')))
    out.append(('bad-b64-mac', '!!!!?' + payload))
    out.append(('bad-b64-mac-2', 'a?' + payload))
    out.append(('bad-b64-mac-3', 'abcde?' + payload))
    out.append(('nonascii-mac', u'\xe9\xe8?' + payload))
    out.append(('nonascii-payload', mac_text + u'?k=\xff\xfe'))
    out.append(('nonascii-key', mac_text + u'?\xff=' + my_quote(1)))
    out.append(('percent-key', mac_text + '?%ff%fe=' + my_quote(1)))
    out.append(('random', ''.join(chr(rng.randrange(33, 127)) for _ in range(40))
                .replace(';', 'x').replace(',', 'x')))
    out.append(('random-latin1', ''.join(chr(rng.randrange(161, 256)) for _ in range(30))))
    out.append(('json', '{"admin":true}'))
    out.append(('b64json', my_quote({'admin': True})))
    out.append(('q', '?'))
    out.append(('qq', '??'))
    out.append(('amp', '&'))
    out.append(('eq', '='))
    out.append(('q-eq', '?='))
    out.append(('mac-q-eq', mac_text + '?='))
    out.append(('quotes', '""""'))
    out.append(('space', ' '))
    out.append(('backslash', '\\'))
    out.append(('backslash-octal', '\\303\\251?x=1'))
    digest = base64.b64decode(mac_text)
    res = []
    for label, text in out:
        stripped = text.strip('"')
        t_mac, sep, t_payload = stripped.partition('?')
        try:
            same = (sep == '?' and t_payload == payload
                    and base64.b64decode(t_mac.encode('utf8', 'replace')) == digest)
        except Exception:
            same = False
        res.append((label, text, same))
    return res


def run_site(site, rng, n_steps, n_browsers=3):
    browsers = [Browser() for _ in range(n_browsers)]
    tamper_count = 0
    for step in range(n_steps):
        b = rng.choice(browsers)
        r = rng.random()
        if r < 0.45:
            site.request(b, 'set', rng.choice(KEYS), rng.choice(VALUES))
        elif r < 0.6:
            site.request(b, 'del', rng.choice(KEYS))
        elif r < 0.8:
            site.request(b, 'read')
        elif r < 0.84:
            site.request(b, 'clear')
        elif r < 0.87:
            site.request(b, 'expire_now')
        elif r < 0.92:
            site.request(b, 'expire_at', v=rng.choice(
                [Clock.now + 50, Clock.now - 1, int(Clock.now) + 7, 0, None, Clock.now + 0.5]))
        else:
            Clock.now += rng.choice([0.5, 1, 30, 99.5, 100, 101])
        # tampering: the browser's jar is left alone, a forged value is sent
        if b.jar and step % 7 == 3:
            other = rng.choice([x for x in browsers if x is not b])
            if not other.jar:
                site.request(other, 'set', u'other', u'data')
            inner = unwrap(b.jar)
            valid_now = site.expected_seen(b.jar)
            for label, text, same in tampered_variants(inner, unwrap(other.jar),
                                                       site.key, rng):
                expect = valid_now if same else {}
                for raw in (text, '"%s"' % text):
                    probe = Browser()
                    site.request(probe, rng.choice(['read', 'read', 'set']),
                                 u'k', u'v', send=raw, expect_seen=expect)
                    tamper_count += 1
    return tamper_count


def scenario_model_runs():
    rng = random.Random(16001)
    total = 0
    for conf in [dict(expiry=NEVER),
                 dict(expiry=SESSION),
                 dict(),
                 dict(expiry=100),
                 dict(expiry=0.5),
                 dict(expiry=100, arg_name='sess', cookie_name='sid', domain='example.com',
                      path='/op', secure=True, http_only=True),
                 dict(expiry=NEVER, arg_name='jar', key=b'\x00\xff binary key \x80')]:
        Clock.now = 1700000000.25
        site = Site(**conf)
        total += run_site(site, rng, 80)
    return total


def scenario_expiry_boundary():
    Clock.now = 1700000000.75
    site = Site(expiry=100)
    b = Browser()
    site.request(b, 'set', u'name', u'Kurt')
    exp = int(1700000000.75 + 100)
    check(site.issued[unwrap(b.jar)] == ({u'name': u'Kurt'}, exp))
    Clock.now = exp - 0.001
    first = b.jar
    body = site.request(b, 'read')
    check(body['seen'] == {u'name': u'Kurt'})
    # reading re-stamps (sliding expiry), but the old cookie stays valid until exp
    Clock.now = float(exp)
    body = site.request(Browser(), 'read', send=first)
    check(body['seen'] == {u'name': u'Kurt'})
    Clock.now = exp + 0.001
    body = site.request(Browser(), 'read', send=first)
    check(body['seen'] == {})
    # cookie-specified expiry overrides the middleware's
    Clock.now = 1700001000.0
    check(site.request(b, 'set', u'name', u'Kurt')['seen'] == {})
    site.request(b, 'expire_at', v=1700001005)
    check(site.issued[unwrap(b.jar)][1] == 1700001005)
    Clock.now = 1700001005.0
    check(site.request(b, 'read')['seen'] == {u'name': u'Kurt'})
    # ...and the read re-stamped with now + 100 because unserialize dropped _expires
    check(site.issued[unwrap(b.jar)][1] == 1700001105)
    site.request(b, 'expire_now')
    check(site.issued[unwrap(b.jar)][1] == 123456)
    check(site.request(b, 'read')['seen'] == {})


# ------------------------------------------------ direct checks on JSONCookie
def scenario_class_surface():
    key = b'surface key'
    check(issubclass(JSONCookie, SecureCookie))
    check(JSONCookie.__name__ == 'JSONCookie')
    check(JSONCookie.__module__ == 'clastic.middleware.cookie')
    check(JSONCookie.serialization_method is json)
    check(JSONCookie.quote_base64 is True)
    check(SignedCookieMiddleware._cookie_type is JSONCookie)
    # the overridden codec methods are the ones that take effect -- on the
    # class and on instances -- and they are classmethods bound to JSONCookie
    for name in ('quote', 'unquote', 'unserialize'):
        meth = getattr(JSONCookie, name)
        check(meth.__self__ is JSONCookie, name)
        check(meth.__func__ is not getattr(SecureCookie, name).__func__, name)
        check(getattr(JSONCookie(secret_key=key), name).__self__ is JSONCookie, name)
    for v in VALUES:
        q = JSONCookie.quote(v)
        check(type(q) is bytes)
        check(q == base64.b64encode(json.dumps(v).encode('utf8')), 'quote', v)
        check(b'\n' not in q and q == q.strip())
        back = JSONCookie.unquote(q)
        check(back == v and type(back) is type(json.loads(json.dumps(v))), 'roundtrip', v)
        check(JSONCookie.unquote(q.decode('ascii')) == v)
        check(JSONCookie(secret_key=key).quote(v) == q)
    # json's defaults (not secure_cookie's compact, sorted separators)
    check(JSONCookie.quote({u'b': 1, u'a': [1, 2]}) ==
          base64.b64encode(b'{"b": 1, "a": [1, 2]}'))
    check(JSONCookie.quote(u'\xe9') == base64.b64encode(b'"\\u00e9"'))
    # things json cannot serialize surface as json's own errors from quote
    for bad in (object(), {1, 2}, b'bytes'):
        try:
            JSONCookie.quote(bad)
        except TypeError:
            pass
        else:
            check(False, 'quote should raise TypeError', bad)
    # everything undecodable is an UnquoteError (and only that)
    for bad in (b'', b'!!!!', b'abc', b'abcde', base64.b64encode(b'{not json'),
                base64.b64encode(b'\xff\xfe'), base64.b64encode(b''),
                base64.b64encode(b'[' * 100000), None, 5, 1.5, [], {}, object(),
                u'☃', b'\xff\xff', base64.b64encode(b'1 2'), u'e30'):
        try:
            got = JSONCookie.unquote(bad)
        except UnquoteError as e:
            check(type(e) is UnquoteError and e.args == ())
        except BaseException as e:
            check(False, 'wrong exception type', repr(bad), repr(e))
        else:
            check(False, 'unquote accepted', repr(bad), repr(got))
    # lenient inputs that base64 accepts stay accepted
    check(JSONCookie.unquote(b'e30=') == {})
    check(JSONCookie.unquote(b'e3 0=\n') == {})
    check(JSONCookie.unquote(b'NDI=') == 42)
    check(JSONCookie.unquote(bytearray(b'NDI=')) == 42)

    # serialize / unserialize
    c = JSONCookie({u'a': 1, u'b': [u'☃']}, key)
    wire = c.serialize()
    check(wire.decode('ascii') == my_serialize({u'a': 1, u'b': [u'☃']}, key))
    for text in (wire.decode('ascii'), '"%s"' % wire.decode('ascii'),
                 '""%s"' % wire.decode('ascii')):
        back = JSONCookie.unserialize(text, key)
        check(type(back) is JSONCookie and dict(back) == {u'a': 1, u'b': [u'☃']})
        check(back.new is False and back.modified is False and back.secret_key == key)
    back = JSONCookie.unserialize(wire.decode('ascii'), u'surface key')
    check(dict(back) == {u'a': 1, u'b': [u'☃']} and back.secret_key == key)
    for wrong in (b'other', u'other', b''):
        back = JSONCookie.unserialize(wire.decode('ascii'), wrong)
        check(type(back) is JSONCookie and dict(back) == {} and back.new is False)
    # a valid MAC over an undecodable payload -> empty, not an error
    for payload in ('!!!!', 'abc', my_quote(1)[:-2], base64.b64encode(b'{oops').decode(),
                    base64.b64encode(b'\xff').decode(), ''):
        forged = my_sign({'a': my_quote(1), 'k': payload}, key)
        back = JSONCookie.unserialize(forged, key)
        check(type(back) is JSONCookie and dict(back) == {}, 'bad payload', payload)
        check(back.new is False and back.modified is False)
    # junk of every shape -> empty cookie, never an exception
    for junk in (u'', u'"', u'?', u'a?b', u'a?b=c', u'!!!?a=b', u'\xe9?a=b',
                 u'abcde?a=' + my_quote(1), u'%ff?%ff=%ff', u'x' * 5000,
                 wire.decode('ascii')[:-1], wire.decode('ascii') + u'&',
                 u'?' + wire.decode('ascii')):
        back = JSONCookie.unserialize(junk, key)
        check(type(back) is JSONCookie and dict(back) == {} and back.new is False,
              'junk', repr(junk))
        check(back.secret_key == key and back.modified is False)
    # set_expires
    c = JSONCookie(secret_key=key)
    c.set_expires()
    check(c['_expires'] == 123456 and type(c['_expires']) is int and c.modified)
    c.set_expires(NOW)
    check(c['_expires'] == 123456)
    c.set_expires(u'now')
    check(c['_expires'] == 123456)
    for t in (0, 1, 1.5, None, u'later', 1700000000):
        c.set_expires(t)
        check(c['_expires'] is t or c['_expires'] == t)
    c.set_expires(epoch_time=77)
    check(c['_expires'] == 77)
    # expiry is enforced at unserialize time, boundary inclusive
    Clock.now = 5000.0
    c = JSONCookie({u'v': 1}, key)
    wire = c.serialize(expires=5010.9)
    check(c['_expires'] == 5010)
    check(dict(JSONCookie.unserialize(wire.decode('ascii'), key)) == {u'v': 1})
    Clock.now = 5010.0
    check(dict(JSONCookie.unserialize(wire.decode('ascii'), key)) == {u'v': 1})
    Clock.now = 5010.01
    check(dict(JSONCookie.unserialize(wire.decode('ascii'), key)) == {})

    # subclasses of JSONCookie: behaviour of the (odd) super() call is kept
    class Sub(JSONCookie):
        pass
    back = Sub.unserialize(my_serialize({u'a': 1}, key), key)
    check(type(back) is Sub and back.new is False and back.secret_key == key)
    SUB_RESULT.append(dict(back))
    check(Sub.quote([1]) == JSONCookie.quote([1]) and Sub.unquote(b'WzFd') == [1])
    check(Sub.quote.__self__ is Sub)

    class Pickly(JSONCookie):
        class serialization_method(object):
            dumps = staticmethod(lambda v: 'P' + json.dumps(v))
            loads = staticmethod(lambda s: json.loads(s[1:]))
    check(Pickly.quote(5) == base64.b64encode(b'P5') and Pickly.unquote(Pickly.quote(5)) == 5)
    check(JSONCookie.quote(5) == base64.b64encode(b'5'))


SUB_RESULT = []


class Boom(Exception):
    def __init__(self):     # an exception type that is awkward to re-create
        Exception.__init__(self, 'boom', 1, 2)


def scenario_unquote_translation():
    key = b'translation key'
    raised = []

    def make_cookie_type(exc_factory):
        class Ser(object):
            @staticmethod
            def dumps(v):
                return json.dumps(v)

            @staticmethod
            def loads(s):
                if s == '"trigger"':
                    exc = exc_factory()
                    raised.append(exc)
                    raise exc
                return json.loads(s)

        class Ck(JSONCookie):
            serialization_method = Ser
        return Ck

    trigger = base64.b64encode(b'"trigger"')
    for factory in (ValueError, TypeError, KeyError, lambda: KeyError('k'), IndexError,
                    AttributeError, UnicodeError, StopIteration, lambda: StopIteration(5),
                    RuntimeError, RecursionError, MemoryError, OSError, AssertionError,
                    ZeroDivisionError, Boom, UnquoteError, Exception, NotImplementedError,
                    ArithmeticError, LookupError, Warning, UnicodeWarning):
        Ck = make_cookie_type(factory)
        check(Ck.unquote(base64.b64encode(b'"fine"')) == u'fine')
        del raised[:]
        try:
            Ck.unquote(trigger)
        except UnquoteError as e:
            check(type(e) is UnquoteError and e.args == ())
            check(len(raised) == 1)
            if type(raised[0]) is UnquoteError:
                check(e is not raised[0])
            # raised while handling the original error
            check(e.__context__ is raised[0], 'context', e.__context__)
            check(e.__cause__ is None)
        else:
            check(False, 'no UnquoteError for', factory)
        # ... which SecureCookie.unserialize turns into "no data at all",
        # even for the items that did decode
        wire = my_sign({'a': my_quote(1), 'b': trigger.decode('ascii'),
                        'c': my_quote(2)}, key)
        got = Ck.unserialize(wire, key)
        check(type(got) is Ck and dict(got) == {} and got.new is False
              and got.modified is False)
        ok = Ck.unserialize(my_sign({'a': my_quote(1), 'c': my_quote(u'trigge')}, key), key)
        check(dict(ok) == {})   # super(cls, JSONCookie) quirk for subclasses, see demo1
    # exceptions that are not Exceptions pass through untouched
    for factory in (KeyboardInterrupt, SystemExit, GeneratorExit,
                    lambda: SystemExit(3)):
        Ck = make_cookie_type(factory)
        del raised[:]
        try:
            Ck.unquote(trigger)
        except UnquoteError:
            check(False, 'BaseException must not be translated', factory)
        except BaseException as e:
            check(e is raised[0])
        else:
            check(False, 'swallowed', factory)
    # failures before the serializer is reached: base64 / utf8 / input type
    causes = {}
    for bad in (b'abc', b'a', u'a', u'\u2603', b'/w==', b'//79', None, 17, 2.5, (), [],
                {}, object(), JSONCookie, True):
        try:
            JSONCookie.unquote(bad)
        except UnquoteError as e:
            check(type(e) is UnquoteError and e.args == ())
            check(isinstance(e.__context__, Exception))
            causes[repr(bad)[:12]] = type(e.__context__).__name__
        else:
            check(False, 'accepted', repr(bad))
    check(causes["b'/w=='"] == 'UnicodeDecodeError', causes)
    check(causes['None'] == 'TypeError', causes)
    check(causes["b'abc'"] == 'Error', causes)          # binascii.Error
    # re-entrancy: a serializer that unquotes nested, individually quoted values
    class NestedSer(object):
        dumps = staticmethod(json.dumps)

        @staticmethod
        def loads(s):
            v = json.loads(s)
            if isinstance(v, dict) and 'nested' in v:
                return {'nested': Nested.unquote(v['nested'])}
            return v

    class Nested(JSONCookie):
        serialization_method = NestedSer
    inner_ok = Nested.quote([1, 2]).decode('ascii')
    check(Nested.unquote(Nested.quote({'nested': inner_ok})) == {'nested': [1, 2]})
    deeper = Nested.quote({'nested': Nested.quote({'nested': inner_ok}).decode('ascii')})
    check(Nested.unquote(deeper) == {'nested': {'nested': [1, 2]}})
    try:
        Nested.unquote(Nested.quote({'nested': '!!bad!!'}))
    except UnquoteError as e:
        check(type(e.__context__) is UnquoteError)     # inner failure, translated twice
        check(e.__context__ is not e)
    else:
        check(False)
    # the value returned is the decoded object itself, of json's own types
    v = JSONCookie.unquote(base64.b64encode(b'{"a": [1, 2.0, "x", null, true]}'))
    check(v == {u'a': [1, 2.0, u'x', None, True]} and type(v) is dict
          and type(v[u'a'][1]) is float)
    check(JSONCookie.unquote(base64.b64encode(b'null')) is None)
    check(JSONCookie.unquote(base64.b64encode(b'0')) == 0)
    check(JSONCookie.unquote(base64.b64encode(b'""')) == u'')
    check(JSONCookie.unquote(base64.b64encode(b'false')) is False)

    # through the middleware: correctly signed, undecodable payloads
    Clock.now = 1700000000.25
    for conf in (dict(expiry=NEVER), dict(expiry=30), dict()):
        site = Site(key=key, **conf)
        for payload in ('!!!!', 'abc', base64.b64encode(b'{oops').decode(),
                        base64.b64encode(b'\xff\xfe').decode(), '', 'e30',
                        base64.b64encode(b'[' * 50000).decode()):
            forged = my_sign({'name': my_quote(u'admin'), 'zz': payload}, key)
            for raw in (forged, '"%s"' % forged):
                body = site.request(Browser(), 'read', send=raw, expect_seen={})
                check(body['seen'] == {} and body['new'] is False)
                body = site.request(Browser(), 'set', u'k', 1, send=raw, expect_seen={})
                check(body['after'] == {u'k': 1})
        # control: the same forgery with a decodable payload IS accepted
        # (the key is the server's), so the probes above test unquote
        good = my_sign({'name': my_quote(u'admin'), 'zz': my_quote([])}, key)
        site.issued[good] = ({u'name': u'admin', u'zz': []}, NO_EXPIRY)
        body = site.request(Browser(), 'read', send='"%s"' % good)
        check(body['seen'] == {u'name': u'admin', u'zz': []})


def main():
    scenario_unquote_translation()
    scenario_class_surface()
    scenario_expiry_boundary()
    n = scenario_model_runs()
    check(n > 1000, 'tamper probes', n)
    # super(cls, JSONCookie) fails for a proper subclass; the fallback
    # branch then yields an empty cookie (long-standing behaviour)
    check(SUB_RESULT[0] == {})
    print('subclass unserialize ->', SUB_RESULT[0])
    print('checks: %d, tamper probes: %d' % (CHECKS[0], n))
    print('PASS')


if __name__ == '__main__':
    main()
