# -*- coding: utf-8 -*-
"""demo2: StatsMiddleware.request counts every request exactly once.

Part A drives StatsMiddleware.request directly with fake collaborators and a
fake clock, covering every kind of outcome of next() (return values with and
without status/content type, HTTP-ish and plain exceptions, edge cases).
Part B runs random request sequences (all outcome kinds, interleaved with
stats reads and resets) through a real Application and compares the stats
application's report with a model counter.
"""
import sys
import json
import random
from collections import defaultdict

from clastic import Application, Response, redirect, POST
from clastic.errors import BadRequest, Forbidden
from clastic.middleware import stats as S
from clastic.middleware.stats import (StatsMiddleware, RouteStatReservoir,
                                      create_stats_app, Hit)


# ---------------------------------------------------------------- part A

class FakeClock(object):
    def __init__(self, start=1000.0, step=0.25):
        self.now = start
        self.step = step
        self.calls = 0

    def time(self):
        self.calls += 1
        ret = self.now
        self.now += self.step
        return ret


class FakeRequest(object):
    def __init__(self, path):
        self.path = path


class FakeRoute(object):
    def __init__(self, pattern):
        self.pattern = pattern


class Plain(object):
    pass


class Resp(object):
    def __init__(self, **kw):
        self.__dict__.update(kw)


class CodedError(Exception):
    def __init__(self, **kw):
        Exception.__init__(self)
        self.__dict__.update(kw)


def returning(val):
    return lambda: val


def raising(exc):
    def _next():
        raise exc
    return _next


def check_direct():
    real_time = S.time
    clock = FakeClock()
    S.time = clock
    try:
        _check_direct(clock)
    finally:
        S.time = real_time


def _check_direct(clock):
    mw = StatsMiddleware()
    route = FakeRoute('/pat/<x>')
    req = FakeRequest('/pat/1')
    n_calls = [0]

    def last_hit(status):
        return list(mw.route_hits[route][status])[-1]

    def call(nxt):
        n_calls[0] += 1
        return mw.request(nxt, req, route)

    def total():
        return sum(r.total_count for r in mw.route_hits[route].values())

    # --- returned values
    cases = [
        (Plain(), "'Plain'", ''),
        (None, "'NoneType'", ''),
        ('a string', "'str'", ''),
        (Resp(status_code=200, content_type='text/html; charset=utf-8'), '200', 'text/html'),
        (Resp(status_code=0, content_type=None), '0', ''),
        (Resp(status_code=None, content_type=''), 'None', ''),
        (Resp(status_code='204', content_type='a/b'), "'204'", 'a/b'),
        (Resp(status_code=302, content_type=';x'), '302', ''),
        (Resp(content_type='x/y;q=1;r=2'), "'Resp'", 'x/y'),
        (Resp(status_code=404), '404', ''),
    ]
    for i, (val, key, mime) in enumerate(cases):
        t0 = clock.now
        calls0 = clock.calls
        got = call(returning(val))
        assert got is val
        assert clock.calls == calls0 + 2     # one reading before, one after
        hit = last_hit(key)
        assert type(hit) is Hit
        assert hit == Hit(t0, '/pat/1', '/pat/<x>', key, 0.25, mime), hit
        assert total() == i + 1
    n_ok = len(cases)

    # --- raised exceptions: counted under .code, else under the type name
    exc_cases = [
        (ValueError('v'), "'ValueError'", ''),
        (KeyError('k'), "'KeyError'", ''),
        (CodedError(code=418, content_type='a/b;x'), '418', 'a/b'),
        (CodedError(code=None), 'None', ''),
        (CodedError(code=0, content_type=''), '0', ''),
        (CodedError(content_type='t/u'), "'CodedError'", 't/u'),
        (BadRequest(), '400', None),
        (Forbidden(), '403', None),
    ]
    for i, (exc, key, mime) in enumerate(exc_cases):
        t0 = clock.now
        try:
            call(raising(exc))
        except Exception as caught:
            assert caught is exc        # re-raised untouched
        else:
            raise AssertionError('exception swallowed: %r' % (exc,))
        hit = last_hit(key)
        assert hit[:5] == (t0, '/pat/1', '/pat/<x>', key, 0.25), hit
        if mime is not None:
            assert hit.content_type == mime
        else:
            assert ';' not in hit.content_type
        assert total() == n_ok + i + 1
    n_exc = len(exc_cases)

    # --- a response whose content type cannot be parsed is counted (once)
    #     as the AttributeError it causes, which propagates
    try:
        call(returning(Resp(status_code=200, content_type=123)))
    except AttributeError:
        pass
    else:
        raise AssertionError('expected AttributeError')
    assert last_hit("'AttributeError'").content_type == ''
    assert total() == n_ok + n_exc + 1
    assert mw.route_hits[route]['200'].total_count == 1   # only the earlier 200

    # --- outcomes that cannot be classified leave no record at all
    before = dict((k, v.total_count) for k, v in mw.route_hits[route].items())
    for nxt in (raising(CodedError(code=500, content_type=None)),
                raising(KeyboardInterrupt()),
                raising(SystemExit(3)),
                raising(GeneratorExit())):
        try:
            call(nxt)
        except UnboundLocalError:
            pass
        else:
            raise AssertionError('expected UnboundLocalError')
    after = dict((k, v.total_count) for k, v in mw.route_hits[route].items())
    assert before == after

    # --- bookkeeping of the per-status reservoirs
    for status, rsr in mw.route_hits[route].items():
        assert type(rsr) is RouteStatReservoir
        assert rsr.total_count == len(list(rsr))
        assert rsr.total_duration == 0.25 * rsr.total_count
        assert rsr.last_hit == list(rsr)[-1].start_time
    assert list(mw.route_hits.keys()) == [route]

    # --- distinct routes (even with one pattern) are kept apart
    twin = FakeRoute('/pat/<x>')
    mw.request(returning(Resp(status_code=200)), req, twin)
    assert mw.route_hits[twin]['200'].total_count == 1
    assert mw.route_hits[route]['200'].total_count == 1

    # --- reset
    old_reset = mw.last_reset
    mw.reset()
    assert len(mw.route_hits) == 0
    assert mw.last_reset >= old_reset
    mw.request(returning(Resp(status_code=200)), req, route)
    assert mw.route_hits[route]['200'].total_count == 1
    assert total() == 1
    assert type(mw.route_hits['fresh']) is defaultdict
    assert type(mw.route_hits['fresh']['k']) is RouteStatReservoir
    assert mw.route_hits['fresh']['k'] is mw.route_hits['fresh']['k']


# ---------------------------------------------------------------- part B

def ep_ok():
    return Response('ok', mimetype='text/plain')


def ep_redir():
    return redirect('/ok')


def ep_bad_raise():
    raise BadRequest()


def ep_forbid_ret():
    return Forbidden()


def ep_boom():
    raise ValueError('boom')


def ep_boom2():
    raise KeyError('boom2')


def ep_mixed(n):
    if n % 4 == 0:
        return Response('even', status=201)
    if n % 4 == 1:
        raise Forbidden()
    if n % 4 == 2:
        raise ZeroDivisionError('mixed')
    return BadRequest()


def ep_post_only():
    return Response('posted')


NULL_PATTERN = '/<_ignored*>'

# (method, path, expected client status, counted pattern, counted key)
REQUEST_KINDS = [
    ('GET', '/ok', 200, '/ok', '200'),
    ('GET', '/redir', 302, '/redir', '302'),
    ('GET', '/bad_raise', 400, '/bad_raise', '400'),
    ('GET', '/forbid_ret', 403, '/forbid_ret', '403'),
    ('GET', '/boom', 500, '/boom', "'ValueError'"),
    ('GET', '/boom2', 500, '/boom2', "'KeyError'"),
    ('GET', '/mixed/4', 201, '/mixed/<n:int>', '201'),
    ('GET', '/mixed/5', 403, '/mixed/<n:int>', '403'),
    ('GET', '/mixed/6', 500, '/mixed/<n:int>', "'ZeroDivisionError'"),
    ('GET', '/mixed/7', 400, '/mixed/<n:int>', '400'),
    ('GET', '/nope', 404, NULL_PATTERN, '404'),
    ('GET', '/also/not/here', 404, NULL_PATTERN, '404'),
    ('GET', '/post_only', 405, NULL_PATTERN, '405'),
    ('POST', '/post_only', 200, '/post_only', '200'),
]


def make_app():
    routes = [('/ok', ep_ok),
              ('/redir', ep_redir),
              ('/bad_raise', ep_bad_raise),
              ('/forbid_ret', ep_forbid_ret),
              ('/boom', ep_boom),
              ('/boom2', ep_boom2),
              ('/mixed/<n:int>', ep_mixed),
              POST('/post_only', ep_post_only),
              ('/stats', create_stats_app())]
    mw = StatsMiddleware()
    app = Application(routes, middlewares=[mw])
    return app, mw


def report_counts(data):
    ret = {}
    for pattern, by_status in data['route_stats'].items():
        ret[pattern] = dict((k, v['count']) for k, v in by_status.items())
    return ret


def model_counts(model):
    return dict((p, dict(c)) for p, c in model.items() if c)


def check_sequences():
    app, mw = make_app()
    cl = app.get_local_client()
    read_pattern = [r for r in app.routes if r.endpoint is S.get_stats_dict][0].pattern
    reset_pattern = [r for r in app.routes if r.endpoint is S.get_and_reset_stats_dict][0].pattern
    read_path, reset_path = '/stats/', '/stats/reset'

    for seed in range(12):
        rng = random.Random(seed)
        cl.post(reset_path)
        # the reset request itself is recorded after the reset took place
        model = defaultdict(lambda: defaultdict(int))
        model[reset_pattern]['200'] += 1
        reached = defaultdict(int)
        reached[reset_pattern] += 1
        for step in range(150):
            x = rng.random()
            if x < 0.80:
                method, path, status, pattern, key = rng.choice(REQUEST_KINDS)
                resp = cl.open(path, method=method)
                assert resp.status_code == status, (path, resp.status_code)
                model[pattern][key] += 1
                reached[pattern] += 1
            elif x < 0.95:
                resp = cl.get(read_path)
                assert resp.status_code == 200
                data = json.loads(resp.get_data(True))
                assert 'reset' not in data
                assert report_counts(data) == model_counts(model), (seed, step)
                for pattern, by_status in report_counts(data).items():
                    assert sum(by_status.values()) == reached[pattern]
                # a read is itself a request: counted once it has completed
                model[read_pattern]['200'] += 1
                reached[read_pattern] += 1
            else:
                resp = cl.post(reset_path)
                assert resp.status_code == 200
                data = json.loads(resp.get_data(True))
                assert data['reset'] is True
                assert report_counts(data) == model_counts(model), (seed, step)
                model = defaultdict(lambda: defaultdict(int))
                model[reset_pattern]['200'] += 1
                reached = defaultdict(int)
                reached[reset_pattern] += 1
        data = json.loads(cl.get(read_path).get_data(True))
        assert report_counts(data) == model_counts(model), seed
        # and directly on the middleware: one reservoir per (route, status)
        direct = {}
        for rt, by_status in mw.route_hits.items():
            direct[rt.pattern] = dict((k, r.total_count) for k, r in by_status.items())
        model[read_pattern]['200'] += 1
        assert direct == model_counts(model), seed


def main():
    check_direct()
    check_sequences()
    print('PASS')
    return 0


if __name__ == '__main__':
    sys.exit(main())
