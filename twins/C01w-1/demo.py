# -*- coding: utf-8 -*-
"""demo1: bind-time dependency check + what BoundRoute.execute()/execute_error()
hand to the compiled chain (resources / URL bindings / built-ins / kwargs).

Prints PASS and exits 0 on unmodified code and with patch1.diff applied.
"""
import os
import sys

sys.path.insert(0, os.path.dirname(os.path.abspath(__file__)))

from werkzeug.wrappers import Response

from clastic import Application, Route, GET, Middleware
from clastic.errors import ErrorHandler, NotFound
from clastic.route import BoundRoute


class ReraisingHandler(ErrorHandler):
    """uncaught exceptions escape the WSGI callable instead of becoming a 500"""
    def uncaught_to_response(self, _application, _route, **kwargs):
        raise


def render_txt(context):
    return Response(repr(context), mimetype='text/plain')


def get(app, path):
    cl = app.get_local_client()
    resp = cl.get(path)
    return resp.status_code, resp.get_data(True)


def accepted(**kw):
    kw.setdefault('error_handler', ReraisingHandler())
    return Application(**kw)


def rejected(exc_type, **kw):
    try:
        Application(**kw)
    except exc_type as e:
        assert type(e) is exc_type, type(e)
        return e
    raise AssertionError('expected %s for %r' % (exc_type.__name__, kw))


# ---------------------------------------------------------------- middlewares

class ProvA(Middleware):
    provides = ('a',)

    def request(self, next):
        return next(a='A')


class NeedsAProvB(Middleware):
    provides = ('b',)

    def request(self, next, a):
        return next(b=a + 'B')


class EpProv(Middleware):
    endpoint_provides = ('e',)

    def endpoint(self, next, a='dflt-a'):
        return next(e='E(%s)' % a)


class RnProv(Middleware):
    render_provides = ('r',)

    def render(self, next, context):
        return next(r='R[%r]' % (context,))


class OptionalRes(Middleware):
    provides = ('seen',)

    def request(self, next, res=None, other='o'):
        return next(seen=(res, other))


def check_bind_time():
    # 1. plain satisfiable configurations ---------------------------------
    def ep(a, b, request, _route, _application, num, res, opt='dflt', *, kwo='kw'):
        assert isinstance(_route, BoundRoute)
        assert isinstance(_application, Application)
        assert _route in _application.routes
        return (a, b, num, res, opt, kwo, request.path)

    app = accepted(routes=[Route('/x/<num:int>', ep, render_txt)],
                   resources={'res': 'RES'},
                   middlewares=[ProvA(), NeedsAProvB()])
    assert get(app, '/x/7') == (200, repr(('A', 'AB', 7, 'RES', 'dflt', 'kw', '/x/7')))
    # catch-all route runs the app-level middlewares without URL bindings
    assert get(app, '/nope')[0] == 404

    # 2. an optional parameter picks up a resource when one is there ---------
    def ep_seen(seen):
        return seen
    app = accepted(routes=[('/', ep_seen, render_txt)], middlewares=[OptionalRes()],
                   resources={'res': 0})
    assert get(app, '/') == (200, repr((0, 'o')))
    app = accepted(routes=[('/', ep_seen, render_txt)], middlewares=[OptionalRes()])
    assert get(app, '/') == (200, repr((None, 'o')))
    app = accepted(routes=[('/', ep_seen, render_txt)], middlewares=[OptionalRes()],
                   resources={'res': '', 'other': None})
    assert get(app, '/') == (200, repr(('', None)))

    # 3. endpoint / render phases -------------------------------------------
    def ep_e(e):
        return {'e': e}

    def rn(context, r, e=None):
        return Response('%r|%s|%r' % (sorted(context.items()), r, e))

    app = accepted(routes=[('/', ep_e, rn)], middlewares=[ProvA(), EpProv(), RnProv()])
    assert get(app, '/') == (200, "[('e', 'E(A)')]|R[{'e': 'E(A)'}]|None")
    app = accepted(routes=[('/', ep_e, rn)], middlewares=[EpProv(), RnProv()])
    assert get(app, '/') == (200, "[('e', 'E(dflt-a)')]|R[{'e': 'E(dflt-a)'}]|None")

    # 4. rejections ---------------------------------------------------------
    def ep_missing(nothing_provides_this):
        return 'x'
    e = rejected(NameError, routes=[('/', ep_missing, render_txt)])
    assert 'nothing_provides_this' in str(e)
    # app-level middleware that needs a URL binding: the catch-all route has none
    class NeedsUrl(Middleware):
        def request(self, next, num):
            return next()
    rejected(NameError, routes=[('/<num:int>', lambda num: num, render_txt)],
             middlewares=[NeedsUrl()])
    # ...but fine as a route-level middleware
    app = accepted(routes=[Route('/<num:int>', lambda num: num, render_txt,
                                 middlewares=[NeedsUrl()])])
    assert get(app, '/3') == (200, '3')
    # provider placed after its consumer in the same phase
    rejected(NameError, routes=[('/', lambda: 1, render_txt)],
             middlewares=[NeedsAProvB(), ProvA()])
    # render function that needs something only a request middleware of another
    # route provides
    rejected(NameError, routes=[('/', lambda: 1, lambda context, b: Response('x'))],
             middlewares=[ProvA()])
    # 'next' is reserved
    rejected(NameError, routes=[('/', lambda next: 1, render_txt)])
    # resources may not shadow built-ins
    rejected(NameError, routes=[], resources={'request': 1})
    # duplicate provides
    class ProvA2(Middleware):
        provides = ('a',)
        def request(self, next):
            return next(a=2)
    rejected(NameError, routes=[], middlewares=[ProvA(), ProvA2()])
    # keyword-only without default is a requirement too
    def ep_kwo(*, must):
        return must
    rejected(NameError, routes=[('/', ep_kwo, render_txt)])
    app = accepted(routes=[('/', ep_kwo, render_txt)], resources={'must': 'M'})
    assert get(app, '/') == (200, "'M'")

    # 5. Application.add() binds eagerly too ----------------------------------
    app = accepted(routes=[])
    try:
        app.add(('/late', ep_missing, render_txt))
    except NameError:
        pass
    else:
        raise AssertionError('add() must reject')
    assert len(app.routes) == 0
    app.add(('/late', lambda: 'ok', render_txt))
    assert get(app, '/late') == (200, "'ok'")


def check_execute_injectables():
    """direct calls of BoundRoute.execute / execute_error"""
    seen = {}

    def ep(request, _route, _application, res, num, extra='dflt-extra'):
        seen['ep'] = (request, _route, _application, res, num, extra)
        return Response('ok')

    def render_error(request, _error, res, **kwargs):
        seen['re'] = (request, _error, res, kwargs)
        return Response('err', status=418)

    class Handler(ReraisingHandler):
        # binding makes the application's handler the route's render_error
        def render_error(self, request, _error, res, **kwargs):
            return render_error(request, _error, res, **kwargs)

    route = Route('/<num:int>', ep, resources={'res': 'RES'})
    app = accepted(routes=[route], resources={'res': 'shadowed', 'unused': 'U'},
                   error_handler=Handler())
    br = app.routes[0]
    req = object()

    # resources are injected, kwargs are injected, unknown kwargs are dropped
    resp = br.execute(req, num=5, _dispatch_state=None, bogus='ignored')
    assert resp.get_data(True) == 'ok'
    assert seen['ep'] == (req, br, app, 'RES', 5, 'dflt-extra')

    # kwargs win over resources and over the '_route' / '_application' entries
    # (that is what successive update() calls did); falsy values are kept
    marker = object()
    br.execute(req, num=0, res='', extra=None, _route=marker, _application=0)
    # ('extra' is not a provided name, so the chain does not forward it)
    assert seen['ep'] == (req, marker, 0, '', 0, 'dflt-extra'), seen['ep']

    # a resource cannot displace '_route' silently? it can: update order is
    # builtins < resources < kwargs.  (bind refuses such resources, so poke it
    # in after the fact -- only the merge order is under test here.)
    br.resources['_route'] = 'from-resources'
    br.execute(req, num=1)
    assert seen['ep'][1] == 'from-resources'
    br.execute(req, num=1, _route='from-kwargs')
    assert seen['ep'][1] == 'from-kwargs'
    del br.resources['_route']

    # the dicts handed in are not modified
    kw = {'num': 2}
    before = dict(br.resources)
    br.execute(req, **kw)
    assert kw == {'num': 2} and br.resources == before

    # missing URL binding at execute time -> TypeError from the generated code
    try:
        br.execute(req)
    except TypeError:
        pass
    else:
        raise AssertionError('expected TypeError')
    # request is a required positional of execute()
    try:
        br.execute(num=1)
    except TypeError:
        pass
    else:
        raise AssertionError('expected TypeError')

    # execute_error: render_error takes **kwargs -> receives everything
    err = NotFound()
    resp = br.execute_error(req, err, num=9, res='override', zzz=1)
    assert resp.status_code == 418
    r_req, r_err, r_res, r_kwargs = seen['re']
    assert r_req is req and r_err is err and r_res == 'override'
    assert r_kwargs == {'_route': br, '_application': app, 'unused': 'U',
                        'num': 9, 'zzz': 1}, r_kwargs
    assert list(r_kwargs) == ['_route', '_application', 'unused', 'num', 'zzz']

    # kwargs override _error? no: _error is a named parameter of execute_error,
    # so passing it twice is a TypeError
    try:
        br.execute_error(req, err, **{'_error': 1})
    except TypeError:
        pass
    else:
        raise AssertionError('expected TypeError')

    # render_error not callable
    br2 = Application(routes=[('/', lambda: Response('x'))]).routes[0]
    br2.render_error = None
    try:
        br2.execute_error(req, err)
    except TypeError as e:
        assert 'render_error not set or not callable' in str(e)
    else:
        raise AssertionError('expected TypeError')

    # through the WSGI callable: a 404 raised by the endpoint is rendered by
    # the route's render_error with resources + URL bindings
    def ep404(num):
        raise NotFound()
    app = accepted(routes=[Route('/<num:int>', ep404)], resources={'res': 'RES'},
                   error_handler=Handler())
    assert get(app, '/4') == (418, 'err')
    assert seen['re'][2] == 'RES' and seen['re'][3]['num'] == 4
    assert seen['re'][3]['_route'] is app.routes[0]


def main():
    check_bind_time()
    check_execute_injectables()
    print('PASS')


if __name__ == '__main__':
    main()
