# -*- coding: utf-8 -*-
"""demo3: the debug (contextual) error handler -- ContextualInternalServerError,
ContextualNotFound, their to_dict()/to_html() and the ashes templates of
clastic._contextual_errors.  Status, negotiated format, Content-Type agreement
and escaping of every request-/exception-controlled string.

Prints PASS and exits 0 when the C09 property holds.
"""
import sys
import json
import xml.etree.ElementTree as ET
from html.parser import HTMLParser

from clastic import Application, Route, render_basic
from clastic import errors, _contextual_errors
from clastic._contextual_errors import CONTEXTUAL_ENV
from clastic.errors import (ContextualErrorHandler, ContextualInternalServerError,
                            ContextualNotFound, InternalServerError, NotFound)

CHECKS = 0


def check(cond, msg):
    global CHECKS
    CHECKS += 1
    if not cond:
        raise AssertionError(msg)


class Tags(HTMLParser):
    def __init__(self):
        HTMLParser.__init__(self, convert_charrefs=True)
        self.tags = []
        self.title = ''
        self._in_title = False
        self.text = []

    def handle_starttag(self, tag, attrs):
        self.tags.append((tag, dict(attrs)))
        if tag == 'title':
            self._in_title = True

    def handle_endtag(self, tag):
        if tag == 'title':
            self._in_title = False

    def handle_data(self, data):
        self.text.append(data)
        if self._in_title:
            self.title += data


def parse_html(body):
    p = Tags()
    p.feed(body)
    p.close()
    return p


KNOWN_TAGS = set('''html head meta title style script body div h1 h2 h3 pre table tr th td
                    a span ul li code ol form input textarea br p thead tbody small'''.split())


def check_no_injection(body, label):
    low = body.lower()
    check('<xss' not in low, label + ': raw marker tag in body')
    check('"onmouseover' not in low.replace('&quot;', ''), label + ': attribute breakout')
    parsed = parse_html(body)
    names = set(t for t, _ in parsed.tags)
    check(names <= KNOWN_TAGS, '%s: unexpected tags %r' % (label, sorted(names - KNOWN_TAGS)))
    for tag, attrs in parsed.tags:
        check('onmouseover' not in attrs, label + ': injected attribute')
    return parsed


def ep_boom(text):
    marker_local = '<xssLocal a="1">&amp;'
    other = {'<xssKey>': ['<xssVal>', 1, None]}
    raise ValueError('<xssMsg>%s</xssMsg> & "dq" \'sq\' {braces} {?exc_type}' % text)


def ep_nested(text):
    def inner(arg):
        deep_local = '<xssDeep>'
        return {}[arg]
    return inner(text)


def ep_ok():
    return 'fine'


def make_routes():
    return [Route('/boom/<text>', ep_boom, render_basic),
            Route('/nested/<text>', ep_nested, render_basic),
            Route('/ok', ep_ok, render_basic),
            Route('/post/<thing>/', ep_ok, render_basic, methods=['PUT', 'POST']),
            Route('/multi/<a:int>/<b*>', ep_ok, render_basic, methods=['GET'])]


EVIL_HEADERS = {'X-Evil': '<xssHeader>"onmouseover="x', 'User-Agent': '<xssUA>'}


def expected_routes(app):
    out = []
    for rt in app.routes:
        cur = {'pattern': rt.pattern, 'regex': rt.regex.pattern}
        if rt.methods:
            cur['methods'] = sorted(rt.methods)
        out.append(cur)
    return out


def run_500(app, hide, label):
    cl = app.get_local_client()
    for url, exc_name, needle in [
            ('/boom/<xssPath>?q=<xssQuery>&r=%22onmouseover%3D%22x', 'ValueError',
             '&lt;xssMsg&gt;&lt;xssPath&gt;&lt;/xssMsg&gt; &amp; &quot;dq&quot; &#x27;sq&#x27; {braces} {?exc_type}'),
            ('/nested/<xssPath>', 'KeyError', '&lt;xssPath&gt;')]:
        # --- html: the ashes debug page
        headers = dict(EVIL_HEADERS, Accept='text/html')
        resp = cl.get(url, headers=headers)
        check(resp.status_code == 500, label + ': status')
        check(resp.headers['Content-Type'] == 'text/html; charset=utf-8', label + ': html ctype')
        body = resp.get_data(as_text=True)
        parsed = check_no_injection(body, label + ' 500 html ' + url)
        check(body.lstrip().startswith('<!DOCTYPE html>'), label + ': debug doctype')
        path = url.split('?')[0]
        check(parsed.title == '%s at %s' % (exc_name, path), '%s: title %r' % (label, parsed.title))
        check(needle in body, '%s: escaped exception text missing for %s' % (label, url))
        check('&lt;xssPath&gt;' in body, label + ': escaped path')
        if 'boom' in url:
            check('&lt;xssLocal a=&quot;1&quot;&gt;&amp;amp;' in body, label + ': escaped local value')
            check('&lt;xssKey&gt;' in body and '&lt;xssVal&gt;' in body, label + ': escaped nested local')
            check('xssQuery' in body, label + ': query shown')
        else:
            check('&lt;xssDeep&gt;' in body, label + ': escaped deep local')
        check('&lt;xssHeader&gt;' in body and '&lt;xssUA&gt;' in body, label + ': escaped headers')
        check('__STYLE_SCRIPT_STUFF__' not in body, label + ': placeholder left in page')
        check('html * { padding:0; margin:0; }' in body, label + ': style inlined')
        check("You're seeing this error because you are in developer/debug mode." in body,
              label + ': explanation')
        frame_items = [a for t, a in parsed.tags
                       if t == 'li' and a.get('class', '').startswith('frame')]
        hidden_html = [a for a in frame_items if 'hiddenframe' in a['class']]

        # --- json: the full contextual dict
        resp = cl.get(url, headers=dict(EVIL_HEADERS, Accept='application/json'))
        check(resp.status_code == 500, label + ': json status')
        check(resp.headers['Content-Type'] == 'application/json', label + ': json ctype')
        data = json.loads(resp.get_data(as_text=True))
        check('exc_info' not in data, label + ': exc_info dropped')
        check(data['code'] == 500 and data['message'] == 'Internal server error', label + ': json code')
        check(data['exc_type'] == exc_name and exc_name in data['detail'], label + ': json exc_type')
        check(data['error_type'] == errors.STDLIB_EXC_URL + exc_name, label + ': json error_type')
        check('<xssPath>' in data['exc_value'] and '<xssPath>' in data['detail'], label + ': json raw')
        check(data['is_email'] is False, label + ': is_email')
        check(data['clastic_version'], label + ': version')
        frames = data['exc_tb']['frames']
        check(len(frames) >= 2 and len(frames) == len(frame_items), label + ': frame count')
        check([f['id'] for f in frames] == list(range(len(frames))), label + ': frame ids')
        for f in frames:
            check(f['post_start_lineno'] == f['lineno'] + 1, label + ': post_start_lineno')
            want_pre = f['pre_lines'][0]['lineno'] if f.get('pre_lines') else 1
            check(f['pre_start_lineno'] == want_pre, label + ': pre_start_lineno')
            internal = ((not f['line'] and f['module_path'] == '<string>')
                        or (f['module_name'] == 'clastic.sinter' and f['func_name'] == 'inject'))
            if hide and internal:
                check(f.get('is_hidden') is True, label + ': internal frame hidden')
            else:
                check('is_hidden' not in f, label + ': frame wrongly hidden')
        n_hidden = len([f for f in frames if f.get('is_hidden')])
        check(n_hidden == len(hidden_html), label + ': hidden frames html vs json')
        check((n_hidden > 0) == bool(hide), label + ': hide_internal_frames respected')
        check(data['last_frame'] == frames[-1], label + ': last_frame')
        check(data['last_frame']['func_name'] in ('ep_boom', 'inner'), label + ': last func')
        check(data['exc_tb_str'].startswith('Traceback (most recent call last):'), label + ': tb str')
        check(sorted(data['python']) == ['executable', 'path', 'version'], label + ': python info')
        check('\n' not in data['python']['version'], label + ': version one line')
        req = data['req']
        check(sorted(req) == ['abs_path', 'cookies', 'files', 'full_url', 'headers', 'method',
                              'path', 'url_params'], label + ': req keys')
        check(req['path'] == path and req['abs_path'] == path and req['method'] == 'GET',
              label + ': req path')
        check(req['full_url'].startswith('http://localhost/'), label + ': full_url')
        check(req['cookies'] == {}, label + ': cookies %r' % (req['cookies'],))
        check(['X-Evil', EVIL_HEADERS['X-Evil']] in req['headers'], label + ': json headers raw')
        check(data['server_time'] and data['server_time_utc'], label + ': times')

        # --- xml / text / no match: the plain formats of the base class
        resp = cl.get(url, headers=dict(EVIL_HEADERS, Accept='application/xml'))
        check(resp.status_code == 500, label + ': xml status')
        check(resp.headers['Content-Type'] == 'application/xml; charset=utf-8', label + ': xml ctype')
        xbody = resp.get_data(as_text=True)
        check('<xss' not in xbody, label + ': xml markup leaked')
        root = ET.fromstring(xbody.encode('utf-8'))
        check([c.tag for c in root] == ['code', 'message', 'detail', 'error_type'], label + ': xml')
        check(root.find('detail').text == data['detail'], label + ': xml detail == json detail')
        for accept in ('text/plain', 'image/png', None):
            hdrs = dict(EVIL_HEADERS)
            if accept:
                hdrs['Accept'] = accept
            resp = cl.get(url, headers=hdrs)
            check(resp.status_code == 500, label + ': text status')
            check(resp.headers['Content-Type'] == 'text/plain; charset=utf-8', label + ': text ctype')
            check(resp.get_data(as_text=True) == '500 - Internal server error\n\n%s\n\nError type: %s'
                  % (data['detail'], data['error_type']), label + ': text body')
    check(cl.get('/ok').status_code == 200, label + ': ok route')


def run_404(app, label):
    cl = app.get_local_client()
    want_routes = expected_routes(app)
    check(len(want_routes) >= 5, label + ': routes present')
    for url in ['/nope/<xssPath>', '/<xssPath>"onmouseover="x', '/boom', '/multi/notint/x',
                u'/ünï/<xssPath>']:
        path = url
        resp = cl.get(url + '?q=<xssQuery>', headers=dict(EVIL_HEADERS, Accept='text/html'))
        check(resp.status_code == 404, '%s: 404 status for %s' % (label, url))
        check(resp.headers['Content-Type'] == 'text/html; charset=utf-8', label + ': 404 html ctype')
        body = resp.get_data(as_text=True)
        parsed = check_no_injection(body, label + ' 404 html ' + url)
        check(parsed.title == 'Page not found at ' + path, '%s: 404 title %r' % (label, parsed.title))
        check('&lt;text&gt;' in body, label + ': route pattern escaped')
        check('&lt;xssPath&gt;' in body or 'xssPath' not in url, label + ': 404 path escaped')
        spans = [a['title'] for t, a in parsed.tags if t == 'span' and 'title' in a]
        check(spans == [r['regex'] for r in want_routes], label + ': regex titles round-trip')
        check(body.count('<li>') == len(want_routes), label + ': one li per route')
        check("([&#x27;POST&#x27;, &#x27;PUT&#x27;])" in body, label + ': sorted methods shown')
        check('__STYLE_SCRIPT_STUFF__' not in body, label + ': placeholder left in page')
        check('html * { padding:0; margin:0; }' in body, label + ': style inlined')

        resp = cl.get(url, headers={'Accept': 'application/json'})
        check(resp.status_code == 404, label + ': 404 json status')
        check(resp.headers['Content-Type'] == 'application/json', label + ': 404 json ctype')
        data = json.loads(resp.get_data(as_text=True))
        check(data['code'] == 404 and data['message'] == 'Not found'
              and data['detail'] == NotFound.detail and data['error_type'] is None,
              label + ': 404 json fields')
        check(data['routes'] == want_routes, '%s: 404 routes %r' % (label, data['routes']))
        check(data['request'] == {'path': path, 'method': 'GET'}, label + ': 404 request')
        check(sorted(data) == ['code', 'detail', 'error_type', 'message', 'request', 'routes'],
              label + ': 404 json keys')

        resp = cl.get(url, headers={'Accept': 'application/xml'})
        check(resp.status_code == 404, label + ': 404 xml status')
        check(resp.headers['Content-Type'] == 'application/xml; charset=utf-8', label + ': 404 xml ctype')
        check(resp.get_data(as_text=True) == '<http_error><code>404</code><message>Not found</message>'
              '<detail>The requested URL was not found on this server.</detail>'
              '<error_type></error_type></http_error>', label + ': 404 xml body')
        resp = cl.get(url, headers={'Accept': 'audio/ogg'})
        check(resp.status_code == 404, label + ': 404 text status')
        check(resp.headers['Content-Type'] == 'text/plain; charset=utf-8', label + ': 404 text ctype')
        check(resp.get_data(as_text=True) ==
              '404 - Not found\n\nThe requested URL was not found on this server.', label + ': 404 text')
    # wrong method on an existing route -> 405, plain class, still negotiated
    resp = cl.get('/post/x/', headers={'Accept': 'text/html'})
    check(resp.status_code == 405 and resp.headers['Allow'] == 'POST, PUT', label + ': 405')
    check(resp.headers['Content-Type'] == 'text/html; charset=utf-8', label + ': 405 ctype')
    check(resp.get_data(as_text=True).startswith('<!doctype html><html>'), label + ': 405 body')


class StubRequest(object):
    path = '/stub/<xssPath>'
    url = 'http://h/stub/<xssPath>?<xssQuery>'
    method = 'G<xssMethod>T'
    args = {'<xssArg>': '<xssArgVal>'}
    cookies = {}
    headers = {'X': '<xssHeader>'}
    files = {}


class StubRoute(object):
    def __init__(self, pattern, regex, methods):
        self.pattern = pattern
        self.methods = methods

        class _Rx(object):
            pass
        self.regex = _Rx()
        self.regex.pattern = regex


class StubApp(object):
    def __init__(self, routes):
        self.routes = routes


def run_direct():
    base_keys = ['code', 'detail', 'error_type', 'message']
    # ContextualInternalServerError without exc_info: just the base dict (minus exc_info)
    for kw in ({}, {'request': StubRequest()}, {'exc_info': None, 'hide_internal_frames': False}):
        err = ContextualInternalServerError('<xssDetail>', **kw)
        d = err.to_dict()
        check(sorted(d) == base_keys, 'cise to_dict keys %r' % sorted(d))
        check(d == {'code': 500, 'detail': '<xssDetail>', 'error_type': None,
                    'message': InternalServerError.message}, 'cise to_dict values')
        check(err.hide_internal_frames is kw.get('hide_internal_frames', True), 'cise hide flag')
        check(err.request is kw.get('request'), 'cise request attr')
        page = err.to_html()
        check_no_injection(page, 'cise bare page')
        check('Request data not supplied' in page, 'cise bare page: no request section')
        check(parse_html(page).title == 'Exception', 'cise bare title')
        check(err.to_xml() == '<http_error><code>500</code><message>Internal server error</message>'
              '<detail>&lt;xssDetail&gt;</detail><error_type></error_type></http_error>', 'cise xml')
        check(json.loads(err.to_json()) == d, 'cise json')

    # with a real exc_info and a stub request
    try:
        evil = '<xssLocal>'
        raise RuntimeError('<xssMsg> & {detail}')
    except RuntimeError:
        exc_info = errors.ContextualExceptionInfo.from_current()
    for hide in (True, False):
        err = ContextualInternalServerError(repr(exc_info), exc_info=exc_info, request=StubRequest(),
                                            hide_internal_frames=hide)
        check(err.error_type == errors.STDLIB_EXC_URL + 'RuntimeError', 'direct error_type')
        d1, d2 = err.to_dict(), err.to_dict()
        check(d1 is not d2 and d1['exc_tb'] is not d2['exc_tb'], 'to_dict builds fresh dicts')
        check(d1['req'] == {'path': StubRequest.path, 'full_url': StubRequest.url,
                            'method': StubRequest.method, 'abs_path': StubRequest.path,
                            'url_params': StubRequest.args, 'cookies': StubRequest.cookies,
                            'headers': StubRequest.headers, 'files': StubRequest.files}, 'direct req')
        check(d1['req']['url_params'] is StubRequest.args, 'request containers passed through')
        check(d1['exc_type'] == 'RuntimeError' and d1['exc_value'] == '<xssMsg> & {detail}', 'direct exc')
        check(d1['last_frame'] is d1['exc_tb']['frames'][-1], 'last_frame is the last frame object')
        check(d1['last_frame']['id'] == len(d1['exc_tb']['frames']) - 1, 'last frame id')
        check(d1['last_frame']['func_name'] == 'run_direct', 'last frame func')
        check(all('is_hidden' not in f for f in d1['exc_tb']['frames']), 'no internal frames here')
        page = err.to_html()
        parsed = check_no_injection(page, 'direct 500 page')
        check(parsed.title == 'RuntimeError at ' + StubRequest.path, 'direct title %r' % parsed.title)
        check('&lt;xssMsg&gt; &amp; {detail}' in page, 'direct escaped message')
        check('&lt;xssLocal&gt;' in page, 'direct escaped local')
        check('G&lt;xssMethod&gt;T' in page, 'direct escaped method')
    # falsy exc_info object -> treated as absent
    class FalsyInfo(object):
        exc_type = 'ValueError'

        def __bool__(self):
            return False
        __nonzero__ = __bool__

        def to_dict(self):
            return {'x': 1}
    err = ContextualInternalServerError('d', exc_info=FalsyInfo())
    check(sorted(err.to_dict()) == base_keys, 'falsy exc_info -> base dict')

    # ContextualNotFound
    err = ContextualNotFound()
    check(err.to_dict() == {'code': 404, 'detail': NotFound.detail, 'error_type': None,
                            'message': 'Not found'}, 'cnf bare dict')
    check(err.request is None and err.application is None and err.dispatch_state is None, 'cnf attrs')
    page = err.to_html()
    check(parse_html(page).title == 'Page not found', 'cnf bare title')
    check('<ol>' not in page, 'cnf bare page lists no routes')
    routes = [StubRoute('/a/<xssPat>', '^/a/(?P<xssRx>"[^/]+)$', set(['POST', 'GET', 'DELETE'])),
              StubRoute('/b', '^/b$', set()),
              StubRoute('/c', '^/c$', None),
              StubRoute('/d', '^/d$', ['Z', 'A'])]
    want = [{'pattern': '/a/<xssPat>', 'regex': '^/a/(?P<xssRx>"[^/]+)$',
             'methods': ['DELETE', 'GET', 'POST']},
            {'pattern': '/b', 'regex': '^/b$'}, {'pattern': '/c', 'regex': '^/c$'},
            {'pattern': '/d', 'regex': '^/d$', 'methods': ['A', 'Z']}]
    err = ContextualNotFound(application=StubApp(routes), dispatch_state='ds')
    d = err.to_dict()
    check(d['routes'] == want and 'request' not in d, 'cnf routes without request')
    check(err.dispatch_state == 'ds', 'cnf dispatch_state')
    check(routes[3].methods == ['Z', 'A'], 'route methods not mutated')
    err = ContextualNotFound(application=StubApp(routes), request=StubRequest())
    d = err.to_dict()
    check(d['routes'] == want and d['request'] == {'path': StubRequest.path,
                                                   'method': StubRequest.method}, 'cnf full dict')
    check(list(d)[:4] == ['detail', 'message', 'code', 'error_type'], 'cnf key order')
    page = err.to_html()
    parsed = check_no_injection(page, 'cnf stub page')
    check(parsed.title == 'Page not found at ' + StubRequest.path, 'cnf stub title')
    check('&lt;xssPat&gt;' in page and '(?P&lt;xssRx&gt;&quot;[^/]+)' in page, 'cnf escaped routes')
    check('G&lt;xssMethod&gt;T' in page, 'cnf escaped method')
    err = ContextualNotFound(application=StubApp([]), request=StubRequest())
    d = err.to_dict()
    check(d['routes'] == [] and 'request' in d, 'cnf empty routes')
    err = ContextualNotFound(request=StubRequest())
    check('request' not in err.to_dict() and 'routes' not in err.to_dict(), 'cnf no app -> base dict')

    # templates registered under the expected names, placeholder resolved exactly once
    for name, attr in (('500.html', 'HTML_500_TMPL'), ('404.html', 'HTML_404_TMPL')):
        source = getattr(_contextual_errors, attr)
        check('__STYLE_SCRIPT_STUFF__' not in source, attr + ': placeholder')
        check(source.count(_contextual_errors.STYLE_SCRIPT_STUFF) == 1, attr + ': style once')
        check(name in CONTEXTUAL_ENV.templates, name + ' registered')
    check(sorted(CONTEXTUAL_ENV.templates) == ['404.html', '500.html'], 'exactly two templates')
    out = CONTEXTUAL_ENV.render('404.html', {'request': {'path': '<xssPath>', 'method': '"'},
                                             'routes': [{'pattern': '<xssP>', 'regex': '"<xssR>',
                                                         'methods': ['<xssM>']}]})
    check_no_injection(out, 'raw 404 render')
    check('&lt;xssP&gt;' in out and '&quot;&lt;xssR&gt;' in out and '&lt;xssM&gt;' in out, 'raw 404 esc')
    out = CONTEXTUAL_ENV.render('500.html', {'exc_type': '<xssT>', 'exc_value': '<xssV>',
                                             'req': {'path': '<xssPath>', 'abs_path': '<xssA>',
                                                     'full_url': '"<xssF>', 'method': '<xssM>'}})
    check_no_injection(out, 'raw 500 render')
    check('&lt;xssT&gt; at &lt;xssPath&gt;' in out and '&quot;&lt;xssF&gt;' in out, 'raw 500 esc')


def main():
    apps = [('debug', Application(make_routes(), debug=True), True),
            ('explicit', Application(make_routes(), error_handler=ContextualErrorHandler()), True),
            ('showall', Application(make_routes(),
                                    error_handler=ContextualErrorHandler(hide_internal_frames=False)),
             False)]
    for name, app, hide in apps:
        check(isinstance(app.error_handler, ContextualErrorHandler), name + ': handler type')
        check(app.error_handler.hide_internal_frames is hide, name + ': hide flag')
        run_500(app, hide, name)
        run_404(app, name)
    run_direct()
    print('PASS (%d checks)' % CHECKS)
    return 0


if __name__ == '__main__':
    sys.exit(main())
