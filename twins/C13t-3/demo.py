# -*- coding: utf-8 -*-
"""demo3: static files as conforming WSGI responses.

build_file_response / StaticApplication / StaticFileRoute: the file
opened for a response is handed to the server's wsgi.file_wrapper (or
werkzeug's FileWrapper), close() on the returned iterable releases it,
HEAD sends no body, conditional requests give an empty 304, missing /
unreadable / out-of-root paths give 404 / 403 without leaking the file,
and mimetype sniffing picks text vs binary defaults.
"""
import os
import sys

sys.path.insert(0, os.path.dirname(os.path.abspath(__file__)))

import shutil
import tempfile
import builtins
from datetime import datetime, timedelta
from io import BytesIO
from wsgiref.util import setup_testing_defaults
from wsgiref.validate import validator

import clastic
from clastic import Application, Response
from clastic import static as static_mod
from clastic.static import (StaticApplication, StaticFileRoute,
                            build_file_response, peek_file, is_binary_string,
                            find_file, get_file_mtime)
from clastic.errors import NotFound, Forbidden
from werkzeug.wsgi import FileWrapper
from werkzeug.http import http_date

assert os.path.dirname(os.path.abspath(__file__)) in os.path.abspath(clastic.__file__)


# ------------------------------------------------------- open() tracking

OPENED = []
_real_open = builtins.open


class TrackedFile(object):
    def __init__(self, fobj, path):
        self._f = fobj
        self.path = path
        self.fail_read = False

    def read(self, *a):
        if self.fail_read:
            raise IOError('simulated read failure')
        return self._f.read(*a)

    def __getattr__(self, name):
        return getattr(self._f, name)

    def __iter__(self):
        return iter(self._f)

    def __enter__(self):
        return self

    def __exit__(self, *a):
        self._f.close()


FAIL_READ_FOR = set()


def tracking_open(path, *a, **kw):
    fobj = _real_open(path, *a, **kw)
    if isinstance(path, str) and path.startswith(TMP):
        tf = TrackedFile(fobj, path)
        tf.fail_read = os.path.basename(path) in FAIL_READ_FOR
        OPENED.append(tf)
        return tf
    return fobj


def all_closed():
    return all(tf.closed for tf in OPENED)


# ------------------------------------------------------------ WSGI driving

def make_environ(method='GET', path='/', headers=None, file_wrapper=None):
    environ = {'REQUEST_METHOD': method, 'PATH_INFO': path,
               'SCRIPT_NAME': '', 'QUERY_STRING': '',
               'wsgi.input': BytesIO(b'')}
    setup_testing_defaults(environ)
    environ['REQUEST_METHOD'] = method
    if method == 'POST':
        environ['CONTENT_LENGTH'] = '0'
    for k, v in (headers or {}).items():
        environ['HTTP_' + k.upper().replace('-', '_')] = v
    if file_wrapper is not None:
        environ['wsgi.file_wrapper'] = file_wrapper
    return environ


def call_wsgi(app, method='GET', path='/', validate=True, close=True, **kw):
    environ = make_environ(method, path, **kw)
    calls = []

    def start_response(status, headers, exc_info=None):
        calls.append((status, list(headers), exc_info))
        return lambda data: None

    target = validator(app) if validate else app
    result = target(environ, start_response)
    chunks = []
    try:
        for chunk in result:
            assert len(calls) == 1, 'start_response must precede body'
            assert isinstance(chunk, bytes)
            chunks.append(chunk)
    finally:
        if close and hasattr(result, 'close'):
            result.close()
    assert len(calls) == 1, 'start_response called %r times' % len(calls)
    status, headers, exc_info = calls[0]
    assert isinstance(status, str) and status[:3].isdigit() and status[3] == ' '
    for k, v in headers:
        assert type(k) is str and type(v) is str
    body = b''.join(chunks)
    if method == 'HEAD':
        assert body == b''
    return status, headers, body, result


# ------------------------------------------------------------------ files

TMP = tempfile.mkdtemp(prefix='clastic_demo3_')
FILES = {
    'hello.txt': b'hello world\n',
    'page.html': b'<html><body>hi</body></html>',
    'data.bin': bytes(bytearray(range(256))) * 8,
    'noext_text': b'just some printable text without extension\n',
    'noext_binary': b'\x00\x01\x02\x03\x04 binary \x00\x00',
    'noext_empty': b'',
    'weird.unknownext123': b'printable again',
    'big.txt': b'0123456789abcdef' * 4096,  # 64 KiB, several wrapper blocks
    'sub/nested.css': b'body { color: red; }',
    'sub/deeper/file.js': b'var x = 1;',
}


def setup_files():
    for rel, data in FILES.items():
        full = os.path.join(TMP, rel)
        if not os.path.isdir(os.path.dirname(full)):
            os.makedirs(os.path.dirname(full))
        with _real_open(full, 'wb') as f:
            f.write(data)


EXPECTED_MIME = {
    'hello.txt': 'text/plain',
    'page.html': 'text/html',
    'noext_text': 'text/plain',
    'noext_binary': 'application/octet-stream',
    'noext_empty': 'text/plain',
    'weird.unknownext123': 'text/plain',
    'big.txt': 'text/plain',
    'sub/nested.css': 'text/css',
}


def test_helpers():
    assert is_binary_string(b'') is False
    assert is_binary_string(b'plain text\r\n\t') is False
    assert is_binary_string(b'\x00') is True
    assert is_binary_string(b'a' * 5000 + b'\x00') is False  # beyond the sample
    assert is_binary_string(b'a' * 5000 + b'\x00', sample_size=6000) is True
    assert is_binary_string(b'a\x00', sample_size=1) is False
    assert is_binary_string(bytes(bytearray(range(32, 256)))) is False

    f = BytesIO(b'0123456789')
    f.seek(3)
    assert peek_file(f, 4) == b'3456' and f.tell() == 3
    assert peek_file(f) == b'3456789' and f.tell() == 3
    assert peek_file(f, 0) == b'' and f.tell() == 3
    try:
        peek_file(object())
    except TypeError as te:
        assert str(te).startswith('expected seekable file object, not ')
    else:
        raise AssertionError('TypeError expected')

    assert find_file([TMP], 'hello.txt') == os.path.join(TMP, 'hello.txt')
    assert find_file([TMP], 'sub/../hello.txt') == os.path.join(TMP, 'hello.txt')
    assert find_file([TMP], 'nope.txt') is None
    assert find_file([], 'hello.txt') is None
    assert find_file([os.path.join(TMP, 'sub'), TMP], 'hello.txt') == os.path.join(TMP, 'hello.txt')
    for bad in ('/etc/passwd', '../x', 'sub/../../x'):
        try:
            find_file([TMP], bad)
        except ValueError:
            pass
        else:
            raise AssertionError('ValueError expected for %r' % bad)


def test_build_file_response_direct():
    # plain call: FileWrapper around the opened file, headers in place
    for rel, data in sorted(FILES.items()):
        del OPENED[:]
        full = os.path.join(TMP, rel)
        resp = build_file_response(full)
        assert len(OPENED) == 1 and OPENED[0].path == full
        assert not OPENED[0].closed
        assert isinstance(resp, Response) and type(resp.response) is FileWrapper
        assert resp.response.file is OPENED[0]
        assert resp.status_code == 200
        assert resp.content_length == len(data)
        assert resp.last_modified == get_file_mtime(full)
        if rel in EXPECTED_MIME:
            assert resp.mimetype == EXPECTED_MIME[rel], (rel, resp.mimetype)
        assert resp.cache_control.max_age is None
        assert not resp.cache_control.public
        # sniffing must not consume the file
        assert OPENED[0].tell() == 0
        assert b''.join(resp.response) == data
        resp.close()
        assert all_closed()
        names = [k for k, v in resp.headers]
        assert names == ['Content-Type', 'Content-Length', 'Last-Modified'], names

    # explicit mimetype wins, custom defaults, custom wrapper and response type
    class MyResponse(Response):
        pass
    wrapped = []

    def my_wrapper(f):
        wrapped.append(f)
        return FileWrapper(f, 7)
    del OPENED[:]
    resp = build_file_response(os.path.join(TMP, 'noext_binary'), cache_timeout=60,
                               mimetype='x-demo/explicit', file_wrapper=my_wrapper,
                               response_type=MyResponse)
    assert type(resp) is MyResponse and resp.mimetype == 'x-demo/explicit'
    assert wrapped == [OPENED[0]] and resp.cache_control.max_age == 60
    assert not resp.cache_control.public  # no conditional date given
    resp.close()
    resp = build_file_response(os.path.join(TMP, 'noext_binary'),
                               default_text_mime='x-demo/text', default_binary_mime='x-demo/bin')
    assert resp.mimetype == 'x-demo/bin'
    resp.close()
    resp = build_file_response(os.path.join(TMP, 'noext_empty'),
                               default_text_mime='x-demo/text', default_binary_mime='x-demo/bin')
    assert resp.mimetype == 'x-demo/text'
    resp.close()
    resp = build_file_response(os.path.join(TMP, 'noext_text'), mimetype='',
                               default_text_mime='x-demo/text', default_binary_mime='x-demo/bin')
    assert resp.mimetype == 'x-demo/text'
    resp.close()
    assert all_closed()

    # conditional: not modified -> empty 304 without opening anything
    full = os.path.join(TMP, 'hello.txt')
    mtime = get_file_mtime(full)
    for cached in (mtime, mtime + timedelta(days=1)):
        del OPENED[:]
        resp = build_file_response(full, cache_timeout=30, cached_modify_time=cached)
        assert resp.status_code == 304 and OPENED == []
        assert resp.cache_control.public is True and resp.cache_control.max_age == 30
        assert resp.get_data() == b''
    # modified since -> full response, marked public
    del OPENED[:]
    resp = build_file_response(full, cache_timeout=30,
                               cached_modify_time=mtime - timedelta(days=1))
    assert resp.status_code == 200 and len(OPENED) == 1
    assert resp.cache_control.public is True and resp.cache_control.max_age == 30
    resp.close()
    # falsy cache_timeout disables the conditional branch entirely
    for falsy in (None, 0):
        del OPENED[:]
        resp = build_file_response(full, cache_timeout=falsy,
                                   cached_modify_time=mtime + timedelta(days=1))
        assert resp.status_code == 200 and len(OPENED) == 1
        assert not resp.cache_control.public
        assert resp.cache_control.max_age == falsy
        resp.close()
    assert all_closed()

    # missing file: non-breaking 404 (403 when the conditional stat fails first)
    missing = os.path.join(TMP, 'missing.txt')
    for kwargs, exc_type in (({}, NotFound),
                             ({'cache_timeout': 30}, NotFound),
                             ({'cached_modify_time': mtime}, NotFound),
                             ({'cache_timeout': 30, 'cached_modify_time': mtime}, Forbidden)):
        del OPENED[:]
        try:
            build_file_response(missing, **kwargs)
        except (NotFound, Forbidden) as exc:
            assert type(exc) is exc_type, (kwargs, exc)
            assert exc.is_breaking is False
        else:
            raise AssertionError('expected %r' % exc_type)
        assert OPENED == []
    # a directory is not a file
    try:
        build_file_response(os.path.join(TMP, 'sub'))
    except NotFound as nf:
        assert nf.is_breaking is False
    else:
        raise AssertionError('NotFound expected')

    # read error while sniffing: file closed, non-breaking 403
    FAIL_READ_FOR.add('noext_text')
    try:
        del OPENED[:]
        try:
            build_file_response(os.path.join(TMP, 'noext_text'))
        except Forbidden as fb:
            assert fb.is_breaking is False
        else:
            raise AssertionError('Forbidden expected')
        assert len(OPENED) == 1 and OPENED[0].closed
        # ... no sniffing needed when the type is known: no read, no error
        del OPENED[:]
        resp = build_file_response(os.path.join(TMP, 'noext_text'), mimetype='text/x-known')
        assert resp.mimetype == 'text/x-known' and not OPENED[0].closed
        resp.close()
        assert all_closed()
    finally:
        FAIL_READ_FOR.discard('noext_text')


class ServerFileWrapper(object):
    """A server-provided wsgi.file_wrapper."""
    instances = []

    def __init__(self, filelike, blksize=8192):
        self.filelike = filelike
        self.blksize = blksize
        self.closed = 0
        ServerFileWrapper.instances.append(self)

    def __iter__(self):
        return self

    def __next__(self):
        data = self.filelike.read(self.blksize)
        if not data:
            raise StopIteration
        return data
    next = __next__

    def close(self):
        self.closed += 1
        self.filelike.close()


def test_static_application():
    sapp = StaticApplication(TMP)
    app = Application([('/static', sapp), ('/', lambda: Response('root'))])
    for the_app, prefix in ((sapp, ''), (app, '/static')):
        for rel, data in sorted(FILES.items()):
            for method in ('GET', 'HEAD', 'POST', 'OPTIONS'):
                for fw in (None, ServerFileWrapper):
                    del OPENED[:]
                    del ServerFileWrapper.instances[:]
                    status, headers, body, result = call_wsgi(
                        the_app, method, prefix + '/' + rel, file_wrapper=fw)
                    assert status.startswith('200'), (method, rel, status)
                    hdict = dict(headers)
                    assert hdict['Content-Length'] == str(len(data))
                    assert 'Last-Modified' in hdict
                    assert 'max-age=360' in hdict['Cache-Control']
                    if rel in EXPECTED_MIME:
                        assert hdict['Content-Type'].split(';')[0] == EXPECTED_MIME[rel]
                    if method != 'HEAD':
                        assert body == data
                    assert len(OPENED) == 1
                    # close() on the returned iterable released the file
                    assert all_closed(), (method, rel, fw)
                    if fw is not None:
                        assert len(ServerFileWrapper.instances) == 1
                        inst = ServerFileWrapper.instances[0]
                        assert inst.filelike is OPENED[0]
                        assert inst.closed == 1

    # without close() the file stays open: it is close() that releases it
    del OPENED[:]
    status, headers, body, result = call_wsgi(sapp, 'GET', '/hello.txt',
                                              validate=False, close=False)
    assert body == FILES['hello.txt'] and len(OPENED) == 1
    assert not OPENED[0].closed
    result.close()
    assert OPENED[0].closed

    # 304 on conditional requests, no file opened, no body
    full = os.path.join(TMP, 'hello.txt')
    ims = http_date(get_file_mtime(full) + timedelta(seconds=5))
    for method in ('GET', 'HEAD'):
        del OPENED[:]
        # wsgiref's validator rejects Content-Type on a 304; werkzeug adds
        # one by default, so this kind is checked without the validator
        status, headers, body, result = call_wsgi(
            sapp, method, '/hello.txt', validate=False,
            headers={'If-Modified-Since': ims})
        assert status.startswith('304') and body == b'' and OPENED == []
        cc = dict(headers)['Cache-Control']
        assert 'public' in cc and 'max-age=360' in cc
    old = http_date(datetime(2000, 1, 1))
    del OPENED[:]
    status, headers, body, result = call_wsgi(sapp, 'GET', '/hello.txt',
                                              headers={'If-Modified-Since': old})
    assert status.startswith('200') and body == FILES['hello.txt'] and all_closed()
    assert 'public' in dict(headers)['Cache-Control']

    # missing / outside root / directory
    for method in ('GET', 'HEAD', 'POST'):
        for path, code in (('/missing.txt', '404'), ('/sub', '404'), ('/sub/', '404'),
                           ('/sub/missing.css', '404'), ('/../demo3.py', '403'),
                           ('/sub/../../x', '403'), ('/', '404')):
            del OPENED[:]
            status, headers, body, result = call_wsgi(sapp, method, path)
            assert status.startswith(code), (method, path, status)
            assert OPENED == []

    # unreadable while sniffing -> 403, nothing leaks
    FAIL_READ_FOR.add('noext_binary')
    try:
        del OPENED[:]
        status, headers, body, result = call_wsgi(sapp, 'GET', '/noext_binary')
        assert status.startswith('403'), status
        assert len(OPENED) == 1 and all_closed()
    finally:
        FAIL_READ_FOR.discard('noext_binary')

    # several search paths, custom defaults, cache_timeout variants
    sapp2 = StaticApplication([os.path.join(TMP, 'sub'), TMP], cache_timeout=0,
                              default_text_mime='x-demo/text',
                              default_binary_mime='x-demo/bin')
    for rel, mime in (('noext_text', 'x-demo/text'), ('noext_binary', 'x-demo/bin'),
                      ('noext_empty', 'x-demo/text'), ('nested.css', 'text/css'),
                      ('hello.txt', 'text/plain')):
        del OPENED[:]
        status, headers, body, result = call_wsgi(
            sapp2, 'GET', '/' + rel, headers={'If-Modified-Since': ims})
        assert status.startswith('200'), (rel, status)  # timeout 0: never 304
        assert dict(headers)['Content-Type'].split(';')[0] == mime
        assert 'max-age=0' in dict(headers)['Cache-Control']
        assert all_closed()
    sapp3 = StaticApplication(TMP.encode('utf8') if False else TMP, cache_timeout=None)
    status, headers, body, result = call_wsgi(sapp3, 'GET', '/hello.txt')
    assert status.startswith('200') and 'Cache-Control' not in dict(headers)


def test_static_file_route():
    full = os.path.join(TMP, 'noext_binary')
    routes = [StaticFileRoute('/fav', full),
              StaticFileRoute('/typed', full, mimetype='image/x-icon', cache_timeout=5),
              StaticFileRoute('/late', os.path.join(TMP, 'not_yet'), check_file=False)]
    app = Application(routes)
    for method in ('GET', 'HEAD'):
        for fw in (None, ServerFileWrapper):
            del OPENED[:]
            del ServerFileWrapper.instances[:]
            status, headers, body, result = call_wsgi(app, method, '/fav', file_wrapper=fw)
            assert status.startswith('200')
            assert dict(headers)['Content-Type'] == 'application/octet-stream'
            assert 'max-age=360' in dict(headers)['Cache-Control']
            if method == 'GET':
                assert body == FILES['noext_binary']
            assert len(OPENED) == 1 and all_closed()
            assert len(ServerFileWrapper.instances) == (1 if fw else 0)

            del OPENED[:]
            status, headers, body, result = call_wsgi(app, method, '/typed', file_wrapper=fw)
            assert dict(headers)['Content-Type'] == 'image/x-icon'
            assert 'max-age=5' in dict(headers)['Cache-Control']
            assert all_closed()

            del OPENED[:]
            status, headers, body, result = call_wsgi(app, method, '/late', file_wrapper=fw)
            assert status.startswith('404') and OPENED == []
    # constructor checks the file unless told otherwise
    try:
        StaticFileRoute('/x', os.path.join(TMP, 'not_yet'))
    except (IOError, OSError):
        pass
    else:
        raise AssertionError('IOError expected')


def main():
    setup_files()
    builtins.open = tracking_open
    try:
        test_helpers()
        test_build_file_response_direct()
        test_static_application()
        test_static_file_route()
    finally:
        builtins.open = _real_open
        shutil.rmtree(TMP, ignore_errors=True)
    print('PASS')


if __name__ == '__main__':
    main()
