# -*- coding: utf-8 -*-
"""C13 demo 1: static file responses are conforming WSGI responses, the file a
response opens is released by close(), and peek_file / StaticFileRoute keep
their contracts (position restored, TypeError for unseekable objects, the
readability check at construction time)."""
import io
import os
import shutil
import sys
import tempfile
import warnings
from wsgiref.util import setup_testing_defaults
from wsgiref.validate import validator

warnings.simplefilter('ignore')

from clastic import Application
from clastic.static import (StaticApplication, StaticFileRoute, peek_file,
                            build_file_response, DEFAULT_MAX_AGE)


class TrackingWrapper(object):
    """A wsgi.file_wrapper that records what it wrapped and whether it was
    closed."""
    instances = []

    def __init__(self, file_obj, block_size=8192):
        self.file_obj = file_obj
        self.block_size = block_size
        self.closed = False
        TrackingWrapper.instances.append(self)

    def __iter__(self):
        return self

    def __next__(self):
        data = self.file_obj.read(self.block_size)
        if not data:
            raise StopIteration()
        return data

    def close(self):
        self.closed = True
        self.file_obj.close()


def call_wsgi(app, path, method='GET', headers=None, file_wrapper=None):
    environ = {}
    setup_testing_defaults(environ)
    environ['REQUEST_METHOD'] = method
    environ['PATH_INFO'] = path
    environ['QUERY_STRING'] = ''
    if method == 'POST':
        environ['CONTENT_LENGTH'] = '0'
        environ['wsgi.input'] = io.BytesIO(b'')
    if file_wrapper is not None:
        environ['wsgi.file_wrapper'] = file_wrapper
    for key, value in (headers or {}).items():
        environ['HTTP_' + key.upper().replace('-', '_')] = value
    calls = []

    def start_response(status, response_headers, exc_info=None):
        calls.append((status, list(response_headers)))
        return lambda data: None

    app_iter = validator(app)(environ, start_response)
    chunks = []
    try:
        for chunk in app_iter:
            assert len(calls) == 1, 'body before start_response'
            assert isinstance(chunk, bytes), chunk
            chunks.append(chunk)
    finally:
        app_iter.close()
    assert len(calls) == 1, calls
    status, response_headers = calls[0]
    for name, value in response_headers:
        assert type(name) is str and type(value) is str, (name, value)
    return status, dict(response_headers), b''.join(chunks)


def main():
    root = tempfile.mkdtemp(prefix='c13demo1')
    try:
        files = {'hello.txt': b'hello world\n',
                 'page.html': b'<html><body>hi</body></html>',
                 'noext_text': b'just some text without an extension',
                 'noext_bin': b'\x00\x01\x02\x03binary\x00',
                 'noext_empty': b'',
                 'big.weird_ext_zz': b'x' * 20000,
                 'sub/inner.css': b'body { color: red }'}
        for rel, data in files.items():
            full = os.path.join(root, rel)
            if not os.path.isdir(os.path.dirname(full)):
                os.makedirs(os.path.dirname(full))
            with open(full, 'wb') as f:
                f.write(data)

        # --- peek_file ---------------------------------------------------
        buf = io.BytesIO(b'0123456789')
        buf.seek(3)
        assert peek_file(buf, 4) == b'3456'
        assert buf.tell() == 3
        assert peek_file(buf) == b'3456789'
        assert buf.tell() == 3
        assert peek_file(buf, 0) == b''
        assert buf.tell() == 3
        with open(os.path.join(root, 'hello.txt'), 'rb') as f:
            assert peek_file(f, 5) == b'hello'
            assert f.tell() == 0
            assert f.read() == b'hello world\n'

        class NoSeek(object):
            def read(self, size=-1):
                raise AssertionError('must not be read')

            def tell(self):
                raise AssertionError('must not be asked')

        class BadSeek(NoSeek):
            seek = 'not callable'

        for bad in (NoSeek(), BadSeek(), None, b'bytes'):
            try:
                peek_file(bad, 10)
            except TypeError as te:
                assert str(te) == ('expected seekable file object, not %r'
                                   % (bad,)), str(te)
            else:
                raise AssertionError('expected TypeError for %r' % (bad,))

        class FailingRead(io.BytesIO):
            def read(self, size=-1):
                raise IOError('cannot read')

        failing = FailingRead(b'abcdef')
        failing.seek(2)
        try:
            peek_file(failing, 2)
        except IOError as e:
            assert str(e) == 'cannot read'
        else:
            raise AssertionError('expected IOError')
        assert failing.tell() == 2

        # --- StaticFileRoute construction check --------------------------
        missing = os.path.join(root, 'does_not_exist.txt')
        try:
            StaticFileRoute('/missing', missing)
        except (IOError, OSError):
            pass
        else:
            raise AssertionError('expected an error for a missing file')
        lazy_route = StaticFileRoute('/missing', missing, check_file=False)
        assert lazy_route.file_path == missing
        assert lazy_route.cache_timeout == DEFAULT_MAX_AGE
        assert lazy_route.mimetype is None
        try:
            StaticFileRoute('/dir', root)
        except (IOError, OSError):
            pass
        else:
            raise AssertionError('expected an error for a directory')

        sfr = StaticFileRoute('/hello', os.path.join(root, 'hello.txt'))
        sfr_typed = StaticFileRoute('/typed', os.path.join(root, 'noext_bin'),
                                    mimetype='application/x-thing',
                                    cache_timeout=0)
        static_app = StaticApplication(root)
        app = Application([sfr, sfr_typed, lazy_route, ('/static', static_app)])

        # --- conformance over kinds x methods ----------------------------
        expected = {'/hello': ('text/plain', files['hello.txt']),
                    '/typed': ('application/x-thing', files['noext_bin']),
                    '/static/hello.txt': ('text/plain', files['hello.txt']),
                    '/static/page.html': ('text/html', files['page.html']),
                    '/static/noext_text': ('text/plain', files['noext_text']),
                    '/static/noext_bin': ('application/octet-stream',
                                          files['noext_bin']),
                    '/static/noext_empty': ('text/plain', b''),
                    '/static/big.weird_ext_zz': ('text/plain',
                                                 files['big.weird_ext_zz']),
                    '/static/sub/inner.css': ('text/css',
                                              files['sub/inner.css'])}
        for wrapper in (None, TrackingWrapper):
            for path, (mimetype, data) in sorted(expected.items()):
                for method in ('GET', 'HEAD'):
                    del TrackingWrapper.instances[:]
                    status, headers, body = call_wsgi(app, path, method,
                                                      file_wrapper=wrapper)
                    assert status == '200 OK', (path, method, status)
                    ctype = headers['Content-Type'].split(';')[0]
                    assert ctype == mimetype, (path, ctype)
                    assert headers['Content-Length'] == str(len(data))
                    assert 'Last-Modified' in headers
                    assert body == (data if method == 'GET' else b''), path
                    if wrapper is not None:
                        assert len(TrackingWrapper.instances) == 1
                        tracked = TrackingWrapper.instances[0]
                        assert tracked.closed and tracked.file_obj.closed
                        assert tracked.file_obj.name == os.path.join(
                            root, {'/hello': 'hello.txt',
                                   '/typed': 'noext_bin'}.get(
                                       path, path[len('/static/'):]))

        assert call_wsgi(app, '/hello')[1]['Cache-Control'] == \
            'max-age=%s' % DEFAULT_MAX_AGE
        assert call_wsgi(app, '/typed')[1]['Cache-Control'] == 'max-age=0'

        # 304, 404, 403, 405
        far_future = 'Fri, 01 Jan 2100 00:00:00 GMT'
        for path in ('/hello', '/static/page.html'):
            del TrackingWrapper.instances[:]
            status, headers, body = call_wsgi(
                app, path, headers={'If-Modified-Since': far_future},
                file_wrapper=TrackingWrapper)
            assert status == '304 NOT MODIFIED', status
            assert body == b''
            assert not TrackingWrapper.instances  # nothing was opened
            status, headers, body = call_wsgi(
                app, path,
                headers={'If-Modified-Since': 'Thu, 01 Jan 1970 00:00:01 GMT'})
            assert status == '200 OK' and body

        for path in ('/missing', '/static/nope.txt', '/static/sub',
                     '/static/sub/', '/nowhere'):
            for method in ('GET', 'HEAD'):
                status, headers, body = call_wsgi(app, path, method)
                assert status == '404 NOT FOUND', (path, status)
                assert (body == b'') == (method == 'HEAD')
        for path in ('/static/../secret', '/static/sub/../../../etc/passwd'):
            status, headers, body = call_wsgi(app, path)
            assert status.startswith(('403', '404')), (path, status)
        status, headers, body = call_wsgi(app, '/hello', 'POST')
        assert status == '200 OK' and body == files['hello.txt']

        # --- build_file_response directly --------------------------------
        resp = build_file_response(os.path.join(root, 'noext_bin'),
                                   file_wrapper=TrackingWrapper)
        wrapper_obj = resp.response
        assert isinstance(wrapper_obj, TrackingWrapper)
        assert wrapper_obj.file_obj.tell() == 0  # the peek was undone
        assert not wrapper_obj.file_obj.closed
        resp.close()
        assert wrapper_obj.closed and wrapper_obj.file_obj.closed
    finally:
        shutil.rmtree(root)
    print('PASS')


if __name__ == '__main__':
    main()
    sys.exit(0)
