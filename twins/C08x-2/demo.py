# -*- coding: utf-8 -*-
"""C08: every request gets a response; uncaught failures become the handler's 500.

Standalone: prints PASS and exits 0 (on clean code and with the patch applied).
"""
import json
import sys

from werkzeug.test import EnvironBuilder, run_wsgi_app
from werkzeug.wrappers import Response

import clastic
from clastic import Application, Route, GET, POST, render_basic
from clastic import errors as E
from clastic.errors import (ErrorHandler, ContextualErrorHandler, HTTPException,
                            MIME_SUPPORT_MAP)
from clastic.middleware import Middleware
# every public import path of the mechanism keeps working
from clastic.application import (default_render_error, DispatchState,
                                 RerouteWSGI, MIME_SUPPORT_MAP as APP_MSM)
from clastic.route import BoundRoute, NullRoute, normalize_path

assert APP_MSM is MIME_SUPPORT_MAP
assert callable(default_render_error)

ACCEPTS = [None, 'text/plain', 'text/html', 'application/json', 'application/xml',
           '*/*', 'image/png', 'text/html;q=0.1, application/json;q=0.9', 'garbage', '']
CTYPES = {'text/plain', 'text/html', 'application/json', 'application/xml'}


class Unprintable(Exception):
    def __repr__(self):
        raise RuntimeError('no repr')
    __str__ = __repr__


EXC_FACTORIES = [
    lambda: RuntimeError(), lambda: ValueError('not in my house'), lambda: KeyError('k'),
    lambda: ZeroDivisionError('div'), lambda: TypeError(u'sn\xf6wman ☃'),
    lambda: AttributeError('x' * 50000), lambda: OSError(2, 'nope'), lambda: LookupError(),
    lambda: UnicodeDecodeError('utf8', b'\xff', 0, 1, 'bad'), lambda: AssertionError(0),
    lambda: StopIteration(), lambda: NotImplementedError(''), lambda: MemoryError(),
    lambda: Exception(None), lambda: Exception(b'\xff\xfe'), lambda: Exception(u'\udcff'),
]

HTTP_EXC_TYPES = sorted(set(v for v in vars(E).values()
                            if isinstance(v, type) and issubclass(v, HTTPException)
                            and v.code), key=lambda t: (t.code, t.__name__))
assert len(HTTP_EXC_TYPES) > 30


def call(app, path='/', method='GET', accept=None, query=None):
    headers = {} if accept is None else {'Accept': accept}
    env = EnvironBuilder(path=path, method=method, headers=headers,
                         query_string=query).get_environ()
    app_iter, status, headers = run_wsgi_app(app, env, buffered=True)
    body = b''.join(app_iter)
    code = int(status.split(' ', 1)[0])
    return code, status, dict(headers), body


def check_complete(res, code=None):
    rcode, status, headers, body = res
    assert isinstance(body, bytes)
    assert 'Content-Type' in headers, headers
    if code is not None:
        assert rcode == code, (rcode, code, body[:200])
    return res


def raiser(factory):
    def ep():
        raise factory()
    return ep


def returner(value):
    def ep():
        return value
    return ep


class FailingMW(Middleware):
    """Fails in the phase named by *where* (request / endpoint / render)."""
    def __init__(self, where, factory):
        self.where, self.factory = where, factory

    def request(self, next):
        if self.where == 'request':
            raise self.factory()
        return next()

    def endpoint(self, next):
        if self.where == 'endpoint':
            raise self.factory()
        return next()

    def render(self, next, context):
        if self.where == 'render':
            raise self.factory()
        return next()


class PassMW(Middleware):
    def __init__(self, tag):
        self.tag = tag

    def request(self, next):
        return next()


class ReraiseHandler(ErrorHandler):
    def __init__(self):
        ErrorHandler.__init__(self, reraise_uncaught=True)


class BrokenRender(ErrorHandler):
    def render_error(self, **kwargs):
        1 / 0


class OtherErrorRender(ErrorHandler):
    def render_error(self, _error, request, **kwargs):
        return E.BadGateway()


class RaisingErrorRender(ErrorHandler):
    def render_error(self, _error, **kwargs):
        raise _error


class ResourceRender(ErrorHandler):
    def render_error(self, _error, request, seen, _route, _application, _dispatch_state):
        seen.append((type(_error).__name__, type(_route).__name__))
        assert isinstance(_dispatch_state, DispatchState)
        assert _application.error_handler is self
        return ErrorHandler.render_error(self, request, _error)


def handlers():
    return [('default', lambda: None, {}), ('debug', lambda: None, {'debug': True}),
            ('ctx', ContextualErrorHandler, {}),
            ('ctx-nohide', lambda: ContextualErrorHandler(hide_internal_frames=False), {}),
            ('broken', BrokenRender, {}), ('raising', RaisingErrorRender, {})]


def test_uncaught_everywhere():
    for hname, hfactory, kw in handlers():
        for factory in EXC_FACTORIES:
            app = Application([('/', raiser(factory), render_basic)],
                              error_handler=hfactory(), **kw)
            for accept in ACCEPTS:
                code, status, headers, body = check_complete(call(app, accept=accept), 500)
                assert headers['Content-Type'].split(';')[0] in CTYPES
                assert status.startswith('500 ')
                if accept == 'application/json':
                    data = json.loads(body.decode('utf8'))
                    assert data['code'] == 500
                    assert type(factory()).__name__ in json.dumps(data)
        # unprintable exceptions still give a 500
        app = Application([('/', raiser(Unprintable), render_basic)],
                          error_handler=hfactory(), **kw)
        check_complete(call(app), 500)


def test_non_response_results():
    for hname, hfactory, kw in handlers():
        for value in [None, 0, 3.5, '', 'text', b'bytes', {}, {'a': 1}, [], object(), True]:
            app = Application([GET('/', returner(value))], error_handler=hfactory(), **kw)
            code, _, _, body = check_complete(call(app, accept='text/plain'), 500)
            assert b'TypeError' in body and b'expected Response' in body, body[:300]
        # with a renderer the same values are fine (or at least complete)
        for value in ['text', {'a': 1}, 0, []]:
            app = Application([GET('/', returner(value), render_basic)],
                              error_handler=hfactory(), **kw)
            check_complete(call(app), 200)
        app = Application([GET('/', returner(Response('ok', status=201)))],
                          error_handler=hfactory(), **kw)
        assert check_complete(call(app), 201)[3] == b'ok'


def test_http_exceptions_raised_and_returned():
    for hname, hfactory, kw in handlers():
        if hname == 'raising':
            continue
        for exc_type in HTTP_EXC_TYPES:
            for make_ep in (lambda: raiser(exc_type), lambda: returner(exc_type())):
                app = Application([('/', make_ep(), render_basic)],
                                  error_handler=hfactory(), **kw)
                for accept in (None, 'application/json', 'text/html'):
                    code, status, headers, body = check_complete(
                        call(app, accept=accept), exc_type.code)
                    if accept == 'application/json':
                        assert json.loads(body.decode('utf8'))['code'] == exc_type.code
    # an error renderer that re-raises the error -> default rendering, same status
    for exc_type in HTTP_EXC_TYPES:
        app = Application([('/', raiser(exc_type), render_basic)],
                          error_handler=RaisingErrorRender())
        code, _, _, body = check_complete(call(app, accept='application/json'), exc_type.code)
        assert json.loads(body.decode('utf8'))['message'] == exc_type.message
    # a renderer returning another error
    app = Application([('/', raiser(ValueError), render_basic),
                       ('/t', raiser(E.ImATeapot), render_basic)],
                      error_handler=OtherErrorRender())
    check_complete(call(app), 502)
    check_complete(call(app, '/t'), 502)
    check_complete(call(app, '/missing'), 502)


def test_non_breaking_and_sentinel():
    def nb(code_type):
        def ep():
            raise code_type(is_breaking=False)
        return ep

    def ok():
        return Response('fine')

    for hname, hfactory, kw in handlers():
        # non-breaking error followed by a working route: the later route answers
        app = Application([GET('/', nb(E.Forbidden)), GET('/', ok)],
                          error_handler=hfactory(), **kw)
        assert check_complete(call(app), 200)[3] == b'fine'
        # only non-breaking errors: the last one is the answer
        app = Application([GET('/', nb(E.Forbidden)), GET('/', nb(E.Gone))],
                          error_handler=hfactory(), **kw)
        check_complete(call(app), 410)
        # non-breaking then uncaught failure
        app = Application([GET('/', nb(E.Forbidden)), GET('/', raiser(KeyError))],
                          error_handler=hfactory(), **kw)
        check_complete(call(app), 500)
        # returned (not raised) non-breaking
        app = Application([GET('/', returner(E.Conflict(is_breaking=False))), GET('/', ok)],
                          error_handler=hfactory(), **kw)
        check_complete(call(app), 200)
        # 404 and 405, any method / path
        app = Application([POST('/p', ok), GET('/g/<n:int>', ok), GET('/dir/', ok)],
                          error_handler=hfactory(), **kw)
        for accept in ACCEPTS:
            check_complete(call(app, '/nowhere', accept=accept), 404)
            res = check_complete(call(app, '/p', accept=accept), 405)
            assert 'POST' in res[2].get('Allow', '')
        check_complete(call(app, '/g/notint'), 404)
        check_complete(call(app, '/g/7', method='DELETE'), 405)
        check_complete(call(app, u'/sn\xf6w/☃'), 404)
        check_complete(call(app, '//'), 404)
        res = check_complete(call(app, '/dir', query='a=1&b=%ff'))
        assert res[0] in (301, 302, 308) and res[2]['Location'].endswith('/dir/?a=1&b=%ff'), res


def test_middleware_positions():
    def ok():
        return 'fine'

    for where in ('request', 'endpoint', 'render'):
        for pos in range(4):
            for factory, expected in [(lambda: ValueError('mw'), 500),
                                      (E.ServiceUnavailable, 503), (E.NotFound, 404)]:
                mws = [PassMW(i) for i in range(3)]
                mws.insert(pos, FailingMW(where, factory))
                for hname, hfactory, kw in handlers():
                    app = Application([('/', ok, render_basic)], middlewares=mws,
                                      error_handler=hfactory(), **kw)
                    check_complete(call(app, accept='text/html'), expected)


def test_reraise_and_recovery():
    counter = {'n': 0}

    def flaky():
        counter['n'] += 1
        if counter['n'] % 2:
            raise factory_holder[0]()
        return Response('even')

    factory_holder = [None]
    for factory in EXC_FACTORIES:
        counter['n'] = 0
        factory_holder[0] = factory
        app = Application([GET('/', flaky)], error_handler=ReraiseHandler())
        n_routes = len(app.routes)
        for i in range(4):
            try:
                res = call(app)
            except Exception as e:
                assert i % 2 == 0
                assert type(e) is type(factory()), (e, factory())
            else:
                assert i % 2 == 1 and res[0] == 200 and res[3] == b'even'
        # HTTPExceptions are not "uncaught": never re-raised
        app2 = Application([GET('/', raiser(E.Gone)), GET('/n', returner(None))],
                           error_handler=ReraiseHandler())
        check_complete(call(app2), 410)
        check_complete(call(app2, '/zzz'), 404)
        try:
            call(app2, '/n')
        except TypeError as te:
            assert 'expected Response' in str(te)
        else:
            raise AssertionError('TypeError should have been re-raised')
        assert len(app.routes) == n_routes

    # sequences of failing and succeeding requests against one application
    seen = []
    app = Application([GET('/ok', lambda: Response('ok')), GET('/boom', raiser(RuntimeError)),
                       GET('/tea', raiser(E.ImATeapot)), GET('/none', returner(None))],
                      resources={'seen': seen}, error_handler=ResourceRender())
    state = (list(app.routes), dict(app.resources), app.error_handler)
    expect = {'/ok': 200, '/boom': 500, '/tea': 418, '/none': 500, '/nf': 404}
    for rnd in range(3):
        for path, code in sorted(expect.items()):
            check_complete(call(app, path), code)
        check_complete(call(app, '/ok', method='POST'), 405)
    assert (list(app.routes), dict(app.resources, seen=seen), app.error_handler) == \
        (state[0], dict(state[1], seen=seen), state[2])
    assert len(seen) == 3 * 5
    assert ('NotFound', 'BoundRoute') in seen and ('MethodNotAllowed', 'BoundRoute') in seen
    assert ('InternalServerError', 'BoundRoute') in seen and ('ImATeapot', 'BoundRoute') in seen


def test_execute_error_and_default_render_direct():
    app = Application([GET('/', raiser(ValueError))], resources={'res': 1})
    route = app.routes[0]
    env = EnvironBuilder(path='/', headers={'Accept': 'application/json'}).get_environ()
    req = app.request_type(env)
    err = E.Gone('bye')
    # the default rendering returns the very same (adapted) object, extra kwargs ignored
    assert default_render_error(req, err, anything=1, _route=route) is err
    assert err.headers['Content-Type'].startswith('application/json')
    assert default_render_error(request=req, _error=err) is err
    # execute_error injects into the handler's render_error and returns its result
    err2 = E.Conflict()
    assert route.execute_error(req, err2, _dispatch_state=DispatchState()) is err2
    assert json.loads(err2.get_data(True))['code'] == 409
    # route without a callable render_error: TypeError (dispatch then falls back)
    saved = route.render_error
    for bad in (None, 0, 'nope'):
        route.render_error = bad
        try:
            route.execute_error(req, E.Gone())
        except TypeError as te:
            assert str(te) == 'render_error not set or not callable'
        else:
            raise AssertionError('expected TypeError')
        check_complete(call(app, accept='application/xml'), 500)
        check_complete(call(app, '/nf'), 404)
    route.render_error = saved
    # kwargs beat resources beat builtins in the injectables (resource named like a builtin)
    got = []

    def ep(request, res, _route, _application):
        got.append((res, _route, _application))
        return Response('x')
    app = Application([GET('/', ep)], resources={'res': 'from-resources'})
    check_complete(call(app, '/'), 200)
    assert got.pop() == ('from-resources', app.routes[0], app)
    resp = app.routes[0].execute(req, res='from-kwargs', _application='fake-app')
    assert isinstance(resp, Response)
    assert got.pop() == ('from-kwargs', app.routes[0], 'fake-app')
    assert app.routes[0].resources == {'res': 'from-resources'}  # not mutated
    # DispatchState bookkeeping
    ds = DispatchState()
    ds.update_methods(None)
    ds.update_methods(['GET'])
    ds.update_methods({'POST'})
    ds.add_exception('e1')
    ds.add_route('r1')
    assert (ds.exceptions, ds.allowed_methods, ds.attempted_routes) == \
        (['e1'], {'GET', 'POST'}, ['r1'])
    assert repr(ds).startswith("<DispatchState exceptions=['e1'] allowed_methods=")


def test_reroute_wsgi():
    def other(environ, start_response):
        start_response('202 Accepted', [('Content-Type', 'text/plain')])
        return [b'other']
    for hname, hfactory, kw in handlers():
        app = Application([('/raise', RerouteWSGI(other)),
                           GET('/boom', raiser(ValueError))], error_handler=hfactory(), **kw)
        assert check_complete(call(app, '/raise'), 202)[3] == b'other'
        check_complete(call(app, '/boom'), 500)


def test_handler_types_and_kwargs():
    """What patch2 touches: the kwargs the handlers pass to their types."""
    from clastic.route import S_STRICT
    recorded = []

    class RecordingISE(E.InternalServerError):
        def __init__(self, detail=None, **kwargs):
            recorded.append((detail, dict(kwargs)))
            E.InternalServerError.__init__(self, detail, **kwargs)

    class RecordingCISE(E.ContextualInternalServerError):
        def __init__(self, *a, **kw):
            recorded.append((a[0], dict(kw)))
            E.ContextualInternalServerError.__init__(self, *a, **kw)

    class RecordingNF(E.NotFound):
        def __init__(self, *a, **kw):
            recorded.append((a, dict(kw)))
            E.NotFound.__init__(self, *a, **kw)

    class PlainH(ErrorHandler):
        server_error_type = RecordingISE
        not_found_type = RecordingNF

    class CtxH(ContextualErrorHandler):
        server_error_type = RecordingCISE

    app = Application([GET('/', raiser(lambda: ValueError('v')))], error_handler=PlainH())
    check_complete(call(app), 500)
    detail, kw = recorded.pop()
    assert sorted(kw) == ['exc_info', 'source_route'] and kw['source_route'] is app.routes[0]
    assert detail == repr(kw['exc_info']) and kw['exc_info'].exc_type == 'ValueError'
    check_complete(call(app, '/x'), 404)
    a, kw = recorded.pop()
    assert a == () and sorted(kw) == ['application', 'dispatch_state', 'request']
    assert kw['application'] is app and isinstance(kw['dispatch_state'], DispatchState)

    for hide in (True, False):
        h = CtxH(hide_internal_frames=hide)
        assert h.hide_internal_frames is hide and not h.reraise_uncaught
        app = Application([GET('/', raiser(KeyError))], error_handler=h)
        code, _, _, body = check_complete(call(app, accept='application/json'), 500)
        detail, kw = recorded.pop()
        assert sorted(kw) == ['exc_info', 'hide_internal_frames', 'request', 'source_route']
        assert kw['hide_internal_frames'] is hide and kw['request'].path == '/'
        assert kw['source_route'] is app.routes[0] and detail == repr(kw['exc_info'])
        data = json.loads(body.decode('utf8'))
        assert data['exc_type'] == 'KeyError' and data['req']['path'] == '/'
        hidden = [f for f in data['exc_tb']['frames'] if f.get('is_hidden')]
        assert bool(hidden) is hide, (hide, len(hidden))
    assert (ContextualErrorHandler.not_found_type, ContextualErrorHandler.exc_info_type,
            ContextualErrorHandler.server_error_type) == \
        (E.ContextualNotFound, E.ContextualExceptionInfo, E.ContextualInternalServerError)
    # a contextual handler re-raising is not a thing: reraise_uncaught is ignored by it
    app = Application([GET('/', raiser(KeyError))],
                      error_handler=ContextualErrorHandler(reraise_uncaught=True))
    check_complete(call(app), 500)

    # strict slashes: the 404 comes from the handler's not_found_type, with its kwargs
    def ok():
        return Response('ok')
    # (strict regexes never get there, so flip the mode of a lenient bound route)
    app = Application([GET('/dir/', ok)], error_handler=PlainH())
    assert check_complete(call(app, '/dir'))[0] in (301, 302, 308)
    app.routes[0].slash_mode = S_STRICT
    check_complete(call(app, '/dir/'), 200)
    del recorded[:]
    check_complete(call(app, '/dir'), 404)
    a, kw = recorded[0]
    assert a == () and sorted(kw) == ['application', 'request', 'source_route']
    assert kw['source_route'] is app.routes[0] and kw['application'] is app
    assert len(recorded) == 1  # the recorded non-breaking 404 is the one returned
    # rerouting passes environ and start_response through unchanged
    seen_env = []

    def other(environ, start_response):
        seen_env.append(environ)
        start_response('200 OK', [('Content-Type', 'text/plain')])
        return [b'o']
    app = Application([('/r', RerouteWSGI(other))])
    assert check_complete(call(app, '/r'), 200)[3] == b'o'
    assert seen_env[0]['PATH_INFO'] == '/r'


def main():
    tests = [v for k, v in sorted(globals().items()) if k.startswith('test_')]
    for t in tests:
        t()
    print('PASS')
    return 0


if __name__ == '__main__':
    sys.exit(main())
