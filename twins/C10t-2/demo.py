# -*- coding: utf-8 -*-
"""Demo for property C10: embedding a sub-application == declaring its routes flat.

Standalone: builds random trees of Applications (depth <= 3), embeds them, and
compares every response (status, body, Location, middleware trace) with an
independently flattened declaration.  A focused section then pins down the
behaviour of the part of the mechanism touched by the refactoring.
"""
import os
import sys
import random
import hashlib

sys.path.insert(0, os.path.dirname(os.path.abspath(__file__)))

from werkzeug.wrappers import Response

import clastic
from clastic import (Application, SubApplication, Route, GET, POST, Middleware,
                     S_REDIRECT, S_REWRITE, S_STRICT)
from clastic.application import cast_to_route_factory
from clastic.route import BoundRoute, NullRoute, _noop_render
from clastic.middleware import merge_middlewares
from clastic.errors import ErrorHandler, Forbidden, NotFound

FOCUS = 2
SEED = 1010 + FOCUS
N_TREES = 40

assert os.path.dirname(os.path.abspath(clastic.__file__)).startswith(
    os.path.dirname(os.path.abspath(__file__))), clastic.__file__

TRACE = []


# ---------------------------------------------------------------- middlewares
class TraceMW(Middleware):
    def __init__(self, tag):
        self.tag = tag

    def request(self, next):
        TRACE.append('>' + self.tag)
        try:
            return next()
        finally:
            TRACE.append('<' + self.tag)


class MwA(TraceMW):
    pass


class MwB(TraceMW):
    pass


class MwC(TraceMW):
    pass


class MwN(TraceMW):
    unique = False   # kept every time it is listed


class MwShared(TraceMW):
    # records the value of the resource it sees at request time
    def request(self, next, shared):
        TRACE.append('>%s[shared=%s]' % (self.tag, shared))
        try:
            return next()
        finally:
            TRACE.append('<' + self.tag)


class MwStuck(TraceMW):
    reorderable = False


MW_POOL = [MwA, MwB, MwC, MwN]


# ------------------------------------------------------------------ endpoints
def ep_plain():
    return 'plain'


def ep_shared(shared):
    return 'shared=%s' % (shared,)


def ep_r0(r0, shared):
    return 'r0=%s shared=%s' % (r0, shared)


def ep_r1(r1):
    return 'r1=%s' % (r1,)


def ep_r2(r2):
    return 'r2=%s' % (r2,)


def ep_r3(r3):
    return 'r3=%s' % (r3,)


def ep_rr(rr):
    return 'rr=%s' % (rr,)


def ep_item(item_id, request):
    return 'item=%r method=%s' % (item_id, request.method)


def ep_resp():
    return Response('direct-response', status=201)


def ep_boom():
    raise ValueError('boom')


def ep_forbidden():
    raise Forbidden()


def ep_app(_application, _route):
    # which application / pattern does the endpoint see?
    return 'app=%s pattern=%s' % (_application.resources.get('name'), _route.pattern)


EP_LEVEL = {0: ep_r0, 1: ep_r1, 2: ep_r2, 3: ep_r3}


def explicit_render(context):
    return Response('explicit:%s' % (context,))


def make_factory(tag):
    def factory(arg):
        def render(context):
            return Response('%s<%s>:%s' % (tag, arg, context))
        return render
    return factory


# -------------------------------------------------------------- error handlers
class TaggedHandler(ErrorHandler):
    def __init__(self, tag, **kw):
        ErrorHandler.__init__(self, **kw)
        self.tag = tag

    def render_error(self, request, _error):
        return Response('EH[%s]:%s' % (self.tag, _error.code), status=_error.code)


class SharedHandler(TaggedHandler):
    # needs a resource of the serving application
    def render_error(self, request, _error, shared):
        return Response('EH[%s]:%s:shared=%s' % (self.tag, _error.code, shared),
                        status=_error.code)


# ----------------------------------------------------------------- tree model
class Level(object):
    def __init__(self, depth, name):
        self.depth = depth
        self.name = name
        self.prefix = ''
        self.rebind_render = False
        self.inherit_slashes = True
        self.use_tuple = False
        self.resources = {}
        self.mws = []           # [(cls, tag)]
        self.slash_mode = S_REDIRECT
        self.factory_tag = None
        self.handler = None     # (cls, tag) or None
        self.entries = []       # [('route', spec) | ('sub', Level)]

    def make_mws(self):
        return [cls(tag) for cls, tag in self.mws]

    def make_factory(self):
        return make_factory(self.factory_tag) if self.factory_tag else None

    def make_handler(self):
        if self.handler is None:
            return None
        cls, tag = self.handler
        return cls(tag)


def random_route_spec(rng, level, idx):
    has_shared = 'shared' in level.resources
    choices = [ep_plain, ep_item, ep_resp, ep_boom, ep_forbidden, ep_app,
               EP_LEVEL[level.depth], ep_rr]
    if has_shared:
        choices += [ep_shared, ep_shared]
    ep = rng.choice(choices)
    seg = 'p%d%d' % (level.depth, idx)
    pattern = rng.choice(['/%s', '/%s/', '/%s/sub', '/%s/sub/']) % seg
    if ep is ep_item:
        pattern = rng.choice(['/%s/<item_id:int>', '/%s/<item_id:int>/',
                              '/%s/<item_id?int>']) % seg
    if idx == 0 and rng.random() < 0.3:
        pattern = '/'
        if ep is ep_item:
            ep = ep_plain
    spec = {'pattern': pattern, 'ep': ep, 'methods': rng.choice([None, None, ('GET',), ('POST',)]),
            'mws': [], 'resources': {}}
    if ep is ep_resp:
        spec['render'] = None
    else:
        spec['render'] = rng.choice(['tmpl%d' % idx, 'tmpl%d' % idx, explicit_render, None])
    if ep is ep_rr:
        spec['resources'] = {'rr': 'rr@%s/%d' % (level.name, idx)}
    if rng.random() < 0.3:
        cls = rng.choice(MW_POOL)
        spec['mws'] = [(cls, '%s@%s.route%d' % (cls.__name__, level.name, idx))]
    return spec


def random_level(rng, depth, name, max_depth):
    lvl = Level(depth, name)
    lvl.prefix = rng.choice(['/', '/x%d' % depth, '/x%d/' % depth, '/y%d/z' % depth, '/y%d/z/' % depth])
    lvl.rebind_render = rng.random() < 0.4
    lvl.inherit_slashes = rng.random() < 0.6
    lvl.use_tuple = rng.random() < 0.5
    lvl.resources = {'r%d' % depth: 'r%d@%s' % (depth, name), 'name': name}
    if depth == 0 or rng.random() < 0.6:
        lvl.resources['shared'] = 'shared@%s' % name
    for cls in MW_POOL:
        if rng.random() < 0.45:
            lvl.mws.append((cls, '%s@%s' % (cls.__name__, name)))
    rng.shuffle(lvl.mws)
    if rng.random() < 0.2:
        lvl.mws.append((MwN, 'MwN@%s#2' % name))
    if 'shared' in lvl.resources and rng.random() < 0.5:
        # a unique type that several levels may list, reading a resource
        lvl.mws.insert(rng.randrange(len(lvl.mws) + 1), (MwShared, 'MwShared@%s' % name))
    lvl.slash_mode = rng.choice([S_REDIRECT, S_REWRITE, S_STRICT])
    if rng.random() < 0.6:
        lvl.factory_tag = 'F%s' % name
    if depth == 0:
        lvl.handler = rng.choice([(SharedHandler, 'H' + name), (TaggedHandler, 'H' + name),
                                  (SharedHandler, 'H' + name), None])
    else:
        lvl.handler = rng.choice([(TaggedHandler, 'H' + name), None])
    n_routes = rng.randint(1, 3)
    for i in range(n_routes):
        lvl.entries.append(('route', random_route_spec(rng, lvl, i)))
    if depth < max_depth:
        for j in range(rng.choice([1, 1, 2]) if depth < 2 else rng.choice([0, 1])):
            child = random_level(rng, depth + 1, '%s%d' % (name, j), max_depth)
            lvl.entries.insert(rng.randrange(len(lvl.entries) + 1), ('sub', child))
    return lvl


def make_route(spec, **extra):
    kw = dict(render=spec['render'], middlewares=[cls(tag) for cls, tag in spec['mws']],
              resources=dict(spec['resources']))
    if spec['methods']:
        kw['methods'] = spec['methods']
    kw.update(extra)
    return Route(spec['pattern'], spec['ep'], **kw)


def build_nested(level):
    entries = []
    for kind, item in level.entries:
        if kind == 'route':
            entries.append(make_route(item))
            continue
        child_app = build_nested(item)
        if item.use_tuple and not item.rebind_render and item.inherit_slashes:
            entries.append((item.prefix, child_app))      # -> cast_to_route_factory
        elif item.use_tuple:
            entries.append([item.prefix, child_app, item.rebind_render, item.inherit_slashes])
        else:
            entries.append(SubApplication(item.prefix, child_app,
                                          rebind_render=item.rebind_render,
                                          inherit_slashes=item.inherit_slashes))
    return Application(entries, resources=dict(level.resources), middlewares=level.make_mws(),
                       render_factory=level.make_factory(), error_handler=level.make_handler(),
                       slash_mode=level.slash_mode)


# ------------------------------------------------- independent flat declaration
def iter_flat(level, chain=()):
    chain = chain + (level,)
    for kind, item in level.entries:
        if kind == 'route':
            yield chain, item
        else:
            for x in iter_flat(item, chain):
                yield x


def flat_middlewares(chain, spec):
    top = chain[0]
    kept = [cls for cls, _ in top.mws]
    out = []
    listed = []
    for lvl in chain[1:]:
        listed.extend(lvl.mws)
    listed.extend(spec['mws'])
    for cls, tag in listed:
        if cls.unique and cls in kept:
            continue
        kept.append(cls)
        out.append((cls, tag))
    return out


def flat_render(chain, spec):
    render = spec['render']
    if callable(render) or render is None:
        return render
    cur = None
    bound = []
    inner_to_outer = list(reversed(chain))
    for i, lvl in enumerate(inner_to_outer):
        bound.append(lvl)
        rebind = True if i == 0 else inner_to_outer[i - 1].rebind_render
        with_factory = [l for l in bound if l.factory_tag]
        if (rebind or cur is None) and with_factory:
            cur = with_factory[-1]
    if cur is None:
        return None
    return make_factory(cur.factory_tag)(render)


def flat_slash(chain):
    eff = chain[-1].slash_mode
    for i in range(len(chain) - 2, -1, -1):
        if chain[i + 1].inherit_slashes:
            eff = chain[i].slash_mode
    return eff


def build_flat(top):
    flat = Application([], resources=dict(top.resources), middlewares=top.make_mws(),
                       render_factory=None, error_handler=top.make_handler(),
                       slash_mode=top.slash_mode)
    patterns = []
    for chain, spec in iter_flat(top):
        prefix = ''.join(l.prefix.rstrip('/') for l in chain[1:])
        resources = {}
        for lvl in chain[1:]:
            for k, v in lvl.resources.items():
                resources.setdefault(k, v)
        resources.update(spec['resources'])
        fspec = dict(spec, pattern=prefix + spec['pattern'], render=flat_render(chain, spec),
                     mws=flat_middlewares(chain, spec), resources=resources)
        flat.add(make_route(fspec, slash_mode=flat_slash(chain)), inherit_slashes=False)
        patterns.append(fspec['pattern'])
    return flat, patterns


# ------------------------------------------------------------ request catalogue
def concrete_paths(pattern):
    outs = set()
    for good in ('7', 'x', ''):
        p = pattern
        for binding in ('<item_id:int>', '<item_id?int>'):
            p = p.replace(binding, good)
        p = p.replace('//', '/') if good == '' else p
        outs.add(p)
    res = set()
    for p in outs:
        res.add(p)
        res.add(p + '/')
        res.add(p.rstrip('/') or '/')
        res.add(p[:1] + p[1:].replace('/', '//', 2))
        res.add(p.rstrip('/') + '/extra')
        res.add(p + '%20')
    return res


def catalogue(patterns):
    paths = set(['/', '/nope', '/nope/', '//', '/x1', '/x1/', '/y1/z', '/y1'])
    for pat in patterns:
        paths |= concrete_paths(pat)
    reqs = []
    for p in sorted(paths):
        reqs.append(('GET', p, ''))
        reqs.append(('POST', p, ''))
    for p in sorted(paths)[::5]:
        reqs.append(('GET', p, 'q=1&r=%2F'))
        reqs.append(('HEAD', p, ''))
        reqs.append(('DELETE', p, ''))
    return reqs


def observe(app, method, path, query):
    del TRACE[:]
    client = app.get_local_client()
    resp = client.open(path=path, method=method, query_string=query)
    body = resp.get_data(as_text=True)
    allow = resp.headers.get('Allow')
    if allow:
        # the allowed methods are a set: make the observation hash-seed independent
        allow = ','.join(sorted(m.strip() for m in allow.split(',')))
        if not body.startswith('EH['):
            body = '<default 405 page>'
    return (resp.status_code, body, resp.headers.get('Location'), allow, tuple(TRACE))


def compare_tree(top, digest):
    nested = build_nested(top)
    flat, patterns = build_flat(top)
    assert [r.pattern for r in nested.routes] == patterns, (
        [r.pattern for r in nested.routes], patterns)
    for nr, fr in zip(nested.routes, flat.routes):
        assert nr.slash_mode == fr.slash_mode, (nr.pattern, nr.slash_mode, fr.slash_mode)
        assert [m.tag for m in nr.middlewares] == [m.tag for m in fr.middlewares], nr.pattern
        assert nr.methods == fr.methods
        assert nr.bound_apps[-1] is nested
        assert sorted(nr.get_required_args()) == sorted(fr.get_required_args())
    n = 0
    for method, path, query in catalogue(patterns):
        got = observe(nested, method, path, query)
        want = observe(flat, method, path, query)
        assert got == want, (top.name, method, path, query, got, want)
        status = got[0]
        rec = got if status < 500 or got[1].startswith('EH[') else (status,) + got[2:]
        digest.update(repr((method, path, query, rec)).encode('utf8'))
        n += 1
    return n


def run_random_trees():
    rng = random.Random(SEED)
    digest = hashlib.sha256()
    total = 0
    for t in range(N_TREES):
        top = random_level(rng, 0, 'T%d' % t, max_depth=rng.choice([1, 2, 3]))
        top.prefix = ''
        total += compare_tree(top, digest)
    return total, digest.hexdigest()


# ------------------------------------------------------------- fixed scenarios
def fixed_scenarios():
    # depth 2, resource precedence in both directions, mw order, error handler
    inner2 = Application([('/leaf', ep_shared, 'leaf'), ('/r2', ep_r2, 'r2t'),
                          ('/who', ep_app, 'who'), ('/boom', ep_boom, 'b')],
                         resources={'shared': 'inner2', 'r2': 'two', 'name': 'inner2'},
                         middlewares=[MwB('B2'), MwShared('S2'), MwC('C2')],
                         render_factory=make_factory('F2'), slash_mode=S_STRICT,
                         error_handler=TaggedHandler('H2'))
    inner1 = Application([('/own/', ep_r1, 'own'), ('/deep/', inner2)],
                         resources={'r1': 'one', 'shared': 'inner1', 'name': 'inner1'},
                         middlewares=[MwA('A1'), MwB('B1')],
                         render_factory=make_factory('F1'),
                         error_handler=TaggedHandler('H1'))
    outer = Application([('/top', ep_r0, 'top'), ('/mid', inner1), ('/late', ep_plain, 'late')],
                        resources={'shared': 'outer', 'r0': 'zero', 'name': 'outer'},
                        middlewares=[MwC('C0'), MwA('A0')],
                        render_factory=make_factory('F0'), slash_mode=S_REDIRECT,
                        error_handler=SharedHandler('H0'))
    assert [r.pattern for r in outer.routes] == [
        '/top', '/mid/own/', '/mid/deep/leaf', '/mid/deep/r2', '/mid/deep/who',
        '/mid/deep/boom', '/late']
    assert [[m.tag for m in r.middlewares] for r in outer.routes[1:3]] == [
        ['C0', 'A0', 'B1'], ['C0', 'A0', 'B1', 'S2']]
    assert all(r.slash_mode == S_REDIRECT for r in outer.routes)
    assert [r.slash_mode for r in inner1.routes] == [S_REDIRECT] * 5
    assert [r.slash_mode for r in inner2.routes] == [S_STRICT] * 4
    assert outer.routes[2].bound_apps == [inner2, inner1, outer]
    assert outer.routes[2].resources == {'shared': 'inner2', 'r2': 'two', 'name': 'inner2',
                                         'r1': 'one', 'r0': 'zero'}

    def get(app, path, method='GET'):
        return observe(app, method, path, '')

    assert get(outer, '/mid/deep/leaf') == (
        200, 'F2<leaf>:shared=outer', None, None,
        ('>C0', '>A0', '>B1', '>S2[shared=outer]', '<S2', '<B1', '<A0', '<C0'))
    # the inner app served on its own keeps its own value
    assert get(inner2, '/leaf')[1] == 'F2<leaf>:shared=inner2'
    assert get(inner1, '/deep/leaf')[1] == 'F2<leaf>:shared=inner1'
    assert get(outer, '/mid/deep/r2')[1] == 'F2<r2t>:r2=two'
    assert get(outer, '/mid/own/')[1] == 'F1<own>:r1=one'
    assert get(outer, '/mid/deep/who')[1] == 'F2<who>:app=outer pattern=/mid/deep/who'
    # slash mode of the outer app (redirect), not strict
    st, body, loc, _, _ = get(outer, '/mid/own')
    assert (st, loc) == (302, 'http://localhost/mid/own/'), (st, loc)
    assert get(outer, '/mid//deep//leaf')[0] == 200
    assert get(inner2, '/leaf/')[0] == 404
    assert get(inner1, '/deep//leaf')[0] == 200
    # outer error handling, with outer resource
    assert get(outer, '/mid/deep/boom')[:2] == (500, 'EH[H0]:500:shared=outer')
    assert get(outer, '/mid/deep/nope')[:2] == (404, 'EH[H0]:404:shared=outer')
    assert get(inner1, '/deep/boom')[:2] == (500, 'EH[H1]:500')
    # outside the prefix unaffected
    assert get(outer, '/top')[1] == 'F0<top>:r0=zero shared=outer'
    assert get(outer, '/late')[1] == 'F0<late>:plain'
    assert get(outer, '/own/')[0] == 404

    # rebind_render / inherit_slashes opt-outs
    outer2 = Application([SubApplication('/a', inner2, rebind_render=True, inherit_slashes=False),
                          SubApplication('/b/', inner2, rebind_render=False, inherit_slashes=True)],
                         resources={'shared': 'o2'}, render_factory=make_factory('FO'),
                         slash_mode=S_REWRITE)
    assert get(outer2, '/a/leaf')[1] == 'FO<leaf>:shared=o2'
    assert get(outer2, '/b/leaf')[1] == 'F2<leaf>:shared=o2'
    assert [r.slash_mode for r in outer2.routes] == [S_STRICT] * 4 + [S_REWRITE] * 4
    assert get(outer2, '/a/leaf/')[0] == 404
    assert get(outer2, '/b/leaf/')[0] == 200
    # prefix '/' merges at the root
    outer3 = Application([('/', inner2)], resources={'shared': 'o3'})
    assert [r.pattern for r in outer3.routes] == ['/leaf', '/r2', '/who', '/boom']
    assert get(outer3, '/leaf')[1] == 'F2<leaf>:shared=o3'


FOCUS_CHECKS = []


def focus(func):
    FOCUS_CHECKS.append(func)
    return func


def expect_exc(exc_type, func, *a, **kw):
    try:
        func(*a, **kw)
    except exc_type as e:
        assert type(e) is exc_type, (type(e), exc_type)
        return e
    except Exception as e:
        raise AssertionError('expected %s, got %r' % (exc_type.__name__, e))
    raise AssertionError('expected %s, nothing raised' % exc_type.__name__)


# ------------------------------------------------------------ focused sections
@focus
def focus_cast_and_bind_all():
    app = Application([('/a', ep_plain, explicit_render)])
    rt = Route('/r', ep_plain)
    sub = SubApplication('/s', app)
    assert cast_to_route_factory(rt) is rt
    assert cast_to_route_factory(sub) is sub
    got = cast_to_route_factory(('/p/', app))
    assert type(got) is SubApplication and got.prefix == '/p' and got.app is app
    assert (got.rebind_render, got.inherit_slashes) == (False, True)
    got = cast_to_route_factory(['/p', app, True, False])
    assert (got.rebind_render, got.inherit_slashes) == (True, False)
    got = cast_to_route_factory(('/q', ep_plain, explicit_render))
    assert type(got) is Route and got.pattern == '/q' and got.render is explicit_render
    # failure modes
    for bad in [('/a', 5), ('/a', None), 'ab', 5, None, {'a': 1}, ('/a', app, 1, 2, 3),
                ('/a', ep_plain, None, None, 'too-many')]:
        e = expect_exc(TypeError, cast_to_route_factory, bad)
        assert str(e) == 'Could not create route from %r' % (bad,), str(e)
    expect_exc(IndexError, cast_to_route_factory, ('/a',))
    expect_exc(IndexError, cast_to_route_factory, [])
    expect_exc(AttributeError, cast_to_route_factory, (5, app))
    expect_exc(clastic.route.InvalidPattern, cast_to_route_factory, ('a', ep_plain))

    # bind_all: NullRoute skipped, prefix forced, defaults, fresh list each time
    target = Application([], resources={'x': 1})
    sub = SubApplication('/s/', app, rebind_render=True, inherit_slashes=False)
    brs = sub.bind_all(target)
    assert isinstance(brs, list) and len(brs) == 1 and sub.bind_all(target) is not brs
    assert brs[0].pattern == '/s/a' and brs[0].bound_apps == [app, target]
    assert sub.bind_all(target, prefix='/ignored')[0].pattern == '/s/a'
    kw = {'rebind_render': False}
    sub.bind_all(target, **kw)
    assert kw == {'rebind_render': False}
    expect_exc(TypeError, sub.bind_all, target, bogus=1)
    assert [r.pattern for r in sub.iter_routes()] == ['/a']
    assert all(not isinstance(r, NullRoute) for r in sub.iter_routes())
    assert target.routes == []

    # Application.add: index handling (positive, negative, None) and kwargs
    two = Application([('/1', ep_plain, explicit_render), ('/2', ep_plain, explicit_render)])
    host = Application([('/h0', ep_plain, explicit_render), ('/h1', ep_plain, explicit_render)])
    host.add(('/m', two), index=1)
    assert [r.pattern for r in host.routes] == ['/h0', '/m/1', '/m/2', '/h1']
    host.add(('/n', two), index=-1)
    assert [r.pattern for r in host.routes] == ['/n/2', '/h0', '/m/1', '/m/2', '/n/1', '/h1']
    host.add(('/z', two))
    assert [r.pattern for r in host.routes][-2:] == ['/z/1', '/z/2']
    host.add(('/o', two), index=0)
    assert [r.pattern for r in host.routes][:2] == ['/o/1', '/o/2']
    strict = Application([], slash_mode=S_STRICT)
    strict.add(Route('/k/', ep_plain, explicit_render, slash_mode=S_REWRITE), inherit_slashes=False)
    strict.add(('/sub', two), inherit_slashes=False)
    strict.add(SubApplication('/sub2', two, inherit_slashes=False), inherit_slashes=True)
    assert [r.slash_mode for r in strict.routes] == [S_REWRITE, S_REDIRECT, S_REDIRECT,
                                                     S_STRICT, S_STRICT]
    expect_exc(TypeError, strict.add, ('/bad', two), bogus=True)
    expect_exc(TypeError, strict.add, Route('/bad', ep_plain), bogus=True)


@focus
def focus_bound_route_init():
    fac_in, fac_out = make_factory('IN'), make_factory('OUT')

    def chain(inner_factory, outer_factory, render, rebind):
        inner = Application([('/e', ep_plain, render)], render_factory=inner_factory)
        outer = Application([SubApplication('/o', inner, rebind_render=rebind)],
                            render_factory=outer_factory)
        br = outer.routes[0]
        body = observe(outer, 'GET', '/o/e', '')
        return br, body[0], body[1]

    br, st, body = chain(fac_in, fac_out, 'T', False)
    assert (st, body) == (200, 'IN<T>:plain') and br.render_factory is fac_in
    br, st, body = chain(fac_in, fac_out, 'T', True)
    assert (st, body) == (200, 'OUT<T>:plain') and br.render_factory is fac_out
    br, st, body = chain(None, fac_out, 'T', False)
    assert (st, body) == (200, 'OUT<T>:plain') and br.render_factory is fac_out
    br, st, body = chain(fac_in, None, 'T', True)
    assert (st, body) == (200, 'IN<T>:plain') and br.render_factory is fac_in
    br, st, body = chain(None, None, 'T', True)
    assert st == 500 and br.render is _noop_render and br.render_factory is None
    br, st, body = chain(fac_in, fac_out, explicit_render, True)
    assert (st, body) == (200, 'explicit:plain') and br.render is explicit_render
    assert br.render_factory is None
    br, st, body = chain(fac_in, fac_out, None, True)
    assert st == 500 and br.render is _noop_render and br.render_factory is None
    # falsy-but-not-None render args are still handed to the factory
    for arg in ('', 0, ()):
        br, st, body = chain(fac_in, fac_out, arg, True)
        assert (st, body) == (200, 'OUT<%s>:plain' % (arg,)), (arg, st, body)
    # non-callable render_factory attributes are skipped
    br, st, body = chain('not-callable', fac_out, 'T', False)
    assert (st, body) == (200, 'OUT<T>:plain')

    # kwargs validation, attribute wiring
    app = Application([], resources={'res': 1, 'shared': 'app'}, middlewares=[MwA('A')],
                      slash_mode=S_STRICT)
    rt = Route('/w/<item_id:int>/', ep_item, explicit_render, resources={'shared': 'route', 'rr': 2},
               middlewares=[MwB('B'), MwA('A-route')], methods=['post'], slash_mode=S_REWRITE)
    expect_exc(TypeError, BoundRoute, rt, app, bogus=1)
    br = BoundRoute(rt, app)
    assert br.unbound_route is rt and br.bound_apps == [app]
    assert br.pattern == '/w/<item_id:int>/' and br.slash_mode == S_STRICT
    assert br.methods == set(['POST']) and br.methods is rt.methods
    assert list(br.path_args) == ['item_id'] and list(br.endpoint_args) == ['item_id', 'request']
    assert br.resources == {'res': 1, 'shared': 'route', 'rr': 2}
    assert br.resources is not app.resources and br.resources is not rt.resources
    assert isinstance(br.middlewares, tuple) and [m.tag for m in br.middlewares] == ['A', 'B']
    assert br.render_error == app.error_handler.render_error
    br2 = BoundRoute(rt, app, prefix='/pre', inherit_slashes=False, rebind_render_error=False,
                     rebind_render=False)
    assert br2.pattern == '/pre/w/<item_id:int>/' and br2.slash_mode == S_REWRITE
    assert br2.render_error is None
    other = Application([], resources={'res': 9, 'more': 3}, middlewares=[MwC('C')])
    br3 = br2.bind(other, prefix='/again')
    assert br3.unbound_route is rt and br3.bound_apps == [app, other]
    assert br2.bound_apps == [app]
    assert br3.pattern == '/again/pre/w/<item_id:int>/' and br3.slash_mode == S_REDIRECT
    assert br3.resources == {'res': 1, 'more': 3, 'shared': 'route', 'rr': 2}
    assert [m.tag for m in br3.middlewares] == ['C', 'A', 'B']
    assert br3.get_required_args() == ['item_id'] and br3.is_required_arg('item_id')
    # order of failure: bad pattern is reported before unresolved arguments
    expect_exc(clastic.route.InvalidPattern, BoundRoute, Route('/ok', ep_r3), app, prefix='nope')
    expect_exc(NameError, BoundRoute, Route('/ok', ep_r3), app)

    # render_error needing a resource that the embedding app lacks -> NameError at embed time
    needy = Application([('/e', ep_plain, explicit_render)], resources={'shared': 1},
                        error_handler=SharedHandler('needy'))
    expect_exc(NameError, Application, [('/x', needy)], error_handler=SharedHandler('t'),
               resources={})
    ok =Application([('/x', needy)], error_handler=SharedHandler('top'), resources={'shared': 2})
    assert observe(ok, 'GET', '/x/nope', '')[:2] == (404, 'EH[top]:404:shared=2')
    # an app-like object without resources / middlewares attributes
    class Bare(object):
        slash_mode = S_REDIRECT
        error_handler = ErrorHandler()
    bare_br = BoundRoute(Route('/bare', ep_plain, explicit_render, resources={'k': 1}), Bare())
    assert bare_br.resources == {'k': 1} and bare_br.middlewares == ()


@focus
def focus_merge_and_execute():
    a0, a1, b0, c0, n0, n1 = MwA('a0'), MwA('a1'), MwB('b0'), MwC('c0'), MwN('n0'), MwN('n1')

    def tags(mws):
        return [m.tag for m in mws]

    assert merge_middlewares([], []) == []
    old, new = [a1, b0], [c0, a0]
    merged = merge_middlewares(old, new)
    assert isinstance(merged, list) and tags(merged) == ['c0', 'a0', 'b0']
    assert merged[1] is a0 and tags(old) == ['a1', 'b0'] and tags(new) == ['c0', 'a0']
    assert merged is not new and merged is not old
    assert tags(merge_middlewares(iter([a1, b0]), (c0,))) == ['c0', 'a1', 'b0']
    assert tags(merge_middlewares([a0, a1], [])) == ['a0']          # duplicate inside old
    assert tags(merge_middlewares([n0, n1, n0], [n1])) == ['n1', 'n0', 'n1', 'n0']
    s0, s1 = MwStuck('s0'), MwStuck('s1')
    assert tags(merge_middlewares([s0], [a0])) == ['a0', 's0']
    e = expect_exc(ValueError, merge_middlewares, [b0, s1, c0], [s0])
    assert str(e) == "multiple inclusion of unique middleware 'MwStuck'"
    expect_exc(ValueError, merge_middlewares, [s0, s1], [])
    expect_exc(AttributeError, merge_middlewares, [object()], [])
    inner = Application([('/e', ep_plain, explicit_render)], middlewares=[MwStuck('in')])
    expect_exc(ValueError, Application, [('/x', inner)], middlewares=[MwStuck('out')])

    # execute(): precedence builtins < route resources < call-time kwargs
    seen = {}

    def ep_see(shared, rr, request, _route, _application, extra='dflt'):
        seen.update(shared=shared, rr=rr, request=request, route=_route, app=_application,
                    extra=extra)
        return Response('ok')

    inner = Application([Route('/e', ep_see, resources={'rr': 'route-rr', 'extra': 'route-extra'})],
                        resources={'shared': 'in', 'rr': 'in-rr'})
    outer = Application([('/o', inner)], resources={'shared': 'out'})
    br = outer.routes[0]
    assert br.resources == {'shared': 'in', 'rr': 'route-rr', 'extra': 'route-extra'}
    resp = br.execute(request='REQ')
    assert seen == dict(shared='in', rr='route-rr', request='REQ', route=br, app=outer,
                        extra='route-extra'), seen
    br.execute(request='REQ2', shared='kw', _route='fake-route', _application='fake-app',
               extra=None, unused=1)
    assert seen == dict(shared='kw', rr='route-rr', request='REQ2', route='fake-route',
                        app='fake-app', extra=None), seen
    assert br.resources == {'shared': 'in', 'rr': 'route-rr', 'extra': 'route-extra'}
    assert observe(outer, 'GET', '/o/e', '')[0] == 200
    assert seen['shared'] == 'out' and seen['rr'] == 'route-rr' and seen['app'] is outer
    assert observe(inner, 'GET', '/e', '')[0] == 200
    assert seen['shared'] == 'in' and seen['app'] is inner

    # execute_error(): same precedence, plus _error; non-callable render_error -> TypeError
    got = {}

    def render_error(request, _error, _route, _application, shared, **kw):
        got.update(request=request, error=_error, route=_route, app=_application,
                   shared=shared, kw=kw)
        return Response('err')

    br.render_error = render_error
    br.execute_error(request='R', _error='E')
    assert got == dict(request='R', error='E', route=br, app=outer, shared='in',
                       kw={'rr': 'route-rr', 'extra': 'route-extra'}), got
    br.execute_error('R', 'E', shared='kw', _error2='x', _route=None)
    assert got['shared'] == 'kw' and got['route'] is None
    assert got['kw'] == {'rr': 'route-rr', 'extra': 'route-extra', '_error2': 'x'}
    br.render_error = None
    e = expect_exc(TypeError, br.execute_error, 'R', 'E')
    assert str(e) == 'render_error not set or not callable'
    expect_exc(TypeError, br.execute)   # request is required

    # dispatch: path params beat application resources of the same name
    def ep_pp(item_id, shared):
        return Response('%r/%s' % (item_id, shared))

    papp = Application([('/p/<item_id:int>', ep_pp)], resources={'shared': 'res-shared'})
    assert observe(papp, 'GET', '/p/3', '')[1] == '3/res-shared'
    wrapped = Application([('/w', papp)], resources={'shared': 'outer-shared'})
    assert observe(wrapped, 'GET', '/w/p/3', '')[1] == '3/outer-shared'
    # a URL binding clashing with a resource of the embedding app is rejected at embed time
    expect_exc(NameError, Application, [('/w', papp)], resources={'item_id': 1, 'shared': 2})


EXPECTED_DIGEST = '879c60587de73ad7a52882de675c1dc3881b89227ee27fd692893fb041fe8d34'  # unmodified code


def main():
    fixed_scenarios()
    for check in FOCUS_CHECKS:
        check()
    total, digest = run_random_trees()
    assert total > 2000, total
    if EXPECTED_DIGEST is None:
        print('requests compared: %d digest: %s' % (total, digest))
    else:
        assert digest == EXPECTED_DIGEST, (digest, EXPECTED_DIGEST)
    print('PASS')


if __name__ == '__main__':
    main()
