# -*- coding: utf-8 -*-
"""demo2: every request is counted exactly once under its status code / exception
type, the report and the reset endpoint agree with a model counter -- before and
after patch2."""
import os
import sys
import json
import pickle
import random
import datetime
from collections import Counter

sys.path.insert(0, os.path.dirname(os.path.abspath(__file__)))

from werkzeug.wrappers import Response

from clastic import Application, GET, redirect
from clastic.errors import BadRequest, Forbidden, NotFound
from clastic.render import render_basic
from clastic.middleware import stats
from clastic.middleware.stats import (StatsMiddleware, create_stats_app, Hit,
                                      RouteStatReservoir, get_stats_dict,
                                      get_and_reset_stats_dict, _get_stats_mw)


def ok():
    return Response('ok', mimetype='text/plain')


def html():
    return Response('<p>hi</p>', content_type='text/html; charset=utf-8')


def moved():
    return redirect('/ok')


def raised_400():
    raise BadRequest('no')


def returned_403():
    return Forbidden('nope')


def boom():
    raise ValueError('boom')


def lookup(name):
    if name == 'missing':
        raise NotFound('no such thing')
    if name == 'key':
        raise KeyError(name)
    return {'name': name}


ROUTES = [('/ok', ok), ('/html', html), ('/moved', moved), ('/bad', raised_400),
          ('/forbidden', returned_403), ('/boom', boom),
          ('/thing/<name>', lookup, render_basic),
          GET('/getonly', ok), ('/plain', lambda: 'not a response')]

# (method, url) -> (pattern, status key)
OUTCOMES = {('GET', '/ok'): ('/ok', '200'),
            ('GET', '/html'): ('/html', '200'),
            ('GET', '/moved'): ('/moved', '302'),
            ('GET', '/bad'): ('/bad', '400'),
            ('GET', '/forbidden'): ('/forbidden', '403'),
            ('GET', '/boom'): ('/boom', "'ValueError'"),
            ('GET', '/thing/a'): ('/thing/<name>', '200'),
            ('GET', '/thing/b'): ('/thing/<name>', '200'),
            ('GET', '/thing/missing'): ('/thing/<name>', '404'),
            ('GET', '/thing/key'): ('/thing/<name>', "'KeyError'"),
            ('POST', '/ok'): ('/ok', '200'),
            ('GET', '/getonly'): ('/getonly', '200'),
            ('POST', '/getonly'): ('/<_ignored*>', '405'),     # null route
            ('GET', '/nope'): ('/<_ignored*>', '404'),         # null route
            ('GET', '/plain'): ('/plain', "'str'")}            # unrenderable return value


def counts_of(report):
    ret = Counter()
    for pattern, by_status in report['route_stats'].items():
        for status, desc in by_status.items():
            ret[pattern, status] = desc['count']
            assert desc['count'] >= 1
            assert desc['total_duration'] >= 0
            datetime.datetime.fromisoformat(desc['last_hit'])
            for key in ('mean', 'max', 'min', '0.5', '0.99', 'std_dev'):
                assert key in desc, (key, desc)
    return ret


def run(seed):
    rng = random.Random(seed)
    mw = StatsMiddleware()
    app = Application(ROUTES + [('/stats', create_stats_app())], middlewares=[mw])
    client = app.get_local_client()
    model = Counter()
    reached = Counter()
    urls = sorted(OUTCOMES)
    for step in range(120):
        op = rng.random()
        if op < 0.8:
            method, url = rng.choice(urls)
            try:
                client.open(url, method=method)
            except (ValueError, KeyError):
                pass   # only if the application re-raises; either way it is counted once
            pattern, status = OUTCOMES[method, url]
            model[pattern, status] += 1
            reached[pattern] += 1
        elif op < 0.93:
            resp = client.get('/stats/?format=json')
            report = json.loads(resp.get_data(True))
            assert sorted(report) == ['cur_time_utc', 'route_stats', 'start_time_utc']
            assert report['start_time_utc'] == mw.last_reset.isoformat()
            assert report['start_time_utc'] <= report['cur_time_utc']
            assert counts_of(report) == model, (counts_of(report), model)
            model['/stats/', '200'] += 1    # the read is itself counted, after the report was built
            reached['/stats/'] += 1
        else:
            before = mw.route_hits
            resp = client.post('/stats/reset')
            report = json.loads(resp.get_data(True))
            assert sorted(report) == ['cur_time_utc', 'reset', 'route_stats', 'start_time_utc']
            assert report['reset'] is True
            assert counts_of(report) == model, (counts_of(report), model)
            assert mw.route_hits is not before
            # counting starts again from zero; the reset request itself lands in the new store
            model = Counter({('/stats/reset', '200'): 1})
            reached = Counter({'/stats/reset': 1})
            assert mw.last_reset.isoformat() >= report['cur_time_utc']
        # the live store always agrees with the model
        live = Counter()
        for route, by_status in mw.route_hits.items():
            for status, reservoir in by_status.items():
                assert isinstance(reservoir, RouteStatReservoir)
                live[route.pattern, status] += reservoir.total_count
                for hit in reservoir:
                    assert isinstance(hit, Hit) and hit.status_code == status
                    assert hit.pattern == route.pattern and hit.duration >= 0
        assert live == model, (live, model)
        per_route = Counter()
        for (pattern, status), n in live.items():
            per_route[pattern] += n
        assert per_route == reached


def main():
    for seed in range(25):
        run(seed)

    # content type recorded without parameters; url is the concrete path
    mw = StatsMiddleware()
    app = Application(ROUTES, middlewares=[mw])
    client = app.get_local_client()
    client.get('/html')
    client.get('/thing/zed')
    client.get('/bad')
    try:
        client.get('/boom')
    except ValueError:
        pass
    hits = {}
    for route, by_status in mw.route_hits.items():
        for status, reservoir in by_status.items():
            hits[route.pattern, status] = list(reservoir)
    assert sorted(hits) == [('/bad', '400'), ('/boom', "'ValueError'"), ('/html', '200'),
                            ('/thing/<name>', '200')], sorted(hits)
    (h,) = hits['/html', '200']
    assert h.content_type == 'text/html' and h.url == '/html' and h.pattern == '/html'
    (h,) = hits['/thing/<name>', '200']
    assert h.url == '/thing/zed' and h.content_type == 'application/json'
    (h,) = hits['/boom', "'ValueError'"]
    assert h.content_type == '' and h.status_code == "'ValueError'"
    (h,) = hits['/bad', '400']
    assert h.status_code == '400'

    # the Hit record: a plain namedtuple with these fields, in this order
    assert Hit._fields == ('start_time', 'url', 'pattern', 'status_code', 'duration', 'content_type')
    assert issubclass(Hit, tuple) and Hit.__name__ == 'Hit'
    assert Hit.__module__ == 'clastic.middleware.stats'
    h = Hit(1.0, '/a', '/<x>', '200', 0.5, 'text/plain')
    assert h == (1.0, '/a', '/<x>', '200', 0.5, 'text/plain')
    assert h == Hit(start_time=1.0, url='/a', pattern='/<x>', status_code='200', duration=0.5,
                    content_type='text/plain')
    assert h._replace(duration=2.0).duration == 2.0 and h._asdict()['url'] == '/a'
    assert pickle.loads(pickle.dumps(h)) == h
    assert repr(h) == ("Hit(start_time=1.0, url='/a', pattern='/<x>', status_code='200', "
                       "duration=0.5, content_type='text/plain')")
    for bad_args in ((), (1, 2, 3, 4, 5), (1, 2, 3, 4, 5, 6, 7)):
        try:
            Hit(*bad_args)
        except TypeError:
            pass
        else:
            raise SystemExit('expected TypeError')
    assert not hasattr(h, '__dict__')

    # direct calls of the endpoint functions
    direct = get_stats_dict(app)
    assert list(direct) == ['route_stats', 'start_time_utc', 'cur_time_utc']
    assert direct['route_stats']['/bad']['400']['count'] == 1
    assert _get_stats_mw(app) is mw
    old_reset = mw.last_reset
    again = get_and_reset_stats_dict(app)
    assert again['route_stats'].keys() == direct['route_stats'].keys() and again['reset'] is True
    assert list(again) == ['route_stats', 'start_time_utc', 'cur_time_utc', 'reset']
    assert again['start_time_utc'] == old_reset.isoformat()
    assert mw.last_reset >= old_reset and not mw.route_hits
    assert get_stats_dict(app)['route_stats'] == {}
    # an entry created by mere lookup (no hits) is left out of the report
    mw.route_hits[app.routes[0]]
    assert get_stats_dict(app)['route_stats'] == {}
    # with two stats middlewares the first one is reported and reset
    first, second = StatsMiddleware(), StatsMiddleware()

    class Holder(object):
        middlewares = [object(), first, second]

        def __repr__(self):
            return '<Holder>'
    assert _get_stats_mw(Holder()) is first
    first.route_hits['x']   # falsy inner dict: skipped
    second_hits = second.route_hits
    get_and_reset_stats_dict(Holder())
    assert second.route_hits is second_hits and 'x' not in first.route_hits

    # without the middleware: 501 from both endpoints, same message
    bare = Application([('/stats', create_stats_app())])
    bc = bare.get_local_client()
    assert bc.get('/stats/').status_code == 501
    assert bc.post('/stats/reset').status_code == 501
    for func in (get_stats_dict, get_and_reset_stats_dict, _get_stats_mw):
        try:
            func(bare)
        except stats.NotImplemented as ni:
            assert ni.code == 501
            assert ('StatsMiddleware not installed on app %r' % bare) in ni.get_data(True) \
                or ('StatsMiddleware not installed on app' in repr(ni.__dict__))
        else:
            raise SystemExit('expected NotImplemented')

    print('PASS')


if __name__ == '__main__':
    main()
