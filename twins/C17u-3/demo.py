# -*- coding: utf-8 -*-
"""demo3: render_basic dispatch -- every kind of endpoint result x format parameter x Accept
header gives a 200 response with the right Content-Type and a body that parses back.

Prints PASS and exits 0 when every assertion holds.
"""
import collections
import datetime
import json
import sys

from werkzeug.test import EnvironBuilder
from werkzeug.wrappers import Request, Response

from clastic import Application, render_basic
from clastic.render import BasicRender


def make_request(query='', accept=None):
    headers = {}
    if accept is not None:
        headers['Accept'] = accept
    builder = EnvironBuilder(path='/', query_string=query, headers=headers)
    return Request(builder.get_environ())


class Plain(object):
    def __repr__(self):
        return '<Plain obj>'


class WithStr(object):
    def __str__(self):
        return 'stringified ☃'


class HasToDict(object):
    def to_dict(self):
        return {'via': 'to_dict'}


class HasAsDict(object):
    def asdict(self):
        return {'via': 'asdict'}


class SizedOnly(object):
    "Sized but neither iterable nor a mapping: goes to the JSON renderer, degrades to repr"
    def __len__(self):
        return 0

    def __repr__(self):
        return '<SizedOnly>'


def gen():
    yield 1


Point = collections.namedtuple('Point', 'x y')

# requests: (query string, Accept header) -> which representation a *sized* value gets
JSON, HTML = 'application/json', 'text/html'
REQUESTS = [
    (('', None), JSON),
    (('format=json', None), JSON),
    (('format=html', None), HTML),
    (('format=', None), JSON),
    (('other=html', None), JSON),
    (('format=json', 'text/html'), JSON),              # explicit parameter beats Accept
    (('format=html', 'application/json'), HTML),
    (('', 'text/html'), HTML),
    (('', 'application/json'), JSON),
    (('', 'text/html,application/xhtml+xml,application/xml;q=0.9,*/*;q=0.8'), HTML),
    (('', 'application/json;q=0.9, text/html;q=0.5'), JSON),
    (('', 'text/html;q=0.2, application/json;q=0.7'), JSON),
    (('', 'image/png'), JSON),                         # nothing acceptable -> default
    (('', 'text/plain'), JSON),
    (('', ''), JSON),
    (('format=', 'text/html'), HTML),
]

WHEN = datetime.datetime(2021, 5, 6, 7, 8, 9)

# sized results with a tabular shape: (value, what the JSON parses back to)
TABULAR = [
    ({'name': 'world', 'n': 3, 'ok': True, 'none': None}, None),
    ({'k': 'é☃'}, None),
    (['a', 'b', 'c'], None),
    ([1, 2.5, None, False], None),
    (('x', 'y'), ['x', 'y']),
    ([{'a': 1, 'b': 2}, {'a': 3, 'b': 4}], None),
    ([[1, 2], [3, 4]], None),
    ([(1, 2), (3, 4)], [[1, 2], [3, 4]]),
    (Point(1, 2), [1, 2]),
]

# sized results only rendered as JSON here: (value, parsed JSON)
JSON_ONLY = [
    ({}, {}),
    ([], []),
    ((), []),
    ({'nested': {'deep': [1, {'deeper': (2, 3)}]}}, {'nested': {'deep': [1, {'deeper': [2, 3]}]}}),
    ({'when': WHEN, 'day': WHEN.date()}, {'when': '2021-05-06T07:08:09', 'day': '2021-05-06'}),
    ({'a': HasToDict(), 'b': HasAsDict(), 'c': Plain()},
     {'a': {'via': 'to_dict'}, 'b': {'via': 'asdict'}, 'c': '<Plain obj>'}),
    ({'s': {1}, 'f': frozenset(['z'])}, {'s': [1], 'f': ['z']}),
    (set(), []),
    ({'one'}, ['one']),
    (collections.OrderedDict([('z', 1), ('a', 2)]), {'z': 1, 'a': 2}),
    (collections.deque([1, 2]), [1, 2]),
    (range(3), [0, 1, 2]),
    (bytearray(b'ab'), [97, 98]),
    (SizedOnly(), '<SizedOnly>'),
    ({'cls': Plain}, {'cls': repr(Plain)}),
]

# results that are not sized: always text/plain with their str()
a_gen = gen()
UNSIZED = [
    (None, 'None'), (0, '0'), (1, '1'), (-7, '-7'), (3.5, '3.5'), (0.0, '0.0'),
    (True, 'True'), (False, 'False'), (2 + 3j, '(2+3j)'),
    (WHEN, '2021-05-06 07:08:09'), (Plain(), '<Plain obj>'), (WithStr(), 'stringified ☃'),
    (a_gen, str(a_gen)), (Plain, str(Plain)), (len, str(len)),
]

# text: (value, mimetype) -- never depends on the request
TEXT = [
    ('{"a": [1, 2]}', JSON), ('[]', JSON), (b'[1]', JSON),
    ('<!doctype html><html><body></body></html>', HTML), (b'<html>', HTML),
    (' ' * 163 + '<html>', HTML), (' ' * 164 + '<html>', 'text/plain'),
    ('', 'text/plain'), (b'', 'text/plain'), ('just text ☃', 'text/plain'), ('{"open": 1', 'text/plain'),
    ('[<html>', HTML), ('{"x": "<html>"}', JSON),
]


def check_direct():
    for (query, accept), sized_mime in REQUESTS:
        for value, parsed in TABULAR:
            resp = render_basic(value, make_request(query, accept), None)
            assert resp.status_code == 200, (value, query, accept)
            assert resp.mimetype == sized_mime, (value, query, accept, resp.mimetype)
            if sized_mime == JSON:
                assert resp.mimetype_params.get('charset') == 'utf-8'
                expected = value if parsed is None else parsed
                assert json.loads(resp.get_data(True)) == expected, (value, query, accept)
            else:
                body = resp.get_data(True)
                assert body.startswith('<html>') and body.rstrip().endswith('</html>')
                assert '<table class="clastic-atr-table">' in body, (value, query, accept)
        if sized_mime == JSON:
            for value, parsed in JSON_ONLY:
                resp = render_basic(value, make_request(query, accept), None)
                assert resp.status_code == 200 and resp.mimetype == JSON, (value, query, accept)
                assert json.loads(resp.get_data(True)) == parsed, (value, query, accept)
        for value, text in UNSIZED:
            resp = render_basic(value, make_request(query, accept), None)
            assert (resp.status_code, resp.mimetype) == (200, 'text/plain'), (value, query, accept)
            assert resp.get_data(True) == text, (value, query, accept)
        for value, mime in TEXT:
            resp = render_basic(value, make_request(query, accept), None)
            assert (resp.status_code, resp.mimetype) == (200, mime), (value, query, accept)
            raw = value.encode('utf8') if isinstance(value, str) else value
            assert resp.get_data() == raw, (value, query, accept)


def check_unsupported_format():
    # only sized values look at the format parameter at all
    for query in ('format=xml', 'format=HTML', 'format=text/html', 'format=0'):
        bad = query.split('=', 1)[1]
        for value in ({'a': 1}, [], (), set()):
            try:
                render_basic(value, make_request(query, 'text/html'), None)
            except ValueError as e:
                assert str(e) == ("format expected one of dict_keys(['html', 'json']), not %r" % bad), str(e)
            else:
                raise AssertionError('expected ValueError for %r' % query)
        for value, text in UNSIZED[:4]:
            resp = render_basic(value, make_request(query), None)
            assert (resp.mimetype, resp.get_data(True)) == ('text/plain', text)
        for value, mime in TEXT[:4]:
            assert render_basic(value, make_request(query), None).mimetype == mime


def check_html_title_with_route():
    def endpoint(name='world'):
        "Greets. See https://example.com for <more>."
        return {'greeting': 'Hello, %s!' % name}

    app = Application([('/', endpoint, render_basic)])
    client = app.get_local_client()
    resp = client.get('/?format=html')
    body = resp.get_data(True)
    assert resp.status_code == 200 and resp.mimetype == HTML
    assert 'endpoint(' in body and '<a href="https://example.com">' in body and '&lt;more&gt;' in body
    assert 'Hello, world!' in body
    resp = client.get('/', headers={'Accept': 'text/html'})
    assert resp.mimetype == HTML and resp.get_data(True) == body
    resp = client.get('/')
    assert json.loads(resp.get_data(True)) == {'greeting': 'Hello, world!'}


def check_through_application():
    values = [v for v, _ in TABULAR] + [v for v, _ in JSON_ONLY] + [v for v, _ in UNSIZED] + [v for v, _ in TEXT]
    routes = [('/v/%d' % i, (lambda v=v: v), render_basic) for i, v in enumerate(values)]
    passthrough = Response(b'\x89PNG', mimetype='image/png', status=201)
    routes.append(('/resp', lambda: passthrough, render_basic))
    client = Application(routes).get_local_client()
    for i, value in enumerate(values):
        direct = render_basic(value, make_request(), None)
        resp = client.get('/v/%d' % i)
        assert resp.status_code == 200, value
        assert resp.headers['Content-Type'] == direct.headers['Content-Type'], value
        assert resp.get_data() == direct.get_data(), value
    resp = client.get('/resp?format=xml')
    assert (resp.status_code, resp.mimetype, resp.get_data()) == (201, 'image/png', b'\x89PNG')


def check_call_alias_and_subclass_hooks():
    assert BasicRender.__call__ is BasicRender.render_response

    class UpperGuess(BasicRender):
        # overriding the documented-by-convention hooks keeps working
        @staticmethod
        def _guess_json(bytestr):
            return bytestr.startswith(b'JSON:')

        _default_mime = 'text/html'

    sub = UpperGuess()
    assert sub('JSON: whatever', make_request(), None).mimetype == JSON
    assert sub('{"a": 1}', make_request(), None).mimetype == 'text/plain'
    assert sub({'a': 1}, make_request(), None).mimetype == HTML
    assert sub({'a': 1}, make_request('format=json'), None).mimetype == JSON

    class CountingJSON(object):
        def __init__(self):
            self.seen = []

        def __call__(self, context):
            self.seen.append(context)
            return Response('{}', mimetype=JSON)

    counting = CountingJSON()
    br = BasicRender(json_render=counting)
    ctx = {'same': 'object'}
    br(ctx, make_request(), None)
    br(ctx, make_request('format=html'), None)
    br('text', make_request(), None)
    br(5, make_request(), None)
    assert len(counting.seen) == 1 and counting.seen[0] is ctx


def main():
    check_direct()
    check_unsupported_format()
    check_html_title_with_route()
    check_through_application()
    check_call_alias_and_subclass_hooks()
    print('PASS')
    return 0


if __name__ == '__main__':
    sys.exit(main())
