# -*- coding: utf-8 -*-
"""demo1: the Flaw failsafe page and the frame list produced by
_ParsedTB.from_string, checked against an independent reference parser.

Prints PASS and exits 0 when every check holds.
"""
import html
import random
import sys
import traceback
import warnings

warnings.simplefilter('ignore')

from clastic import flaw  # noqa: E402
from clastic.flaw import _ParsedTB, create_app  # noqa: E402

import re  # noqa: E402

_REF_FRAME_RE = re.compile(r'^File "(?P<filepath>.+)", line (?P<lineno>\d+)'
                           r', in (?P<funcname>.+)$')
_REF_SE_FRAME_RE = re.compile(r'^File "(?P<filepath>.+)", line (?P<lineno>\d+)')

CHECKS = [0]


def check(cond, *info):
    CHECKS[0] += 1
    if not cond:
        print('FAIL', *[repr(i)[:300] for i in info])
        sys.exit(1)


def ref_parse(tb_str):
    """Reference model of the parser (the specification the page relies on).
    Returns ('ok', exc_type, exc_msg, frames) or ('exc', exception class)."""
    try:
        if not isinstance(tb_str, str):
            tb_str = tb_str.decode('utf-8')
        lines = tb_str.lstrip().splitlines()
        if lines[0].strip() == 'Traceback (most recent call last):':
            flines, fre = lines[1:-1], _REF_FRAME_RE
        elif len(lines) > 1 and lines[-2].lstrip().startswith('^'):
            flines, fre = lines[:-2], _REF_SE_FRAME_RE
        else:
            raise ValueError('unrecognized')
        while lines and (lines[-1].startswith('Exception ')
                         and lines[-1].endswith('ignored')):
            lines.pop()
        for line in reversed(lines):
            exc_type, sep, exc_msg = line.partition(':')
            if sep and exc_type and len(exc_type.split()) == 1:
                break
        frames = []
        idx = 0
        while idx < len(flines):
            m = fre.match(flines[idx].strip())
            if m:
                d = {}
                for k in m.groupdict():
                    d[k] = m.group(k)
                d['source_line'] = flines[idx + 1].strip()
                frames.append(d)
            idx += 2
        return ('ok', exc_type, exc_msg, frames)
    except Exception as e:
        return ('exc', type(e))


def real_parse(tb_str):
    try:
        ptb = _ParsedTB.from_string(tb_str)
    except Exception as e:
        return ('exc', type(e))
    check(type(ptb.frames) is list)
    for fr in ptb.frames:
        check(type(fr) is dict, fr)
        # key order is part of the dict that ends up in the resources
        check(list(fr)[-1] == 'source_line', fr)
    return ('ok', ptb.exc_type, ptb.exc_msg, ptb.frames)


def esc(text):
    return html.escape(str(text), True)


def get_page(tb, files, path='/', method='GET'):
    app = create_app(tb, files)
    resp = app.get_local_client().open(path, method=method)
    return resp.status_code, resp.get_data(True)


def check_page(tb, files=None, path='/'):
    expected = ref_parse(tb)
    status, page = get_page(tb, files, path)
    check(status == 200, tb, status)
    if tb is None:
        check('<pre></pre>' in page, tb)
    else:
        check('<pre>%s</pre>' % esc(tb) in page, tb, page)
    for fn in (files or []):
        check('<li>%s</li>' % esc(fn) in page, fn)
    if expected[0] == 'ok':
        _, exc_type, exc_msg, _frames = expected
        check('<h2 class="parsed-error-h2">%s<p>%s</p></h2>'
              % (esc(exc_type), esc(exc_msg)) in page, tb, page)
        check('unparsed-error-h2' not in page, tb)
    else:
        try:
            last_line = tb.splitlines()[-1]
        except Exception:
            last_line = 'Unknown error'
        check('<h2 class="unparsed-error-h2">%s</h2>' % esc(last_line) in page,
              tb, page)
        check('"parsed-error-h2' not in page, tb)
    return page


# --- hand-written cases with literal expectations -------------------------

TB_TWO = '''Traceback (most recent call last):
  File "/srv/app/main.py", line 10, in <module>
    run()
  File "/srv/app/<b>lib</b>.py", line 3, in run
    raise KeyError('<i>k</i>')
KeyError: '<i>k</i>'
'''
res = real_parse(TB_TWO)
check(res == ('ok', 'KeyError', " '<i>k</i>'",
              [{'filepath': '/srv/app/main.py', 'lineno': '10',
                'funcname': '<module>', 'source_line': 'run()'},
               {'filepath': '/srv/app/<b>lib</b>.py', 'lineno': '3',
                'funcname': 'run',
                'source_line': "raise KeyError('<i>k</i>')"}]), res)

TB_SE = '''  File "bad.py", line 7
    def f(:
          ^
SyntaxError: invalid syntax
'''
res = real_parse(TB_SE)
check(res == ('ok', 'SyntaxError', ' invalid syntax',
              [{'filepath': 'bad.py', 'lineno': '7',
                'source_line': 'def f(:'}]), res)

# a frame line without its source line at the very end: pairing breaks down
TB_ODD = '''Traceback (most recent call last):
  File "a.py", line 1, in <module>
    f()
  File "b.py", line 2, in f
ValueError: x
'''
check(real_parse(TB_ODD) == ('exc', IndexError), real_parse(TB_ODD))
# ... but an unmatched odd line at the end is skipped
TB_ODD_OK = '''Traceback (most recent call last):
  File "a.py", line 1, in <module>
    f()
  something else
ValueError: x
'''
res = real_parse(TB_ODD_OK)
check(res == ('ok', 'ValueError', ' x',
              [{'filepath': 'a.py', 'lineno': '1', 'funcname': '<module>',
                'source_line': 'f()'}]), res)
# caret lines (3.11+) shift the pairing: the frame ends up in a "source" slot
TB_CARET = '''Traceback (most recent call last):
  File "a.py", line 1, in <module>
    f(1/0)
      ~^~
  File "b.py", line 2, in f
    g()
ZeroDivisionError: division by zero
'''
res = real_parse(TB_CARET)
check(res[0] == 'ok' and [f['filepath'] for f in res[3]] == ['a.py'], res)
check(res[3][0]['source_line'] == 'f(1/0)', res)

TB_NOFRAMES = 'Traceback (most recent call last):\nMemoryError: \n'
check(real_parse(TB_NOFRAMES) == ('ok', 'MemoryError', ' ', []),
      real_parse(TB_NOFRAMES))

for tb in (TB_TWO, TB_SE, TB_ODD, TB_ODD_OK, TB_CARET, TB_NOFRAMES):
    check(real_parse(tb) == ref_parse(tb), tb)
    check_page(tb, ['/x/<y>.py', 'z&.py'])
    check_page(tb.encode('utf-8'))

# --- real tracebacks: exception catalogue x stack depth ------------------


class CustomError(Exception):
    pass


def raiser(exc, depth):
    if depth <= 0:
        raise exc
    return raiser(exc, depth - 1)


CATALOGUE = [ValueError('plain'), KeyError('<script>alert(1)</script>'),
             TypeError(''), RuntimeError('multi\nline: message'),
             CustomError('{tb_str} {#parsed_err}x{/parsed_err}'),
             OSError(2, 'No such file'), ZeroDivisionError('a: b: c'),
             UnicodeDecodeError('utf-8', b'\xff', 0, 1, 'bad'),
             AssertionError(), StopIteration(5), Exception('Exception: nested'),
             NameError("name 'plarp' is not defined"), SystemExit(3)]

real_tbs = []
for exc in CATALOGUE:
    for depth in (0, 1, 2, 5, 17):
        try:
            raiser(exc, depth)
        except BaseException:
            real_tbs.append(traceback.format_exc())

for src in ('def f(:\n  pass\n', 'x = (1,\n', 'if True:\nprint(1)\n',
            'a = 1 +\n', 'print("<b>" \'\n'):
    try:
        compile(src, '<demo & "file">.py', 'exec')
    except SyntaxError:
        full = traceback.format_exc()
        real_tbs.append(full)
        # the bare report, the way python prints it for the main script
        real_tbs.append(''.join(traceback.format_exception_only(*sys.exc_info()[:2])))

check(len(real_tbs) > 70)
ok_count = 0
for tb in real_tbs:
    got, want = real_parse(tb), ref_parse(tb)
    check(got == want, tb, got, want)
    ok_count += got[0] == 'ok'
    check_page(tb, ['/a/b.py'], path='/some/<path>')
check(ok_count > 30, ok_count)

# --- truncated and concatenated tracebacks --------------------------------

rng = random.Random(20)
variants = []
for tb in rng.sample(real_tbs, 12) + [TB_TWO, TB_SE, TB_CARET]:
    lines = tb.splitlines(True)
    for cut in range(len(lines) + 1):
        variants.append(''.join(lines[:cut]))
        variants.append(''.join(lines[cut:]))
    variants.append(tb + tb)
    variants.append(tb + 'Exception KeyError in <x> ignored')
    variants.append(tb + '\nDuring handling of the above exception, another '
                    'exception occurred:\n\n' + rng.choice(real_tbs))
    variants.append('\n\n   ' + tb)
outcomes = set()
for tb in variants:
    got, want = real_parse(tb), ref_parse(tb)
    check(got == want, tb, got, want)
    outcomes.add(got[1] if got[0] == 'exc' else 'ok')
check({'ok', IndexError, ValueError} <= outcomes, outcomes)
for tb in rng.sample(variants, 60):
    check_page(tb, None, path='/' + str(rng.random()))

# --- arbitrary text, markup, template syntax, non-text --------------------

ALPHABET = ('abc XYZ:^\n\n\t"\'<>&{}#/~File line, in 0123456789\x00\x1b\x7f'
            'é 中')
junk = ['', ' ', '\n', ':', 'a:', ':a', 'Traceback (most recent call last):',
        'Traceback (most recent call last):\n', '^\nx', ' ^\nE: m',
        'File "x", line 1\n  y\n  ^\nE: m',
        '<script>alert("x")</script>', '{tb_str}{#mon_files}{.}{/mon_files}',
        '{~lb}{>flaw_tmpl/}', '{@eq key=1 value=1}x{/eq}', '{', '}', '{#', '\x00']
for _ in range(150):
    junk.append(''.join(rng.choice(ALPHABET) for _ in range(rng.randint(0, 60))))
for tb in junk:
    check(real_parse(tb) == ref_parse(tb), tb, real_parse(tb), ref_parse(tb))
    check_page(tb, rng.choice([None, [], ['<f>.py']]))

check(real_parse(None) == ('exc', AttributeError))
check(real_parse(5) == ('exc', AttributeError))
check(real_parse(b'\xff\xfe') == ('exc', UnicodeDecodeError))
for tb in (None, b'', b'\xff\xfe', b'<b>bytes</b>', 5):
    status, page = get_page(tb, None, '/any/thing')
    check(status == 200)
    # None and empty values render as nothing, other non-text as its str()
    check('<pre>%s</pre>' % (esc(tb) if tb else '') in page, tb, page)
    check('unparsed-error-h2' in page)

# every path and method is answered by the same page
page0 = get_page(TB_TWO, ['m.py'])[1]
for path in ('/', '/a', '/a/b/c/', '/%3Cb%3E', '/favicon.ico', '/x?y=<z>'):
    for method in ('GET', 'POST', 'PUT', 'DELETE'):
        status, page = get_page(TB_TWO, ['m.py'], path, method)
        check(status == 200 and page == page0, path, method, status)

# the parsed frames are what create_app puts into the resources
app = create_app(TB_TWO, None)
check(app.resources['parsed_error'] == {
    'exc_type': 'KeyError', 'exc_msg': " '<i>k</i>'",
    'frames': ref_parse(TB_TWO)[3]}, app.resources['parsed_error'])

print('PASS (%d checks)' % CHECKS[0])
