# -*- coding: utf-8 -*-
"""demo2: BasicRender construction / configuration (qp_name, dev_mode, json_render,
table_type, tabular_render, factory) and its effect on how endpoint results are rendered.

Prints PASS and exits 0 when every assertion holds.
"""
import datetime
import json
import sys

from werkzeug.test import EnvironBuilder
from werkzeug.wrappers import Request, Response

from clastic import Application
from clastic.render import BasicRender, JSONRender, TabularRender, Table, render_basic


def make_request(query='', accept=None):
    headers = {}
    if accept is not None:
        headers['Accept'] = accept
    builder = EnvironBuilder(path='/', query_string=query, headers=headers)
    return Request(builder.get_environ())


class Opaque(object):
    def __repr__(self):
        return '<Opaque thing>'


class BoldTable(Table):
    def get_cell_html(self, value):
        return '<b>' + super(BoldTable, self).get_cell_html(value) + '</b>'


def raises(exc_type, func, *a, **kw):
    try:
        func(*a, **kw)
    except exc_type as e:
        return e
    except Exception as e:  # wrong type
        raise AssertionError('expected %r, got %r' % (exc_type, e))
    raise AssertionError('expected %r, nothing raised' % (exc_type,))


def check_defaults():
    br = BasicRender()
    assert br.qp_name == 'format'
    assert br.dev_mode is True
    assert type(br.json_render) is JSONRender
    assert br.json_render.dev_mode is True and br.json_render.streaming is False
    assert br.json_render.json_encoder.dev_mode is True
    assert type(br.tabular_render) is TabularRender
    assert br.tabular_render.table_type is Table
    assert br.tabular_render.max_depth == 4 and br.tabular_render.orientation == 'auto'
    assert sorted(vars(br)) == ['dev_mode', 'json_render', 'qp_name', 'tabular_render']
    assert list(br.formats) == ['html', 'json']
    assert list(br.mimetypes) == ['text/html', 'application/json']
    assert br._mime_format_map == {'text/html': 'html', 'application/json': 'json'}
    # module-level instance is configured the same way
    assert render_basic.dev_mode is True and render_basic.qp_name == 'format'
    assert render_basic.tabular_render.table_type is Table
    # two instances do not share their default sub-renderers
    other = BasicRender()
    assert other.json_render is not br.json_render
    assert other.tabular_render is not br.tabular_render


def check_dev_mode():
    ctx = {'thing': Opaque(), 'when': datetime.date(2020, 1, 2), 'n': 0, 'none': None}
    expected = {'thing': '<Opaque thing>', 'when': '2020-01-02', 'n': 0, 'none': None}
    for br in (BasicRender(), BasicRender(dev_mode=True), BasicRender(dev_mode=1)):
        resp = br(ctx, make_request(), None)
        assert resp.status_code == 200 and resp.mimetype == 'application/json'
        assert json.loads(resp.get_data(True)) == expected
    for falsy in (False, 0, None, ''):
        strict = BasicRender(dev_mode=falsy)
        assert strict.dev_mode is falsy or strict.dev_mode == falsy
        assert strict.json_render.dev_mode == falsy
        err = raises(TypeError, strict, ctx, make_request(), None)
        assert 'cannot serialize to JSON' in str(err)
        # JSON-native data is fine in strict mode
        resp = strict({'a': [1, 2, {'b': 'é'}]}, make_request(), None)
        assert json.loads(resp.get_data(True)) == {'a': [1, 2, {'b': 'é'}]}


def check_json_render_override():
    calls = []

    def fake_json(context):
        calls.append(context)
        return Response('FAKE', mimetype='application/x-fake')

    br = BasicRender(json_render=fake_json, dev_mode=False)
    assert br.json_render is fake_json and br.dev_mode is False
    ctx = {'a': 1}
    resp = br(ctx, make_request(), None)
    assert resp.get_data() == b'FAKE' and resp.mimetype == 'application/x-fake'
    assert calls == [ctx] and calls[0] is ctx
    # an explicit None is stored as is (no fallback to the default renderer)
    br_none = BasicRender(json_render=None)
    assert br_none.json_render is None
    raises(TypeError, br_none, ctx, make_request(), None)
    streaming = BasicRender(json_render=JSONRender(streaming=True))
    resp = streaming({'x': [1, 2, 3], 'y': None}, make_request(), None)
    assert json.loads(resp.get_data(True)) == {'x': [1, 2, 3], 'y': None}


def check_table_type_and_tabular_render():
    ctx = {'name': 'world', 'n': 3}
    html_req = make_request('format=html')
    plain = BasicRender()(ctx, html_req, None)
    assert plain.status_code == 200 and plain.mimetype == 'text/html'
    assert '<b>' not in plain.get_data(True) and 'world' in plain.get_data(True)

    bold = BasicRender(table_type=BoldTable)
    assert bold.tabular_render.table_type is BoldTable
    assert type(bold.tabular_render) is TabularRender
    resp = bold(ctx, html_req, None)
    assert resp.mimetype == 'text/html' and '<b>' in resp.get_data(True)
    resp = bold(ctx, make_request(accept='text/html'), None)
    assert resp.mimetype == 'text/html' and '<b>' in resp.get_data(True)
    resp = bold(ctx, make_request(), None)
    assert resp.mimetype == 'application/json' and json.loads(resp.get_data(True)) == ctx

    # explicit None is forwarded, not replaced by the default
    none_tt = BasicRender(table_type=None)
    assert none_tt.tabular_render.table_type is None
    raises(TypeError, none_tt, ctx, html_req, None)
    resp = none_tt(ctx, make_request('format=json'), None)
    assert json.loads(resp.get_data(True)) == ctx

    # tabular_render wins over table_type, both are consumed
    custom_tr = TabularRender(table_type=BoldTable, max_depth=2)
    both = BasicRender(tabular_render=custom_tr, table_type=Table)
    assert both.tabular_render is custom_tr
    assert custom_tr.table_type is BoldTable
    resp = both([{'a': 1, 'b': 2}, {'a': 3, 'b': 4}], html_req, None)
    assert resp.mimetype == 'text/html' and '<b>' in resp.get_data(True)
    only_tr = BasicRender(tabular_render=custom_tr)
    assert only_tr.tabular_render is custom_tr
    assert BasicRender(tabular_render=None).tabular_render is None


def check_qp_name():
    br = BasicRender(qp_name='fmt')
    assert br.qp_name == 'fmt'
    ctx = ['a', 'b', 'c']
    resp = br(ctx, make_request('fmt=html'), None)
    assert resp.mimetype == 'text/html'
    resp = br(ctx, make_request('format=html'), None)   # ignored parameter
    assert resp.mimetype == 'application/json' and json.loads(resp.get_data(True)) == ctx
    err = raises(ValueError, br, ctx, make_request('fmt=xml'), None)
    assert 'html' in str(err) and 'xml' in str(err)
    resp = br(ctx, make_request('fmt='), None)          # empty -> no explicit format
    assert resp.mimetype == 'application/json'


def check_bad_arguments():
    err = raises(TypeError, BasicRender, bogus=1)
    assert str(err) == "unexpected keyword arguments: {'bogus': 1}", str(err)
    err = raises(TypeError, BasicRender, qp_name='f', dev_mode=False, json_render=None,
                 table_type=Table, tabular_render=None, zzz=None, aaa='x')
    assert str(err) == "unexpected keyword arguments: {'zzz': None, 'aaa': 'x'}", str(err)
    raises(TypeError, BasicRender, 'positional')


def check_factory():
    fact = BasicRender.factory(dev_mode=False, qp_name='f', table_type=BoldTable)
    assert callable(fact) and fact.__name__ == 'basic_render_factory'
    one, two = fact('ignored'), fact(None)
    assert type(one) is BasicRender and type(two) is BasicRender and one is not two
    for inst in (one, two):
        assert inst.dev_mode is False and inst.qp_name == 'f'
        assert inst.tabular_render.table_type is BoldTable
    raises(TypeError, fact)                      # render_arg is required
    # errors surface when the factory is called, not when it is created
    bad = BasicRender.factory(bogus=True)
    raises(TypeError, bad, 'x')
    bad_pos = BasicRender.factory('positional')
    raises(TypeError, bad_pos, 'x')

    class SubRender(BasicRender):
        pass
    assert type(SubRender.factory()('x')) is SubRender


def check_through_application():
    strict_html = BasicRender(dev_mode=False, table_type=BoldTable)
    app = Application([('/obj', lambda: {'o': Opaque()}, BasicRender()),
                       ('/rows', lambda: [{'a': 1}, {'a': 2}], strict_html),
                       ('/num', lambda: 0, strict_html),
                       ('/none', lambda: None, strict_html),
                       ('/text', lambda: '{"already": "json"}', strict_html)])
    client = app.get_local_client()
    resp = client.get('/obj')
    assert resp.status_code == 200 and json.loads(resp.get_data(True)) == {'o': '<Opaque thing>'}
    resp = client.get('/rows')
    assert resp.mimetype == 'application/json' and json.loads(resp.get_data(True)) == [{'a': 1}, {'a': 2}]
    resp = client.get('/rows?format=html')
    assert resp.status_code == 200 and resp.mimetype == 'text/html' and '<b>' in resp.get_data(True)
    resp = client.get('/rows', headers={'Accept': 'text/html,application/xhtml+xml;q=0.9'})
    assert resp.status_code == 200 and resp.mimetype == 'text/html'
    resp = client.get('/num?format=html')
    assert (resp.status_code, resp.mimetype, resp.get_data()) == (200, 'text/plain', b'0')
    resp = client.get('/none')
    assert (resp.status_code, resp.mimetype, resp.get_data()) == (200, 'text/plain', b'None')
    resp = client.get('/text?format=html')
    assert (resp.status_code, resp.mimetype) == (200, 'application/json')


def main():
    check_defaults()
    check_dev_mode()
    check_json_render_override()
    check_table_type_and_tabular_render()
    check_qp_name()
    check_bad_arguments()
    check_factory()
    check_through_application()
    print('PASS')
    return 0


if __name__ == '__main__':
    sys.exit(main())
