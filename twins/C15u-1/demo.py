# -*- coding: utf-8 -*-
"""demo1: GET/POST parameter extractors and the script-root middleware never
change what the client receives (status + body), for every response kind,
and they inject exactly the typed values werkzeug's MultiDict.get() yields.

Run:  /venv/bin/python demo1.py   -> prints PASS, exit code 0
"""
import os
import re
import sys
import json
import random

sys.path.insert(0, os.path.dirname(os.path.abspath(__file__)))

from clastic import (Application, Response, GET, POST, redirect,
                     render_basic, BadRequest)
from clastic.errors import NotFound, Forbidden, ServiceUnavailable
from clastic.middleware.url import GetParamMiddleware, ScriptRootMiddleware
from clastic.middleware.form import PostDataMiddleware

RNG = random.Random(1515)
RANDOM_BYTES = bytes(bytearray(RNG.randrange(256) for _ in range(3000)))
BIG_TEXT = 'lorem ipsum dolor sit amet ' * 2000


# --- scenario application: one route per response kind ----------------------

def ep_resp():
    return Response('plain body', mimetype='text/plain')


def ep_empty():
    return Response(b'')


def ep_big():
    return Response(BIG_TEXT, mimetype='text/html')


def ep_binary():
    return Response(RANDOM_BYTES, mimetype='application/octet-stream')


def ep_ctx():
    return {'greeting': 'hi', 'n': 3, 'zero': 0, 'empty': '', 'none': None}


def ep_redirect():
    return redirect('/resp')


def ep_raise404():
    raise NotFound('raised by the application')


def ep_return403():
    return Forbidden('returned by the application')


def ep_raise503():
    raise ServiceUnavailable(detail='down for a bit')


def ep_nonbreaking():
    raise BadRequest('not breaking', is_breaking=False)


def ep_boom():
    raise ValueError('uncaught')


def scenario_routes():
    return [('/resp', ep_resp),
            ('/empty', ep_empty),
            ('/big', ep_big),
            ('/binary', ep_binary),
            ('/ctx', ep_ctx, render_basic),
            ('/redirect', ep_redirect),
            ('/raise404', ep_raise404),
            ('/return403', ep_return403),
            ('/raise503', ep_raise503),
            ('/nonbreaking', ep_nonbreaking),
            ('/boom', ep_boom),
            GET('/getonly', ep_resp),
            POST('/postonly', ep_resp)]


REQUESTS = [('GET', '/resp'), ('HEAD', '/resp'), ('GET', '/empty'),
            ('GET', '/big'), ('GET', '/binary'), ('GET', '/ctx'),
            ('GET', '/ctx?format=json'), ('GET', '/redirect'),
            ('GET', '/raise404'), ('GET', '/return403'), ('GET', '/raise503'),
            ('GET', '/nonbreaking'), ('GET', '/boom'),
            ('GET', '/no/such/url'), ('POST', '/getonly'),
            ('GET', '/postonly'), ('PUT', '/getonly'), ('HEAD', '/getonly'),
            ('POST', '/postonly'), ('GET', '/resp?a=1&b=x&a=2&c='),
            ('POST', '/resp?a=zzz')]
ACCEPTS = [None, 'text/html', 'application/json', 'text/plain', '*/*']


def normalise(body):
    # the default 500 page shows the traceback (its depth in the text form,
    # every frame in the JSON form); a middleware's own frame is part of
    # it, so the traceback itself is outside the property
    if body.startswith(b'{') and b'"exc_info"' in body:
        parsed = json.loads(body.decode('utf8'))
        parsed.pop('exc_info')
        body = json.dumps(parsed, sort_keys=True).encode('utf8')
    return re.sub(br'\(\d+ frames,', b'(N frames,', body)


def snapshot(app, method, url, accept, form=None):
    headers = {}
    if accept is not None:
        headers['Accept'] = accept
    kw = {}
    if form is not None and method in ('POST', 'PUT'):
        kw['data'] = form
    resp = app.get_local_client().open(url, method=method,
                                       headers=headers, **kw)
    return (resp.status_code, normalise(resp.get_data()),
            resp.headers.get('Location'))


def check_transparent(middlewares, label):
    plain = Application(scenario_routes())
    wrapped = Application(scenario_routes(), middlewares=middlewares)
    count = 0
    for method, url in REQUESTS:
        for accept in ACCEPTS:
            for form in (None, {'a': '7', 'b': 'yy', 'lol': ''}):
                expected = snapshot(plain, method, url, accept, form)
                actual = snapshot(wrapped, method, url, accept, form)
                assert expected == actual, (label, method, url, accept,
                                            expected[:1], actual[:1])
                count += 1
    return count


# --- the extractors inject exactly what MultiDict.get() yields ---------------

def echo(a, b, c, d):
    return Response(repr((a, b, c, d)))


def check_injection():
    count = 0
    params = {'a': int, 'b': str, 'c': float, 'd': str}
    get_app = Application([('/echo', echo)],
                          middlewares=[GetParamMiddleware(params)])
    post_app = Application([POST('/echo', echo)],
                           middlewares=[PostDataMiddleware(params)])
    cases = [({}, (None, None, None, None)),
             ({'a': '1'}, (1, None, None, None)),
             ({'a': '0', 'b': '', 'c': '0', 'd': '0'}, (0, '', 0.0, '0')),
             ({'a': 'notanint', 'b': 'x', 'c': 'nan?'}, (None, 'x', None, None)),
             ({'a': '-12', 'b': u'caf\xe9', 'c': '1e3', 'd': ' '},
              (-12, u'caf\xe9', 1000.0, ' ')),
             ({'a': ['5', '6'], 'b': ['first', 'second']},
              (5, 'first', None, None)),
             ({'a': '', 'c': ''}, (None, None, None, None)),
             ({'zzz': 'ignored'}, (None, None, None, None))]
    for data, expected in cases:
        resp = get_app.get_local_client().get('/echo', query_string=data)
        assert resp.status_code == 200, (data, resp.status_code)
        assert resp.get_data(True) == repr(expected), (data, resp.get_data(True))
        resp = post_app.get_local_client().post('/echo', data=data)
        assert resp.status_code == 200, (data, resp.status_code)
        assert resp.get_data(True) == repr(expected), (data, resp.get_data(True))
        # GET args must not leak into the POST extractor and vice versa
        resp = post_app.get_local_client().post('/echo', query_string=data)
        assert resp.get_data(True) == repr((None,) * 4)
        count += 3

    # the three accepted spellings of ``params``
    for params, url, expected in [('a', '/e?a=1', "('1',)"),
                                  (['a'], '/e?a=1', "('1',)"),
                                  ({'a': int}, '/e?a=1', "(1,)"),
                                  ({'a': int}, '/e', "(None,)")]:
        app = Application([('/e', lambda a: Response(repr((a,))))],
                          middlewares=[GetParamMiddleware(params)])
        assert app.get_local_client().get(url).get_data(True) == expected
        count += 1

    # a type whose conversion fails with something other than ValueError
    # is not swallowed: the request ends as a framework 500
    def picky(value):
        raise KeyError(value)
    mw = GetParamMiddleware({'a': int})
    mw.params = {'a': picky}
    app = Application([('/e', lambda a: Response(repr(a)))], middlewares=[mw])
    assert app.get_local_client().get('/e').status_code == 200   # absent
    assert app.get_local_client().get('/e?a=1').status_code == 500
    count += 2

    # script root: default and renamed
    def show_root(script_root):
        return Response(repr(script_root))

    def show_sr(sr):
        return Response(repr(sr))
    app = Application([('/r', show_root)],
                      middlewares=[ScriptRootMiddleware()])
    assert app.get_local_client().get('/r').get_data(True) == "''"
    inner = Application([('/r', show_sr)],
                        middlewares=[ScriptRootMiddleware('sr')])
    cl = inner.get_local_client()
    resp = cl.get('/r', base_url='http://localhost/mounted/')
    assert resp.get_data(True) == "'/mounted'", resp.get_data(True)
    count += 2
    return count


def main():
    total = 0
    stacks = [([GetParamMiddleware({})], 'get-empty'),
              ([GetParamMiddleware({'a': int, 'b': str, 'c': str})], 'get'),
              ([GetParamMiddleware('a')], 'get-str'),
              ([GetParamMiddleware(['a', 'b'])], 'get-list'),
              ([PostDataMiddleware({'lol': str})], 'post'),
              ([PostDataMiddleware({'a': int, 'b': float})], 'post-typed'),
              ([ScriptRootMiddleware()], 'script-root'),
              ([ScriptRootMiddleware('mount_point')], 'script-root-renamed'),
              ([ScriptRootMiddleware(),
                GetParamMiddleware({'a': int}),
                PostDataMiddleware({'b': str})], 'stack')]
    for middlewares, label in stacks:
        total += check_transparent(middlewares, label)
    total += check_injection()
    print('checked %d request/response pairs' % total)
    print('PASS')


if __name__ == '__main__':
    main()
