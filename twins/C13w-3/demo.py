# -*- coding: utf-8 -*-
"""demo3: an Application is a conforming WSGI application (C13).

Focus of this demo: how wsgi_wrapper contributions are validated and stacked
(check_valid_wsgi / _safe_wrap_wsgi / _get_all_middlewares, the wrapping done
by Application.__init__ and set_error_handler), under a conformance harness.
Prints PASS and exits 0 when everything holds.
"""
import sys
import functools
import warnings
from wsgiref.validate import validator

warnings.simplefilter('ignore')

from werkzeug.test import EnvironBuilder
from werkzeug.wrappers import Response

import clastic
import clastic.application as app_mod
from clastic import (Application, SubApplication, render_basic, RerouteWSGI,
                     Middleware)
# the historic import paths have to keep working
from clastic.application import (check_valid_wsgi, _safe_wrap_wsgi,
                                 _get_all_middlewares, get_arg_names,
                                 default_render_error, cast_to_route_factory)
from clastic.errors import ErrorHandler, ContextualErrorHandler, REPLErrorHandler

CHECKS = [0]


def ok(cond, msg=''):
    CHECKS[0] += 1
    if not cond:
        raise AssertionError(msg)


def make_environ(path='/', method='GET', headers=None, data=None, query_string=None):
    builder = EnvironBuilder(path=path, method=method, headers=headers or {},
                             data=data, query_string=query_string)
    environ = builder.get_environ()
    environ.pop('HTTP_CONTENT_LENGTH', None)  # the validator is picky
    environ.pop('HTTP_CONTENT_TYPE', None)
    return environ


def call_wsgi(app, path='/', method='GET', headers=None, data=None,
              validate=True, query_string=None):
    environ = make_environ(path, method, headers, data, query_string)
    calls = []
    early = []

    def start_response(status, response_headers, exc_info=None):
        calls.append((status, list(response_headers)))
        return lambda s: None

    target = validator(app) if validate else app
    app_iter = target(environ, start_response)
    body = []
    try:
        for chunk in app_iter:
            if not calls:
                early.append(chunk)
            ok(isinstance(chunk, bytes), 'non-bytes chunk %r' % (chunk,))
            body.append(chunk)
    finally:
        if hasattr(app_iter, 'close'):
            app_iter.close()
    ok(len(calls) == 1, 'start_response called %d times for %s %s'
       % (len(calls), method, path))
    ok(not early, 'body before start_response')
    status, hdrs = calls[0]
    ok(isinstance(status, str) and len(status) >= 4 and status[:3].isdigit()
       and status[3] == ' ', 'bad status line %r' % (status,))
    for pair in hdrs:
        ok(isinstance(pair, tuple) and len(pair) == 2)
        ok(type(pair[0]) is str and type(pair[1]) is str, 'bad header %r' % (pair,))
    body = b''.join(body)
    if method == 'HEAD':
        ok(body == b'', 'HEAD sent a body: %r' % body[:40])
    return status, hdrs, body


def raises_type_error(func, *args):
    try:
        func(*args)
    except TypeError as te:
        return te
    raise AssertionError('%r%r did not raise TypeError' % (func, args))


def main():
    # ---------------------------------------------------------------- names
    ok(app_mod.check_valid_wsgi is check_valid_wsgi)
    ok(app_mod._safe_wrap_wsgi is _safe_wrap_wsgi)
    ok(callable(get_arg_names))
    ok(clastic.RerouteWSGI is app_mod.RerouteWSGI)
    ok(app_mod.RerouteWSGI.__module__ == 'clastic.application')
    ok(app_mod.Application.__module__ == 'clastic.application')
    try:
        from clastic import _wsgiutil
    except ImportError:
        _wsgiutil = None
    if _wsgiutil is not None:
        ok(_wsgiutil.check_valid_wsgi is check_valid_wsgi)
        ok(_wsgiutil._safe_wrap_wsgi is _safe_wrap_wsgi)

    # ----------------------------------------------------- check_valid_wsgi
    def good(environ, start_response):
        start_response('200 OK', [('Content-Type', 'text/plain')])
        return [b'good']

    def good_extra(environ, start_response, extra=None, *a, **kw):
        return good(environ, start_response)

    class GoodObj(object):
        def __call__(self, environ, start_response):
            return good(environ, start_response)

        def __repr__(self):
            return '<GoodObj>'

    class BadObj(object):
        def __call__(self, env, sr):
            return good(env, sr)

        def __repr__(self):
            return '<BadObj>'

    good_lambda = lambda environ, start_response: good(environ, start_response)
    for fine in (good, good_extra, GoodObj(), GoodObj().__call__, good_lambda,
                 Application([]), Application([]).__call__,
                 validator(good).__class__ and good):
        ok(check_valid_wsgi(fine) is None)

    def swapped(start_response, environ):
        pass

    def one_arg(environ):
        pass

    def no_arg():
        pass

    def renamed(env, start_response):
        pass

    def renamed2(environ, sr):
        pass

    def star(*args):
        pass

    bad_signatures = [(swapped, ['start_response', 'environ']),
                      (one_arg, ['environ']),
                      (no_arg, []),
                      (renamed, ['env', 'start_response']),
                      (renamed2, ['environ', 'sr']),
                      (star, []),
                      (BadObj(), ['env', 'sr'])]
    for bad, names in bad_signatures:
        te = raises_type_error(check_valid_wsgi, bad)
        got_names = get_arg_names(bad)[:2]
        ok(list(got_names) == names, (bad, got_names))
        expected = ('expected WSGI callable (%r) to accept two arguments, `environ` and'
                    ' `start_response`, respectively, not %r' % (bad, got_names))
        ok(str(te) == expected, str(te))
        ok(type(te) is TypeError)

    for not_callable in (None, 0, '', 'app', 3.5, [], {}, (good,), object()):
        te = raises_type_error(check_valid_wsgi, not_callable)
        ok(str(te) == 'expected WSGI application (%r) to be callable' % (not_callable,))
    # a one-tuple is formatted as a tuple, not unpacked
    te = raises_type_error(check_valid_wsgi, (1,))
    ok(str(te) == 'expected WSGI application ((1,)) to be callable')

    # ------------------------------------------------------ _safe_wrap_wsgi
    class Src(object):
        def __init__(self, **kw):
            self.__dict__.update(kw)

        def __repr__(self):
            return '<Src>'

    # no attribute / None attribute: the very same inner comes back
    ok(_safe_wrap_wsgi('thing', Src(), good) is good)
    ok(_safe_wrap_wsgi('thing', Src(wsgi_wrapper=None), good) is good)
    ok(_safe_wrap_wsgi('thing', object(), good) is good)
    sentinel = object()   # inner is not inspected when there is nothing to wrap
    ok(_safe_wrap_wsgi('thing', Src(), sentinel) is sentinel)

    for uncallable in (0, '', 'nope', 1.5, [], False, (good,)):
        te = raises_type_error(_safe_wrap_wsgi, 'thing', Src(wsgi_wrapper=uncallable), good)
        ok(str(te) == 'expected thing.wsgi_wrapper to be callable or None, not %r'
           % (uncallable,), str(te))

    seen_inner = []

    def identity_wrapper(inner):
        seen_inner.append(inner)
        return inner

    ok(_safe_wrap_wsgi('thing', Src(wsgi_wrapper=identity_wrapper), good) is good)
    ok(seen_inner == [good])

    def make_wrapper(tag, log):
        def wrapper(inner):
            def wrapped(environ, start_response):
                log.append(tag)
                return inner(environ, start_response)
            wrapped.inner = inner
            return wrapped
        return wrapper

    log = []
    w = _safe_wrap_wsgi('thing', Src(wsgi_wrapper=make_wrapper('w', log)), good)
    ok(w is not good and w.inner is good)

    bad_returns = [lambda inner: None,
                   lambda inner: 'string',
                   lambda inner: swapped,
                   lambda inner: one_arg,
                   lambda inner: BadObj()]
    for bad_wrapper in bad_returns:
        src = Src(wsgi_wrapper=bad_wrapper)
        te = raises_type_error(_safe_wrap_wsgi, 'middleware', src, good)
        inner_te = raises_type_error(check_valid_wsgi, bad_wrapper(good))
        expected = ('expected valid WSGI callable from middleware (<Src>) WSGI wrapper'
                    ' (%r), instead got issue: %r' % (bad_wrapper, inner_te))
        ok(str(te) == expected, (str(te), expected))
        ok(type(te) is TypeError)
        ok(isinstance(te.__context__, TypeError) and str(te.__context__) == str(inner_te))

    # an exception from the wrapper itself is not dressed up
    class WrapperBoom(Exception):
        pass

    def exploding_wrapper(inner):
        raise WrapperBoom('no wrapping today')
    try:
        _safe_wrap_wsgi('middleware', Src(wsgi_wrapper=exploding_wrapper), good)
    except WrapperBoom as wb:
        ok(str(wb) == 'no wrapping today')
    else:
        ok(False)

    def type_error_wrapper(inner):
        raise TypeError('from the wrapper')
    te = raises_type_error(_safe_wrap_wsgi, 'middleware',
                           Src(wsgi_wrapper=type_error_wrapper), good)
    ok(str(te) == 'from the wrapper')

    # ------------------------------------------- stacking in an Application
    def plain():
        return 'plain'

    order = []

    class WA(Middleware):
        wsgi_wrapper = staticmethod(make_wrapper('A', order))

    class WB(Middleware):
        wsgi_wrapper = staticmethod(make_wrapper('B', order))

    class WC(Middleware):
        wsgi_wrapper = staticmethod(make_wrapper('C', order))

    class NoWrap(Middleware):
        pass

    class WrappingEH(ErrorHandler):
        wsgi_wrapper = staticmethod(make_wrapper('EH', order))

    class WrappingEH2(ErrorHandler):
        wsgi_wrapper = staticmethod(make_wrapper('EH2', order))

    METHODS = ('GET', 'HEAD', 'POST', 'OPTIONS')

    def observed(app, path='/p', method='GET'):
        del order[:]
        st, hd, body = call_wsgi(app, path, method,
                                 data=b'a=b' if method == 'POST' else None)
        return list(order), st

    routes = [('/p', plain, render_basic)]
    for method in METHODS:
        ok(observed(Application(routes), method=method)[0] == [])
        ok(observed(Application(routes, middlewares=[WA()]), method=method)[0] == ['A'])
        ok(observed(Application(routes, middlewares=[WA(), WB(), WC()]),
                    method=method)[0] == ['A', 'B', 'C'])
        ok(observed(Application(routes, middlewares=[WC(), NoWrap(), WA()]),
                    method=method)[0] == ['C', 'A'])
        # the error handler's wrapper sits inside all middleware wrappers
        ok(observed(Application(routes, middlewares=[WB(), WA()],
                                error_handler=WrappingEH()),
                    method=method)[0] == ['B', 'A', 'EH'])
        # ... for error responses too
        got, st = observed(Application(routes, middlewares=[WB(), WA()],
                                       error_handler=WrappingEH()), '/nope', method)
        ok(got == ['B', 'A', 'EH'] and st.startswith('404'))

    # the same instance twice is refused by check_middlewares, a shared
    # instance across embedding is applied once
    wa = WA()
    inner = Application(routes, middlewares=[wa, WC()])
    outer = Application([('/in', inner), ('/p', plain, render_basic)],
                        middlewares=[WB(), wa])
    for path in ('/in/p', '/p', '/nowhere'):
        ok(observed(outer, path)[0] == ['B', 'A', 'C'], (path, order))
    ok(observed(inner)[0] == ['A', 'C'])
    # equal-but-distinct instances (plain Middleware objects compare by identity)
    inner2 = Application(routes, middlewares=[WA(), WC()])
    outer2 = Application([('/in', inner2)], middlewares=[WB()])
    got = observed(outer2, '/in/p')[0]
    ok(got == ['B', 'A', 'C'], got)
    # no routes at all: the app's own middlewares still wrap
    ok(observed(Application([], middlewares=[WC(), WB()]), '/')[0] == ['C', 'B'])
    # route-level middlewares contribute as well, after the app-level ones
    from clastic import Route
    rt = Route('/p', plain, render_basic, middlewares=[WC()])
    ok(observed(Application([rt], middlewares=[WA()]))[0] == ['A', 'C'])

    # set_error_handler later on wraps whatever is there (outermost)
    app = Application(routes, middlewares=[WA()], error_handler=WrappingEH())
    ok(observed(app)[0] == ['A', 'EH'])
    app.set_error_handler(WrappingEH2())
    ok(observed(app)[0] == ['EH2', 'A', 'EH'])
    ok(isinstance(app.error_handler, WrappingEH2))
    app.set_error_handler()
    ok(observed(app)[0] == ['EH2', 'A', 'EH'])
    ok(type(app.error_handler) is ErrorHandler)
    ok(type(Application([], debug=True).error_handler) is ContextualErrorHandler)

    # __call__ goes through the instance attribute
    ok('_dispatch_wsgi' in vars(app))
    ok('_dispatch_wsgi' not in vars(Application(routes))
       or Application(routes)._dispatch_wsgi is not None)
    plain_app = Application(routes)
    ok(check_valid_wsgi(plain_app._dispatch_wsgi) is None)

    # invalid contributions abort construction with the dressed-up message
    class BadWrapMW(Middleware):
        wsgi_wrapper = staticmethod(lambda inner: swapped)

        def __repr__(self):
            return '<BadWrapMW>'

    class UncallableMW(Middleware):
        wsgi_wrapper = 'not callable'

    class BadWrapEH(ErrorHandler):
        wsgi_wrapper = staticmethod(lambda inner: None)

    class UncallableEH(ErrorHandler):
        wsgi_wrapper = 42

    te = raises_type_error(lambda: Application(routes, middlewares=[BadWrapMW()]))
    ok(str(te).startswith('expected valid WSGI callable from middleware (<BadWrapMW>)'
                          ' WSGI wrapper (<function '), str(te))
    ok('instead got issue: TypeError(' in str(te))
    te = raises_type_error(lambda: Application(routes, middlewares=[UncallableMW()]))
    ok(str(te) == "expected middleware.wsgi_wrapper to be callable or None, not 'not callable'")
    te = raises_type_error(lambda: Application(routes, error_handler=BadWrapEH()))
    ok(str(te).startswith('expected valid WSGI callable from error_handler (<'), str(te))
    ok('expected WSGI application (None) to be callable' in str(te))
    te = raises_type_error(lambda: Application(routes, error_handler=UncallableEH()))
    ok(str(te) == 'expected error_handler.wsgi_wrapper to be callable or None, not 42')
    te = raises_type_error(lambda: Application(routes).set_error_handler(UncallableEH()))
    ok(str(te) == 'expected error_handler.wsgi_wrapper to be callable or None, not 42')

    # the REPL handler wraps the app in werkzeug's debugger: still valid WSGI
    repl_app = Application(routes, error_handler=REPLErrorHandler())
    ok(check_valid_wsgi(repl_app._dispatch_wsgi) is None)
    st, hd, body = call_wsgi(repl_app, '/p')
    ok(st == '200 OK' and body == b'plain')

    # ------------------------------------------------ _get_all_middlewares
    class FakeRoute(object):
        def __init__(self, mws):
            self.middlewares = mws

    a, b, c, d = object(), object(), object(), object()
    ok(_get_all_middlewares([]) == [])
    ok(_get_all_middlewares([], [a, b, a]) == [a, b])
    ok(_get_all_middlewares([FakeRoute([a, b]), FakeRoute([c, a])]) == [c, a, b])
    ok(_get_all_middlewares([FakeRoute([a, b]), FakeRoute([c, a])], (d, b)) == [d, b, c, a])
    unhashable = [{'x': 1}, {'x': 1}, {'y': 2}]
    ok(_get_all_middlewares([FakeRoute(unhashable)]) == [{'x': 1}, {'y': 2}])

    # ---------------------------------------- wrappers + reroute + conformance
    reroute_seen = []

    def raw_wsgi(environ, start_response):
        reroute_seen.append(environ)
        start_response('298 Rerouted', [('X-Raw', '1'), ('Content-Type', 'text/x-raw'), ('Content-Length', '3')])
        return [b'raw']

    rr_app = Application([('/p', plain, render_basic),
                          ('/rr', RerouteWSGI(raw_wsgi))],
                         middlewares=[WA(), WB()], error_handler=WrappingEH())
    for method in METHODS:
        del order[:]
        del reroute_seen[:]
        environ = make_environ('/rr', method)
        marker = environ['demo.marker'] = object()
        before = dict(environ)
        calls = []
        it = rr_app(environ, lambda s, h, e=None: calls.append((s, h)))
        body = b''.join(it)
        getattr(it, 'close', lambda: None)()
        ok(order == ['A', 'B', 'EH'])
        ok(calls == [('298 Rerouted', [('X-Raw', '1'), ('Content-Type', 'text/x-raw'), ('Content-Length', '3')])])
        ok(body == b'raw')
        ok(reroute_seen[0] is environ and environ['demo.marker'] is marker)
        ok(all(environ[k] is v for k, v in before.items()))
        got, st = observed(rr_app, '/rr', method) if method != 'HEAD' else (['A', 'B', 'EH'], '298 Rerouted')
        ok(got == ['A', 'B', 'EH'] and st == '298 Rerouted')

    print('PASS (%d checks)' % CHECKS[0])


if __name__ == '__main__':
    main()
