# -*- coding: utf-8 -*-
"""demo3: path pattern compilation (the part of binding that copies and
re-compiles a route's pattern under the embedding application's prefix and
slash mode) -- regexes, converters, error cases; and that bad patterns make
add() fail atomically while the original routes / applications stay intact.

Prints PASS and exits 0 on unmodified code and with patch3.diff applied.
"""
import os
import re
import sys
import warnings

warnings.simplefilter('ignore')
sys.path.insert(0, os.path.dirname(os.path.abspath(__file__)))

from werkzeug.wrappers import Response

from clastic import Application, Route, SubApplication
from clastic import route as route_mod
from clastic.route import (_compile_path_pattern, _register_converter, InvalidPattern,
                           S_STRICT, S_REDIRECT, S_REWRITE)

INT = '[+-]?\\ *[0-9]+'
FLOAT = '[+-]?\\ *(\\d+(\\.\\d*)?|\\.\\d+)([eE][+-]?\\d+)?'

# pattern -> (strict regex, non-strict regex, binding names)
GOOD = [
    ('/', '^/$', '^/*$', []),
    ('/a', '^/a$', '^/+a/*$', []),
    ('/a/', '^/a/$', '^/+a/*$', []),
    ('/a/b/', '^/a/b/$', '^/+a/+b/*$', []),
    ('/<x>', '^(?P<x>(/[^/]+))$', '^(?P<x>(/+[^/]+))/*$', ['x']),
    ('/<x>/', '^(?P<x>(/[^/]+))/$', '^(?P<x>(/+[^/]+))/*$', ['x']),
    ('/<x:int>', '^(?P<x>(/%s))$' % INT, '^(?P<x>(/+%s))/*$' % INT, ['x']),
    ('/<x?int>/tail', '^(?P<x>(/%s)?)/tail$' % INT, '^(?P<x>(/+%s)?)/+tail/*$' % INT, ['x']),
    ('/a/<x+float>', '^/a(?P<x>(/%s)+)$' % FLOAT, '^/+a(?P<x>(/+%s)+)/*$' % FLOAT, ['x']),
    ('/a/<x*>/', '^/a(?P<x>(/[^/]+)*)/$', '^/+a(?P<x>(/+[^/]+)*)/*$', ['x']),
    ('/<a>/<b:str>/<c?unicode>',
     '^(?P<a>(/[^/]+))(?P<b>(/[^/]+))(?P<c>(/[^/]+)?)$',
     '^(?P<a>(/+[^/]+))(?P<b>(/+[^/]+))(?P<c>(/+[^/]+)?)/*$', ['a', 'b', 'c']),
    ('/<z>/<y>/<x>', '^(?P<z>(/[^/]+))(?P<y>(/[^/]+))(?P<x>(/[^/]+))$',
     '^(?P<z>(/+[^/]+))(?P<y>(/+[^/]+))(?P<x>(/+[^/]+))/*$', ['z', 'y', 'x']),
    ('/<x:>', '^(?P<x>(/[^/]+))$', '^(?P<x>(/+[^/]+))/*$', ['x']),
    ('/<x>suffix', '^(?P<x>(/[^/]+))$', '^(?P<x>(/+[^/]+))/*$', ['x']),
    ('/pre<x>', '^/pre<x>$', '^/+pre<x>/*$', []),
    ('/a.b', '^/a.b$', '^/+a.b/*$', []),
    ('/<_ignored*>', '^(?P<_ignored>(/[^/]+)*)$', '^(?P<_ignored>(/+[^/]+)*)/*$', ['_ignored']),
    ('/<x+int>/<y*float>/', '^(?P<x>(/%s)+)(?P<y>(/%s)*)/$' % (INT, FLOAT),
     '^(?P<x>(/+%s)+)(?P<y>(/+%s)*)/*$' % (INT, FLOAT), ['x', 'y']),
]

BAD = [
    ('pre<x>', InvalidPattern, "URL path patterns must start with a forward slash (got 'pre<x>')"),
    ('noslash', InvalidPattern, "URL path patterns must start with a forward slash (got 'noslash')"),
    ('', InvalidPattern, "URL path patterns must start with a forward slash (got '')"),
    ('//', InvalidPattern, "URL path patterns must not contain multiplecontiguous slashes (got '//')"),
    ('/a//b', InvalidPattern, "URL path patterns must not contain multiplecontiguous slashes (got '/a//b')"),
    ('/<x:int>/<x:int>', InvalidPattern, 'duplicate path binding x'),
    ('/<x>/a/<x*float>', InvalidPattern, 'duplicate path binding x'),
    # duplicate is reported before an unknown type / operator of the same part
    ('/<x>/<x!bogus>', InvalidPattern, 'duplicate path binding x'),
    ('/<x:bogus>', InvalidPattern, 'unknown type specifier bogus'),
    # unknown type is reported before an unknown operator
    ('/<x!bogus>', InvalidPattern, 'unknown type specifier bogus'),
    ('/<x??>', InvalidPattern, "unknown arity operator '??', expected one of "),
    ('/<x!int>', InvalidPattern, "unknown arity operator '!', expected one of "),
    # first offending part wins
    ('/<a:bogus>/<a>', InvalidPattern, 'unknown type specifier bogus'),
    ('/a(b', re.error, 'missing ), unterminated subpattern'),
]


def expect(exc_type, msg_start, func, *a, **kw):
    try:
        func(*a, **kw)
    except exc_type as e:
        assert type(e) is exc_type, (type(e), exc_type)
        assert str(e).startswith(msg_start), (str(e), msg_start)
        return e
    raise AssertionError('expected %r from %r' % (exc_type, a))


def test_compile_tables():
    for pattern, strict_rx, loose_rx, names in GOOD:
        for mode, expected in ((S_STRICT, strict_rx), (S_REDIRECT, loose_rx),
                               (S_REWRITE, loose_rx), ('anything else', loose_rx)):
            regex, convs = _compile_path_pattern(pattern, mode)
            assert regex.pattern == expected, (pattern, mode, regex.pattern, expected)
            assert type(convs) is dict and list(convs) == names, (pattern, list(convs))
            assert all(callable(c) for c in convs.values())
        # default mode is rewrite; keyword form
        assert _compile_path_pattern(pattern)[0].pattern == loose_rx
        assert _compile_path_pattern(pattern=pattern, mode=S_STRICT)[0].pattern == strict_rx
        # a fresh result per call
        r1, c1 = _compile_path_pattern(pattern)
        r2, c2 = _compile_path_pattern(pattern)
        assert c1 is not c2
    for pattern, exc_type, msg in BAD:
        for mode in (S_STRICT, S_REDIRECT, S_REWRITE):
            expect(exc_type, msg, _compile_path_pattern, pattern, mode)
    e = expect(InvalidPattern, 'unknown arity', _compile_path_pattern, '/<x!>')
    for op in ('', '?', ':', '+', '*'):
        assert repr(op) in str(e)
    assert issubclass(InvalidPattern, ValueError)
    # non-string patterns fail the same way as ever
    expect(AttributeError, '', _compile_path_pattern, None)
    expect(AttributeError, '', _compile_path_pattern, 5)


def test_converters():
    _, convs = _compile_path_pattern('/<i:int>/<f:float>/<s>/<oi?int>/<mi+int>/<mf*float>/<os?>')
    assert list(convs) == ['i', 'f', 's', 'oi', 'mi', 'mf', 'os']
    assert convs['i']('/12') == 12 and type(convs['i']('/12')) is int
    assert convs['f']('/1.5') == 1.5
    assert convs['s']('/abc') == 'abc'
    assert convs['oi']('') is None and convs['oi'](None) is None and convs['oi']('/3') == 3
    assert convs['os']('') is None and convs['os']('/x') == 'x'
    assert convs['mi']('/1/2/3') == [1, 2, 3]
    assert convs['mf']('') == [] and convs['mf'](None) == [] and convs['mf']('/1/2.5') == [1.0, 2.5]
    for bad_call in (lambda: convs['i']('/x'), lambda: convs['mi']('/1/x'), lambda: convs['i']('')):
        expect(ValueError, '', bad_call)
    # non-optional + missing value: not short-circuited
    expect(AttributeError, '', convs['s'], None)
    expect(AttributeError, '', convs['mi'], None)

    # matching behaviour of the generated regexes
    rx, convs = _compile_path_pattern('/a/<x?int>/b', S_STRICT)
    assert rx.match('/a/5/b').groupdict() == {'x': '/5'}
    assert rx.match('/a/b').groupdict() == {'x': ''}
    assert rx.match('/a//5/b') is None and rx.match('/a/5/b/') is None
    rx, convs = _compile_path_pattern('/a/<x?int>/b', S_REDIRECT)
    assert rx.match('/a//5/b/').groupdict() == {'x': '//5'}
    assert convs['x']('//5') == 5


def test_converter_tables_are_read_at_compile_time():
    conv_before = dict(route_mod.TYPE_CONV_MAP)
    patt_before = dict(route_mod.TYPE_PATT_MAP)
    expect(InvalidPattern, 'unknown type specifier hex', _compile_path_pattern, '/<h:hex>')
    _register_converter('hex', lambda v: int(v, 16), '[0-9a-f]+')
    try:
        rx, convs = _compile_path_pattern('/<h+hex>', S_STRICT)
        assert rx.pattern == '^(?P<h>(/[0-9a-f]+)+)$'
        assert convs['h']('/ff/10') == [255, 16]
        app = Application([('/h/<h:hex>', lambda h: Response(str(h)))])
        assert app.get_local_client().get('/h/ff').get_data(True) == '255'
        # half-registered type (no regex fragment) is unknown
        route_mod.TYPE_CONV_MAP['half'] = int
        expect(InvalidPattern, 'unknown type specifier half', _compile_path_pattern, '/<h:half>')
        # default type goes through the table too
        saved = route_mod.TYPE_CONV_MAP.pop('unicode')
        try:
            expect(InvalidPattern, 'unknown type specifier unicode', _compile_path_pattern, '/<h>')
            expect(InvalidPattern, 'unknown type specifier unicode', _compile_path_pattern, '/<h:>')
            assert _compile_path_pattern('/<h:str>')[1]['h']('/q') == 'q'
        finally:
            route_mod.TYPE_CONV_MAP['unicode'] = saved
    finally:
        route_mod.TYPE_CONV_MAP.pop('half', None)
        del route_mod.TYPE_CONV_MAP['hex'], route_mod.TYPE_PATT_MAP['hex']
    assert route_mod.TYPE_CONV_MAP == conv_before and route_mod.TYPE_PATT_MAP == patt_before
    expect(InvalidPattern, 'unknown type specifier hex', _compile_path_pattern, '/<h:hex>')
    # routes bound while the converter existed keep working
    assert app.get_local_client().get('/h/1f').get_data(True) == '31'


def get(app, path):
    resp = app.get_local_client().get(path)
    return resp.status_code, resp.get_data(True)


def patterns(app):
    return [r.pattern for r in app.routes]


def test_binding_recompiles_without_touching_originals():
    def show(n, rest):
        return Response('n=%r rest=%r' % (n, rest))

    item = Route('/item/<n:int>/<rest*>', show)
    leaf = Route('/leaf', lambda: Response('leaf'))
    branch = Route('/branch/', lambda: Response('branch'))
    item_state = dict(vars(item))

    strict = Application([item, leaf, branch], slash_mode=S_STRICT)
    loose = Application([branch, item, leaf])
    outer = Application([('/v1', strict), ('/v2/', loose), leaf], slash_mode=S_REWRITE)
    models = {
        id(strict): ['/item/<n:int>/<rest*>', '/leaf', '/branch/'],
        id(loose): ['/branch/', '/item/<n:int>/<rest*>', '/leaf'],
        id(outer): ['/v1/item/<n:int>/<rest*>', '/v1/leaf', '/v1/branch/',
                    '/v2/branch/', '/v2/item/<n:int>/<rest*>', '/v2/leaf', '/leaf'],
    }

    def check():
        for app in (strict, loose, outer):
            assert patterns(app) == models[id(app)], patterns(app)
            for br in app.routes:
                assert br.slash_mode == app.slash_mode
                expected_rx = _compile_path_pattern(br.pattern, app.slash_mode)[0].pattern
                assert br.regex.pattern == expected_rx
        assert vars(item) == item_state
        assert item.pattern == '/item/<n:int>/<rest*>'
        assert get(strict, '/item/3/a/b') == (200, "n=3 rest=['a', 'b']")
        assert get(strict, '/item//3')[0] == 404
        assert get(strict, '/leaf') == (200, 'leaf')
        assert get(strict, '/leaf/')[0] == 404
        assert get(strict, '/branch/') == (200, 'branch')
        assert get(strict, '/branch')[0] == 404
        assert get(loose, '/item//4') == (200, 'n=4 rest=[]')
        assert get(loose, '/branch')[0] == 302
        assert get(loose, '/branch/') == (200, 'branch')
        assert get(outer, '/v1/item//5/x') == (200, "n=5 rest=['x']")
        assert get(outer, '/v2/leaf/') == (200, 'leaf')
        assert get(outer, '/leaf') == (200, 'leaf')
        assert get(outer, '/v1/nope')[0] == 404
        assert get(loose, '/v1/leaf')[0] == 404 and get(strict, '/v2/leaf')[0] == 404
    check()

    # bad patterns: directly, through a prefix, as k-th route of an embedded app
    for ctor_args, exc in ((('nope', leaf.endpoint), InvalidPattern),
                           (('/<a>/<a>', leaf.endpoint), InvalidPattern),
                           (('/<a:what>', leaf.endpoint), InvalidPattern),
                           (('/<a^>', leaf.endpoint), InvalidPattern)):
        expect(exc, '', Route, *ctor_args)
        for app in (strict, loose, outer):
            expect(exc, '', app.add, ctor_args, index=1)
        check()
    # prefix that collides with a binding name of the 2nd embedded route only
    for app in (strict, outer):
        for index in (None, 0, 2):
            expect(InvalidPattern, 'duplicate path binding n', app.add,
                   ('/<n>', loose), index=index)
            expect(InvalidPattern, 'URL path patterns must start', app.add,
                   SubApplication('v3', loose), index=index)
            expect(InvalidPattern, 'unknown type specifier', app.add,
                   ('/<q:nope>/x', strict), index=index)
            check()

    # a good prefix with a binding works and is inserted contiguously
    outer.add(('/<tenant>/sub', loose), index=1)
    models[id(outer)][1:1] = ['/<tenant>/sub/branch/', '/<tenant>/sub/item/<n:int>/<rest*>',
                              '/<tenant>/sub/leaf']
    check()
    assert list(outer.routes[2].converters) == ['tenant', 'n', 'rest']
    assert get(outer, '/acme/sub/leaf') == (200, 'leaf')


if __name__ == '__main__':
    test_compile_tables()
    test_converters()
    test_converter_tables_are_read_at_compile_time()
    test_binding_recompiles_without_touching_originals()
    print('PASS')
