# -*- coding: utf-8 -*-
"""Demo for C14: static serving never leaves its roots and serves files faithfully.

Standalone: builds a temp tree, serves it with StaticApplication under several
mount points, and checks confinement, faithful serving, conditional requests,
fault handling and the route conversion / helper functions of the mechanism.
Prints PASS and exits 0 on success.
"""
import builtins
import errno
import itertools
import os
import shutil
import sys
import tempfile
import warnings
from datetime import datetime, timedelta
from unittest import mock

warnings.simplefilter('ignore')

from werkzeug.http import http_date, parse_date

import clastic
from clastic import Application, StaticApplication, StaticFileRoute
from clastic import static as static_mod
from clastic import route as route_mod
from clastic.errors import Forbidden, NotFound
from clastic.static import (find_file, build_file_response, get_file_mtime,
                            is_binary_string, peek_file)
from clastic.route import build_converter, _compile_path_pattern, InvalidPattern

SECRET = b'TOP-SECRET-DO-NOT-DISCLOSE'

FILES = {
    'a.txt': b'hello a\n',
    'empty.txt': b'',
    'noext': b'plain text without extension\n',
    'binblob': bytes(range(256)) * 3,
    'emptynoext': b'',
    'pic.png': b'\x89PNG\r\n\x1a\n' + bytes(range(200)),
    'style.min.css': b'body { color: red }\n',
    'with space.txt': b'spaced out\n',
    'café.txt': 'café au lait\n'.encode('utf-8'),
    'sub/b.html': b'<html>b</html>\n',
    'sub/deeper/c.json': b'{"c": 1}\n',
    'sub/deeper/.hidden': b'dotfile\n',
    'sub/...': b'three dots\n',
    'x..y/z.txt': b'dots inside a name\n',
}
FILES2 = {
    'a.txt': b'SHADOWED a from root2\n',
    'only2.txt': b'only in root2\n',
    'sub/only2.bin': b'\x00\x01\x02\xff' * 10,
}


def write_tree(root, files):
    for rel, content in files.items():
        full = os.path.join(root, *rel.split('/'))
        os.makedirs(os.path.dirname(full), exist_ok=True)
        with open(full, 'wb') as f:
            f.write(content)


def check_ok(resp, content, label):
    assert resp.status_code == 200, (label, resp.status_code)
    assert resp.data == content, (label, resp.data[:40])
    assert resp.headers['Content-Length'] == str(len(content)), (label, resp.headers)
    assert resp.headers.get('Last-Modified'), (label, resp.headers)
    assert parse_date(resp.headers['Last-Modified']) is not None, label
    assert resp.headers.get('Content-Type'), (label, resp.headers)
    assert 'max-age=360' in resp.headers.get('Cache-Control', ''), (label, resp.headers)


def main():
    base = tempfile.mkdtemp(prefix='c14demo')
    try:
        outer = os.path.join(base, 'outer')
        root1 = os.path.join(outer, 'root1')
        root2 = os.path.join(outer, 'root2')
        write_tree(root1, FILES)
        write_tree(root2, FILES2)
        # secrets beside and above the roots
        write_tree(outer, {'secret.txt': SECRET, 'root1x/secret.txt': SECRET})
        write_tree(base, {'secret.txt': SECRET})
        abs_secret = os.path.join(outer, 'secret.txt')

        sa = StaticApplication([root1, root2])
        sa_single = StaticApplication(root1)  # plain string is wrapped in a list
        assert sa_single.search_paths == [root1]
        apps = {
            '': Application([('/', sa)]),
            '/static': Application([('/static/', sa)]),
            '/deep/er': Application([('/deep/er', sa)]),
        }
        for slash_mode in ('strict', 'rewrite', 'redirect'):
            apps['/m_' + slash_mode] = Application([('/m_' + slash_mode, sa)],
                                                   slash_mode=slash_mode)

        # ---- every file is served at its relative path, first root winning
        expected = dict(FILES2)
        expected.update(FILES)
        for prefix, app in apps.items():
            c = app.get_local_client()
            for rel, content in expected.items():
                resp = c.get(prefix + '/' + rel)
                check_ok(resp, content, (prefix, rel))
        c = apps['/static'].get_local_client()

        # ---- content types: guessed from the name, else sniffed
        ctype = lambda rel: c.get('/static/' + rel).mimetype
        assert ctype('pic.png') == 'image/png'
        assert ctype('style.min.css') == 'text/css'
        assert ctype('sub/b.html') == 'text/html'
        assert ctype('sub/deeper/c.json') == 'application/json'
        assert ctype('noext') == 'text/plain'
        assert ctype('emptynoext') == 'text/plain'
        assert ctype('binblob') == 'application/octet-stream'
        assert ctype('sub/only2.bin') == 'application/octet-stream'
        assert ctype('sub/deeper/.hidden') == 'text/plain'
        sa_mimes = StaticApplication(root1, default_text_mime='text/x-demo',
                                     default_binary_mime='application/x-demo')
        cm = Application([('/', sa_mimes)]).get_local_client()
        assert cm.get('/noext').mimetype == 'text/x-demo'
        assert cm.get('/binblob').mimetype == 'application/x-demo'
        assert cm.get('/a.txt').mimetype == 'text/plain'

        # ---- confinement: enumerate paths from a segment alphabet
        root_pieces = [p for p in outer.split('/') if p]
        segs = ['a.txt', 'sub', 'secret.txt', 'root1', 'root1x', '.', '..', '',
                '...', '%2e%2e', '..%2f', outer.lstrip('/'), abs_secret.lstrip('/')]
        served = {}
        for content_rel, content in expected.items():
            served.setdefault(content, []).append(content_rel)
        allowed_bodies = set(expected.values())
        n_paths = 0
        for depth in (1, 2, 3, 4):
            for combo in itertools.product(segs, repeat=depth):
                if depth == 4 and combo[0] not in ('..', '', 'sub'):
                    continue
                url = '/static/' + '/'.join(combo)
                resp = c.get(url)
                n_paths += 1
                assert resp.status_code in (200, 403, 404), (url, resp.status_code)
                assert SECRET not in resp.data, url
                if resp.status_code == 200:
                    assert resp.data in allowed_bodies, url
                    assert resp.headers['Content-Length'] == str(len(resp.data))
        assert n_paths > 2000
        # absolute path pieces after a doubled slash
        for url in ['/static//' + abs_secret.lstrip('/'),
                    '/static///' + abs_secret.lstrip('/'),
                    '/static/sub//' + abs_secret.lstrip('/'),
                    '/static/' + '/'.join(['..'] * (len(root_pieces) + 3)) + abs_secret,
                    '/static/../secret.txt', '/static/sub/../../secret.txt',
                    '/static/../root1x/secret.txt', '/static/..%2fsecret.txt',
                    '/static/%2e%2e/secret.txt', '/static/%2e%2e%2fsecret.txt',
                    '/static/..\\secret.txt', '/static/sub/deeper/../../../secret.txt']:
            resp = c.get(url)
            assert resp.status_code in (403, 404), (url, resp.status_code)
            assert SECRET not in resp.data, url
        assert c.get('/static/../secret.txt').status_code == 403
        assert c.get('/static//etc/hosts').status_code in (403, 404)
        assert c.get('/static/' + abs_secret).status_code == 403
        assert c.get('/static/sub/../a.txt').status_code == 200  # stays inside
        assert c.get('/static/nope.txt').status_code == 404
        assert c.get('/static/sub').status_code == 404           # a directory
        assert c.get('/static/').status_code == 404
        assert c.get('/static/..').status_code == 403
        assert c.get('/static/...').status_code == 403  # begins with '..': refused
        assert c.get('/static/sub/...').status_code == 200

        # ---- find_file directly
        assert find_file([root1, root2], 'a.txt') == os.path.join(root1, 'a.txt')
        assert find_file([root2, root1], 'a.txt') == os.path.join(root2, 'a.txt')
        assert find_file([root1, root2], 'only2.txt') == os.path.join(root2, 'only2.txt')
        assert find_file([root1], 'only2.txt') is None
        assert find_file([], 'a.txt') is None
        assert find_file([root1], 'sub') is None
        assert find_file([root1], './sub//deeper/../b.html') == os.path.join(root1, 'sub/b.html')
        for bad, frag in [('/etc/hosts', "expected relative path, not '/etc/hosts'"),
                          (abs_secret, 'expected relative path, not %r' % abs_secret),
                          ('../secret.txt', 'attempted to access beyond root directory'),
                          ('..', 'beyond root'), ('sub/../../x', 'beyond root'),
                          ('..hidden', 'beyond root')]:
            try:
                find_file([root1], bad)
            except ValueError as e:
                assert frag in str(e), (bad, str(e))
                assert type(e) is ValueError
            else:
                raise AssertionError('not refused: %r' % bad)
        with mock.patch.object(static_mod, 'IS_WINDOWS', True):
            try:
                find_file([root1], 'c:a.txt')
            except ValueError as e:
                assert str(e) == "unexpected colon in path: 'c:a.txt'", str(e)
            else:
                raise AssertionError('colon not refused')
            assert find_file([root1], 'c:a.txt', limit_root=False) is None
        assert find_file([root1], 'c:a.txt') is None  # not windows: just missing
        assert find_file([root1], '../secret.txt', limit_root=False) == \
            os.path.join(root1, '../secret.txt')
        assert find_file([root1], abs_secret, limit_root=False) == abs_secret

        # ---- conditional requests
        resp = c.get('/static/a.txt')
        lm = resp.headers['Last-Modified']
        lm_dt = parse_date(lm)
        r304 = c.get('/static/a.txt', headers={'If-Modified-Since': lm})
        assert r304.status_code == 304 and r304.data == b''
        assert 'public' in r304.headers['Cache-Control']
        assert 'max-age=360' in r304.headers['Cache-Control']
        later = http_date(lm_dt + timedelta(days=1))
        r = c.get('/static/a.txt', headers={'If-Modified-Since': later})
        assert r.status_code == 304 and r.data == b''
        earlier = http_date(lm_dt - timedelta(days=1))
        r = c.get('/static/a.txt', headers={'If-Modified-Since': earlier})
        check_ok(r, FILES['a.txt'], 'ims-earlier')
        assert 'public' in r.headers['Cache-Control']
        r = c.get('/static/a.txt', headers={'If-Modified-Since': 'garbage'})
        check_ok(r, FILES['a.txt'], 'ims-garbage')
        # caching disabled: never a 304
        sa_nc = StaticApplication(root1, cache_timeout=0)
        cnc = Application([('/', sa_nc)]).get_local_client()
        r = cnc.get('/a.txt', headers={'If-Modified-Since': lm})
        assert r.status_code == 200 and r.data == FILES['a.txt']
        # conditional request for a missing file / directory
        assert c.get('/static/nope', headers={'If-Modified-Since': lm}).status_code == 404
        assert c.get('/static/sub', headers={'If-Modified-Since': lm}).status_code == 404

        # ---- build_file_response directly
        a_path = os.path.join(root1, 'a.txt')
        r = build_file_response(a_path)
        assert r.status_code == 200 and r.content_length == len(FILES['a.txt'])
        assert r.last_modified.replace(tzinfo=None) == get_file_mtime(a_path)
        assert b''.join(r.response) == FILES['a.txt']
        r = build_file_response(a_path, mimetype='application/x-forced')
        assert r.mimetype == 'application/x-forced'
        r.response.close()
        for path, exc in [(os.path.join(root1, 'nope'), NotFound),
                          (os.path.join(root1, 'sub'), NotFound)]:
            try:
                build_file_response(path)
            except exc as e:
                assert e.is_breaking is False
            else:
                raise AssertionError('no %s' % exc)
        try:
            build_file_response(os.path.join(root1, 'nope'), cache_timeout=5,
                                cached_modify_time=datetime(2000, 1, 1))
        except Forbidden as e:
            assert e.is_breaking is False
        else:
            raise AssertionError('no Forbidden')
        r = build_file_response(a_path, cache_timeout=5,
                                cached_modify_time=datetime(2999, 1, 1))
        assert r.status_code == 304 and r.cache_control.max_age == 5

        # ---- fault injection: never a 500, overlapping apps tried in order
        overlap = Application([('/', StaticApplication(root1)),
                               ('/', StaticApplication(root2))])
        co = overlap.get_local_client()
        check_ok(co.get('/a.txt'), FILES['a.txt'], 'overlap-first')
        check_ok(co.get('/only2.txt'), FILES2['only2.txt'], 'overlap-second')
        assert co.get('/nowhere.txt').status_code == 404
        assert co.get('/../secret.txt').status_code == 403

        real_open = builtins.open
        real_getmtime = os.path.getmtime
        real_getsize = os.path.getsize
        real_isfile = os.path.isfile
        target1 = os.path.join(root1, 'a.txt')

        def failing(real, code, only=target1):
            def wrapper(path, *a, **kw):
                if path == only:
                    raise OSError(code, os.strerror(code), path)
                return real(path, *a, **kw)
            return wrapper

        for code in (errno.ENOENT, errno.EACCES, errno.EIO, errno.EISDIR):
            for name, patcher in [
                    ('open', lambda: mock.patch.object(builtins, 'open', failing(real_open, code))),
                    ('getmtime', lambda: mock.patch.object(os.path, 'getmtime', failing(real_getmtime, code))),
                    ('getsize', lambda: mock.patch.object(os.path, 'getsize', failing(real_getsize, code)))]:
                with patcher():
                    # single app: 403, no 500
                    r = c.get('/static/a.txt')
                    assert r.status_code in (403, 404), (name, code, r.status_code)
                    assert FILES['a.txt'] not in r.data
                    # conditional
                    r = c.get('/static/a.txt', headers={'If-Modified-Since': lm})
                    want = (403, 404) if name == 'getmtime' else (304,)
                    assert r.status_code in want, (name, code, r.status_code)
                    assert r.status_code != 304 or r.data == b''
                    # overlapping apps: root2's a.txt is served instead
                    r = co.get('/a.txt')
                    check_ok(r, FILES2['a.txt'], ('fallthrough', name, code))
                    # other files unaffected
                    check_ok(c.get('/static/noext'), FILES['noext'], 'unaffected')
        # ValueError from the filesystem layer (e.g. embedded NUL) is refused too
        with mock.patch.object(os.path, 'getmtime',
                               lambda p: (_ for _ in ()).throw(ValueError('embedded null byte'))):
            assert c.get('/static/a.txt').status_code == 403
        # file vanishes between lookup and open
        vanish = os.path.join(root1, 'vanish.txt')
        with real_open(vanish, 'wb') as f:
            f.write(b'soon gone')
        orig_find = static_mod.find_file

        def find_then_remove(search_paths, path, limit_root=True):
            ret = orig_find(search_paths, path, limit_root)
            if ret == vanish:
                os.remove(vanish)
            return ret
        with mock.patch.object(static_mod, 'find_file', find_then_remove):
            r = c.get('/static/vanish.txt')
        assert r.status_code == 404, r.status_code
        # read error while sniffing the content type
        class BadReader(object):
            def __init__(self, f):
                self.f = f
                self.closed_by_us = False
            def seek(self, *a):
                return self.f.seek(*a)
            def tell(self):
                return self.f.tell()
            def read(self, *a):
                raise IOError(errno.EIO, 'read failed')
            def close(self):
                self.closed_by_us = True
                self.f.close()
        made = []
        noext = os.path.join(root1, 'noext')

        def open_bad(path, *a, **kw):
            f = real_open(path, *a, **kw)
            if path == noext:
                f = BadReader(f)
                made.append(f)
            return f
        with mock.patch.object(builtins, 'open', open_bad):
            r = c.get('/static/noext')
        assert r.status_code == 403 and made and made[0].closed_by_us

        # ---- StaticFileRoute: checks the file at construction
        sfr_app = Application([StaticFileRoute('/fav', os.path.join(root1, 'pic.png')),
                               StaticFileRoute('/forced', a_path, mimetype='text/x-forced'),
                               StaticFileRoute('/late', os.path.join(root1, 'late.txt'),
                                               check_file=False)])
        cs = sfr_app.get_local_client()
        check_ok(cs.get('/fav'), FILES['pic.png'], 'sfr')
        assert cs.get('/fav').mimetype == 'image/png'
        assert cs.get('/forced').mimetype == 'text/x-forced'
        assert cs.get('/late').status_code == 404
        r = cs.get('/fav')
        r = cs.get('/fav', headers={'If-Modified-Since': r.headers['Last-Modified']})
        assert r.status_code == 304 and r.data == b''
        for bad in (os.path.join(root1, 'missing.png'), os.path.join(root1, 'sub')):
            try:
                StaticFileRoute('/x', bad)
            except (IOError, OSError):
                pass
            else:
                raise AssertionError('StaticFileRoute accepted %r' % bad)

        # ---- route conversion for '/<path*>'
        regex, convs = _compile_path_pattern('/<path*>')
        assert list(convs) == ['path']
        conv = convs['path']
        assert conv('') == [] and conv('/a') == ['a'] and conv('/a/b') == ['a', 'b']
        assert conv('//etc/hosts') == ['', 'etc', 'hosts']
        assert '/'.join(conv('//etc/hosts')) == '/etc/hosts'
        assert regex.match('/a/b').group('path') == '/a/b'
        assert regex.match('/').group('path') == ''
        for op, (multi, optional) in {'': (False, False), '?': (False, True),
                                      ':': (False, False), '+': (True, False),
                                      '*': (True, True)}.items():
            assert route_mod._OP_ARITY_MAP[op] is multi
            assert route_mod._OP_OPTIONALITY_MAP[op] is optional
            if not op:
                rx, cv = _compile_path_pattern('/<v>')
                assert cv['v']('/1') == '1' and rx.match('/1/') and not rx.match('/')
                continue
            rx, cv = _compile_path_pattern('/<v%sint>' % op)
            assert bool(rx.match('/')) is optional and bool(rx.match('/1/2')) is multi
            f = cv['v']
            if multi:
                assert f('/1/2') == [1, 2]
            else:
                assert f('/1') == 1
            if optional:
                assert f('') == ([] if multi else None)
            else:
                try:
                    f('')
                except ValueError:
                    pass
                else:
                    assert multi and f('') == []  # '+' with '' -> [] via split
        assert list(route_mod._OP_ARITY_MAP) == ['', '?', ':', '+', '*']
        assert list(route_mod._OP_OPTIONALITY_MAP) == ['', '?', ':', '+', '*']
        for bad_pat, frag in [('/<a!int>', "unknown arity operator '!'"),
                              ('/<a:nope>', 'unknown type specifier nope'),
                              ('/<a>/<a>', 'duplicate path binding a'),
                              ('nolead', 'must start with a forward'),
                              ('/a//b', 'multiple')]:
            try:
                _compile_path_pattern(bad_pat)
            except InvalidPattern as e:
                assert frag in str(e), (bad_pat, str(e))
            else:
                raise AssertionError('accepted %r' % bad_pat)
        try:
            _compile_path_pattern('/<a!int>')
        except InvalidPattern as e:
            assert str(e) == ("unknown arity operator '!', expected one of "
                              "dict_keys(['', '?', ':', '+', '*'])"), str(e)
        assert build_converter(int, multi=True, optional=True)('') == []
        assert build_converter(int)('/4/2') == 42

        # ---- helper functions and their public import paths
        assert static_mod.is_binary_string is is_binary_string
        assert is_binary_string(b'abc') is False and is_binary_string(b'') is False
        assert is_binary_string(b'\x00abc') is True
        assert is_binary_string(b'a' * 4096 + b'\x00') is False
        assert is_binary_string(b'a\x00', sample_size=1) is False
        assert is_binary_string(bytes([7, 8, 9, 10, 12, 13, 27]) + bytes(range(32, 256))) is False
        for x in list(range(0, 7)) + [11] + list(range(14, 27)) + list(range(28, 32)):
            assert is_binary_string(bytes([x])) is True, x
        assert static_mod._PRINTABLE == bytes([7, 8, 9, 10, 12, 13, 27] + list(range(32, 256)))
        with real_open(a_path, 'rb') as f:
            f.read(2)
            assert peek_file(f, 3) == FILES['a.txt'][2:5] and f.tell() == 2
            assert peek_file(f) == FILES['a.txt'][2:] and f.tell() == 2
        try:
            peek_file(object())
        except TypeError as e:
            assert 'expected seekable file object' in str(e)
        else:
            raise AssertionError('peek_file accepted a non-file')
        mt = get_file_mtime(a_path)
        assert isinstance(mt, datetime) and mt.microsecond == 0 and mt.tzinfo is None
        assert mt == datetime.utcfromtimestamp(round(real_getmtime(a_path), 0))
        assert get_file_mtime(a_path, 3) == datetime.utcfromtimestamp(round(real_getmtime(a_path), 3))
        assert static_mod.DEFAULT_MAX_AGE == 360
        assert isinstance(static_mod.IS_WINDOWS, bool)
        assert clastic.StaticApplication is StaticApplication
    finally:
        shutil.rmtree(base, ignore_errors=True)
    print('PASS')


if __name__ == '__main__':
    main()
