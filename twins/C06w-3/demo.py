# -*- coding: utf-8 -*-
"""demo3 -- C06 dispatch: first match in order, methods, 404/405, non-breaking
fallthrough.  Focus of this demo: every way the routing loop of
Application.dispatch can be left (a route answers; breaking / non-breaking
HTTP errors raised or returned; uncaught exceptions; non-Response results;
RerouteWSGI; slash redirect / strict 404 / rewrite; the sentinel 404 / 405;
no route run at all), who renders the final error, plus a model-checked sweep.

Prints PASS and exits 0 when every assertion holds.
"""
import random
import sys

from werkzeug.test import EnvironBuilder

from clastic import (Application, Route, Response, RerouteWSGI, GET, POST,
                     S_REDIRECT, S_REWRITE, S_STRICT)
from clastic.application import DispatchState
from clastic.errors import (Forbidden, NotFound, InternalServerError,
                            BadRequest, ErrorHandler, HTTPException)

# ---------------------------------------------------------------- catalogue

PATTERNS = {
    '/a': (False, lambda s: s == ['a']),
    '/a/': (True, lambda s: s == ['a']),
    '/a/<x>': (False, lambda s: len(s) == 2 and s[0] == 'a'),
    '/<p*>': (False, lambda s: True),
    '/<p+>/': (True, lambda s: len(s) >= 1),
    '/n/<k:int>': (False, lambda s: len(s) == 2 and s[0] == 'n' and s[1].isdigit()),
}
METHOD_SETS = [None, None, (), ['GET'], ['POST'], ['get', 'put'], ['HEAD'],
               ('POST', 'DELETE'), ['PATCH', 'GET', 'OPTIONS']]
BEHAVIOURS = ['ok', 'ok', 'raise403b', 'ret500b', 'raise404nb', 'ret403nb',
              'boom', 'notresp', 'none']
PATHS = ['/', '/a', '/a/', '/a/b', '/a/b//', '/n/5', '/n/5/', '/n/x', '/q/r/s']
METHODS = ['GET', 'HEAD', 'POST', 'PUT', 'DELETE', 'PATCH', 'get', 'Put',
           'FOO']

BEHAVIOUR_RESULT = {  # behaviour -> (status, breaking, marker prefix)
    'ok': (200, True, 'R-'),
    'raise403b': (403, True, 'E-'),
    'ret500b': (500, True, 'E-'),
    'raise404nb': (404, False, 'E-'),
    'ret403nb': (403, False, 'E-'),
    'boom': (500, True, 'X-'),
    'notresp': (500, True, None),
    'none': (500, True, None),
}


def make_endpoint(behaviour, marker):
    def ep():
        if behaviour == 'ok':
            return Response('R-' + marker)
        if behaviour == 'raise403b':
            raise Forbidden(detail='E-' + marker)
        if behaviour == 'ret500b':
            return InternalServerError(detail='E-' + marker)
        if behaviour == 'raise404nb':
            raise NotFound(detail='E-' + marker, is_breaking=False)
        if behaviour == 'ret403nb':
            return Forbidden(detail='E-' + marker, is_breaking=False)
        if behaviour == 'boom':
            raise ValueError('X-' + marker)
        if behaviour == 'notresp':
            return {'S': marker}
        if behaviour == 'none':
            return None
        raise AssertionError(behaviour)
    return ep


def effective_methods(methods):
    if not methods:
        return None
    ret = set(m.upper() for m in methods)
    if 'GET' in ret:
        ret.add('HEAD')
    return ret


def model(table, path, method, mode):
    segs = [s for s in path.split('/') if s]
    last_nb = None
    allowed = set()
    for pattern, methods, behaviour, marker in table:
        is_branch, matches = PATTERNS[pattern]
        if not matches(segs):
            continue
        eff = effective_methods(methods)
        if eff is not None and method.upper() not in eff:
            allowed |= eff
            continue
        norm = '/' + '/'.join(segs) + ('/' if segs else '')
        if is_branch and norm != path:
            if mode == 'redirect':
                return (302, None, None, 'http://localhost' + norm)
            if mode == 'strict':
                last_nb = (404, None, None, None)
                continue
        status, breaking, prefix = BEHAVIOUR_RESULT[behaviour]
        result = (status, prefix + marker if prefix else None, None, None)
        if breaking:
            return result
        last_nb = result
    if last_nb:
        return last_nb
    if allowed:
        return (405, None, ', '.join(sorted(allowed)), None)
    return (404, None, None, None)


def check(app, table, path, method, mode):
    resp = app.get_local_client().open(path, method=method)
    status, marker, allow, location = model(table, path, method, mode)
    ctx = (mode, table, path, method, resp.status_code, resp.headers.get('Allow'),
           resp.headers.get('Location'), resp.data[:80])
    assert resp.status_code == status, ctx
    assert resp.headers.get('Allow') == allow, ctx
    assert resp.headers.get('Location') == location, ctx
    if method.upper() != 'HEAD':
        body = resp.get_data(True)
        if marker is not None:
            assert marker in body, ctx
        elif status == 404:
            assert 'E-' not in body and 'R-' not in body, ctx
        elif status == 405:
            assert 'Allowed methods: %r' % sorted(allow.split(', ')) in body, ctx


def build(rng, table, mode):
    app_mode = S_REWRITE if mode == 'rewrite' else S_REDIRECT
    style = rng.randrange(3)
    if style == 0:      # constructor, Route objects
        app = Application([Route(p, make_endpoint(b, mk), methods=ms)
                           for p, ms, b, mk in table], slash_mode=app_mode)
        order = list(table)
    elif style == 1:    # constructor, tuples where possible
        app = Application([(p, make_endpoint(b, mk)) if ms is None
                           else Route(p, make_endpoint(b, mk), methods=ms)
                           for p, ms, b, mk in table], slash_mode=app_mode)
        order = list(table)
    else:               # add(entry, index)
        app = Application(slash_mode=app_mode)
        order = []
        for spec in table:
            p, ms, b, mk = spec
            index = rng.choice([None, 0, len(order), rng.randrange(0, len(order) + 1)])
            order.insert(len(order) if index is None else index, spec)
            app.add(Route(p, make_endpoint(b, mk), methods=ms), index)
    assert [r.pattern for r in app.routes] == [s[0] for s in order]
    if mode == 'strict':
        for bound in app.routes:
            bound.slash_mode = S_STRICT
    return app, order


def sweep(seed, n_tables):
    rng = random.Random(seed)
    n_checks = 0
    for t in range(n_tables):
        mode = ('redirect', 'strict', 'rewrite', 'redirect')[t % 4]
        table = [(rng.choice(sorted(PATTERNS)), rng.choice(METHOD_SETS),
                  rng.choice(BEHAVIOURS), 'm%d' % i)
                 for i in range(rng.randint(0, 4))]
        app, table = build(rng, table, mode)
        for path in PATHS:
            for method in METHODS:
                check(app, table, path, method, mode)
                n_checks += 1
    return n_checks


# ----------------------------------------------------------- fixed scenarios

def make_request(app, path, method='GET'):
    return app.request_type(EnvironBuilder(path=path, method=method).get_environ())


def loop_exit_scenarios():
    calls = []

    def ep(name, result):
        def endpoint():
            calls.append(name)
            if isinstance(result, Exception) and not getattr(result, '_return_me', False):
                raise result
            return result
        return endpoint

    # -- a route answers: later routes are never run
    app = Application([('/x', ep('one', Response('R-one'))),
                       ('/x', ep('two', Response('R-two')))])
    resp = app.get_local_client().get('/x')
    assert (resp.status_code, resp.get_data(True)) == (200, 'R-one')
    assert calls == ['one']

    # -- dispatch() hands back the very object the endpoint returned
    marker_resp = Response('R-identity')
    app = Application([('/x', ep('id', marker_resp))])
    assert app.dispatch(make_request(app, '/x')) is marker_resp

    # -- non-breaking chain, then an answer
    del calls[:]
    app = Application([('/x', ep('nb1', Forbidden(detail='E-nb1', is_breaking=False))),
                       POST('/x', ep('post', Response('R-post'))),
                       ('/x', ep('nb2', NotFound(detail='E-nb2', is_breaking=False))),
                       ('/x', ep('ans', Response('R-ans'))),
                       ('/x', ep('late', Response('R-late')))])
    resp = app.get_local_client().get('/x')
    assert (resp.status_code, resp.get_data(True)) == (200, 'R-ans')
    assert calls == ['nb1', 'nb2', 'ans']

    # -- non-breaking chain, nobody answers: the most recent one wins, even
    #    over a 405 candidate; a breaking error stops the chain
    del calls[:]
    app = Application([('/x', ep('nb1', Forbidden(detail='E-nb1', is_breaking=False))),
                       POST('/x', ep('post', Response('R-post'))),
                       ('/x', ep('nb2', NotFound(detail='E-nb2', is_breaking=False)))])
    resp = app.get_local_client().get('/x')
    assert resp.status_code == 404 and 'E-nb2' in resp.get_data(True)
    assert resp.headers.get('Allow') is None
    assert calls == ['nb1', 'nb2']
    del calls[:]
    app = Application([('/x', ep('nb1', Forbidden(detail='E-nb1', is_breaking=False))),
                       ('/x', ep('brk', BadRequest(detail='E-brk'))),
                       ('/x', ep('late', Response('R-late')))])
    resp = app.get_local_client().get('/x')
    assert resp.status_code == 400 and 'E-brk' in resp.get_data(True)
    assert calls == ['nb1', 'brk']

    # -- returned (not raised) errors behave the same
    returned = Forbidden(detail='E-ret', is_breaking=False)
    returned._return_me = True
    del calls[:]
    app = Application([('/x', ep('ret', returned)),
                       ('/x', ep('ans', Response('R-ans')))])
    resp = app.get_local_client().get('/x')
    assert (resp.status_code, resp.get_data(True)) == (200, 'R-ans')
    assert calls == ['ret', 'ans']

    # -- is_breaking is read by truthiness, missing means breaking
    for value, falls_through in [(0, True), ('', True), (None, True), (False, True),
                                 (1, False), ('no', False), (True, False)]:
        exc = Forbidden(detail='E-truthy')
        exc.is_breaking = value
        app = Application([('/x', ep('t', exc)), ('/x', ep('ans', Response('R-ans')))])
        resp = app.get_local_client().get('/x')
        assert (resp.status_code == 200) == falls_through, (value, resp.status_code)
    exc = Forbidden(detail='E-noattr')
    del exc.is_breaking
    app = Application([('/x', ep('t', exc)), ('/x', ep('ans', Response('R-ans')))])
    assert app.get_local_client().get('/x').status_code == 403

    # -- uncaught exceptions and non-Response results are breaking 500s
    for result in (ValueError('X-boom'), KeyError('X-key'), 'a string', None, 0, [], {}):
        del calls[:]
        app = Application([('/x', ep('bad', result)), ('/x', ep('late', Response('R-late')))])
        resp = app.get_local_client().get('/x')
        assert resp.status_code == 500, result
        assert calls == ['bad']
    app = Application([('/x', ep('bad', ValueError('X-boom')))],
                      error_handler=ErrorHandler(reraise_uncaught=True))
    try:
        app.get_local_client().get('/x')
    except ValueError as ve:
        assert str(ve) == 'X-boom'
    else:
        raise AssertionError('uncaught exception was not re-raised')

    # -- RerouteWSGI leaves dispatch as an exception, raised or as endpoint
    inner = Application([('/<p*>', ep('inner', Response('R-inner')))])
    for entry in [('/x', RerouteWSGI(inner)), ('/x', ep('rr', RerouteWSGI(inner)))]:
        app = Application([('/x', ep('nb', Forbidden(is_breaking=False))), entry,
                           ('/x', ep('late', Response('R-late')))])
        resp = app.get_local_client().get('/x')
        assert (resp.status_code, resp.get_data(True)) == (200, 'R-inner')
        try:
            app.dispatch(make_request(app, '/x'))
        except RerouteWSGI as rre:
            assert rre.wsgi_app is inner
        else:
            raise AssertionError('RerouteWSGI swallowed')

    # -- sentinel: 404 when no pattern matched, 405 + Allow when only the
    #    method was wrong, Allow = union over path-matching routes only
    app = Application([GET('/x', ep('g', Response('R-g'))),
                       Route('/x', ep('pd', Response('R-pd')), methods=['put', 'DELETE']),
                       POST('/y', ep('p', Response('R-p'))),
                       Route('/x/<z>', ep('o', Response('R-o')), methods=['OPTIONS'])])
    cl = app.get_local_client()
    resp = cl.post('/x')
    assert resp.status_code == 405 and resp.headers['Allow'] == 'DELETE, GET, HEAD, PUT'
    resp = cl.open('/x', method='brew')
    assert resp.status_code == 405 and resp.headers['Allow'] == 'DELETE, GET, HEAD, PUT'
    resp = cl.get('/y')
    assert resp.status_code == 405 and resp.headers['Allow'] == 'POST'
    resp = cl.get('/x/1')
    assert resp.status_code == 405 and resp.headers['Allow'] == 'OPTIONS'
    assert cl.get('/nope').status_code == 404
    assert cl.get('/nope').headers.get('Allow') is None
    assert cl.open('/x', method='head').status_code == 200
    assert cl.open('/x', method='delete').get_data(True) == 'R-pd'
    assert Application().get_local_client().get('/').status_code == 404

    # -- slash handling of the first admitting branch route
    del calls[:]
    app = Application([POST('/d/', ep('dp', Response('R-dp'))),
                       ('/d/', ep('d', Response('R-d'))),
                       ('/d', ep('leaf', Response('R-leaf')))])
    cl = app.get_local_client()
    resp = cl.get('/d')
    assert resp.status_code == 302 and resp.headers['Location'] == 'http://localhost/d/'
    assert calls == []
    app.routes[1].slash_mode = S_STRICT
    assert cl.get('/d').get_data(True) == 'R-leaf'
    app.routes[1].slash_mode = S_REWRITE
    assert cl.get('/d').get_data(True) == 'R-d'
    app.routes[1].slash_mode = 'something-else'
    assert cl.get('/d').get_data(True) == 'R-d'
    app.routes[1].slash_mode = S_STRICT
    del app.routes[2]
    resp = cl.get('/d')
    assert resp.status_code == 404 and resp.headers.get('Allow') is None

    # -- no route run at all (not even the null route): dispatch returns None
    app = Application([('/x', ep('x', Response('R-x')))])
    req = make_request(app, '/x')
    req.path = 'relative'
    assert app.dispatch(req) is None
    # a pending non-breaking error is rendered even when the null route is
    # not reached
    app = Application([('/x', ep('nb', Forbidden(detail='E-pending', is_breaking=False)))])
    app._null_route.match_path = lambda path: None
    resp = app.get_local_client().get('/x')
    assert resp.status_code == 403 and 'E-pending' in resp.get_data(True)


def error_rendering_scenarios():
    def render_a(_error, _route):
        return Response('RE-a:%s:%s' % (_error.code, _route.pattern), status=_error.code)

    def render_b(_error, _route):
        return Response('RE-b:%s:%s' % (_error.code, _route.pattern), status=_error.code)

    def render_broken(_error):
        raise RuntimeError('render_error is broken')

    holder = {}

    def nb():
        raise Forbidden(detail='E-a', is_breaking=False)

    def brk():
        raise BadRequest(detail='E-b')

    def foreign():
        raise Forbidden(detail='E-foreign', source_route=holder['route_a'])

    def ok():
        return Response('R-ok')

    app = Application()
    app.add(Route('/a/<v>', nb, render_error=render_a), rebind_render_error=False)
    app.add(Route('/a/b', brk, render_error=render_b), rebind_render_error=False)
    app.add(Route('/f', foreign, render_error=render_b), rebind_render_error=False)
    app.add(Route('/broken', brk, render_error=render_broken), rebind_render_error=False)
    app.add(Route('/a/c', ok, methods=['POST']))
    holder['route_a'] = app.routes[0]
    cl = app.get_local_client()
    # the error is rendered by the route it came from (source_route)
    resp = cl.get('/a/b')
    assert (resp.status_code, resp.get_data(True)) == (400, 'RE-b:400:/a/b')
    resp = cl.get('/a/zzz')
    assert (resp.status_code, resp.get_data(True)) == (403, 'RE-a:403:/a/<v>')
    # ... a source_route set beforehand is kept
    resp = cl.get('/f')
    assert (resp.status_code, resp.get_data(True)) == (403, 'RE-a:403:/a/<v>')
    # ... a pending non-breaking error beats the 405 and keeps its renderer
    resp = cl.get('/a/c')
    assert (resp.status_code, resp.get_data(True)) == (403, 'RE-a:403:/a/<v>')
    # ... a failing render_error falls back to the default rendering
    resp = cl.get('/broken')
    assert resp.status_code == 400 and 'E-b' in resp.get_data(True)
    resp = cl.get('/broken', headers={'Accept': 'application/json'})
    assert resp.status_code == 400 and resp.mimetype == 'application/json'
    # dispatch returns the HTTPException itself after default rendering
    ret = app.dispatch(make_request(app, '/nothing'))
    assert isinstance(ret, HTTPException) and ret.code == 404
    assert ret.source_route is app._null_route
    assert type(ret.dispatch_state) is DispatchState


def main():
    loop_exit_scenarios()
    error_rendering_scenarios()
    n = sweep(seed=6063, n_tables=160)
    assert n == 160 * len(PATHS) * len(METHODS)
    print('PASS (%d model-checked requests)' % n)
    return 0


if __name__ == '__main__':
    sys.exit(main())
