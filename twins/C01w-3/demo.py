# -*- coding: utf-8 -*-
"""demo3: the generated nested-call source (sinter.build_chain_str /
compile_chain / make_chain) passes exactly the names that are in scope, and the
bind-time accept/reject decision + run-time behaviour built on it.

Prints PASS and exits 0 on unmodified code and with patch3.diff applied.
"""
import os
import sys

sys.path.insert(0, os.path.dirname(os.path.abspath(__file__)))

from werkzeug.wrappers import Response

from clastic import Application, Route, Middleware
from clastic.errors import ErrorHandler
from clastic.sinter import build_chain_str, compile_chain, make_chain


class ReraisingHandler(ErrorHandler):
    def uncaught_to_response(self, _application, _route, **kwargs):
        raise


def render_txt(context):
    return Response(repr(context), mimetype='text/plain')


def get(app, path):
    resp = app.get_local_client().get(path)
    return resp.status_code, resp.get_data(True)


def raises(exc_type, func, *a, **kw):
    try:
        func(*a, **kw)
    except exc_type as e:
        return e
    raise AssertionError('expected %s' % exc_type.__name__)


# ------------------------------------------------------------ source strings

def mw_a(next, x, opt=None):
    return next(a=(x, opt))


def mw_b(next, a, zeta, alpha=1):
    return next(b=(a, zeta, alpha), c='c')


def final(b, c, a, x, unknown='dflt', *, kwo='kwo'):
    return (b, c, a, x, unknown, kwo)


GOLDEN_3 = (
    "def next(x, zeta):\n"
    "    def next(a):\n"
    "        def next(b, c):\n"
    "            __traceback_hide__ = True\n"
    "            return funcs[2](a=a, b=b, c=c, x=x)\n"
    "        __traceback_hide__ = True\n"
    "        return funcs[1](a=a, next=next, zeta=zeta)\n"
    "    __traceback_hide__ = True\n"
    "    return funcs[0](next=next, x=x)\n")

GOLDEN_1 = (
    "def inner():\n"
    "    __traceback_hide__ = True\n"
    "    return funcs[0]()\n")

GOLDEN_LEVEL = (
    "        def nxt(zeta):\n"
    "            def nxt():\n"
    "                __traceback_hide__ = True\n"
    "                return funcs[3](a=a, x=x)\n"
    "            __traceback_hide__ = True\n"
    "            return funcs[2](a=a, zeta=zeta)\n")


def check_chain_str():
    funcs = [mw_a, mw_b, final]
    params = [['x', 'zeta'], ('a',), ['b', 'c']]
    assert build_chain_str(funcs, params, 'next') == GOLDEN_3
    # tuples work as well as lists, inputs are left alone
    assert build_chain_str(tuple(funcs), tuple(params), 'next') == GOLDEN_3
    assert funcs == [mw_a, mw_b, final]
    assert params == [['x', 'zeta'], ('a',), ['b', 'c']]

    # nothing in scope: nothing passed, not even the inner name of another chain
    assert build_chain_str([final], [[]], 'inner') == GOLDEN_1
    # empty / falsy chains
    assert build_chain_str([], [], 'next') == ''
    assert build_chain_str((), [['ignored']], 'next') == ''
    assert build_chain_str(None, None, 'next') == ''

    # explicit params_sofar and level: the set is updated in place, the
    # function index and the indentation start at *level*; 'nxt' is not in
    # scope because the caller's set does not have it
    sofar = set(['a', 'x'])
    out = build_chain_str([mw_b, final], [['zeta'], []], 'nxt', sofar, 2)
    assert out == GOLDEN_LEVEL, out
    assert sofar == set(['a', 'x', 'zeta'])
    sofar = set()
    assert build_chain_str([], [['q']], 'next', sofar) == '' and sofar == set()

    # more params than funcs: the extra ones are ignored
    assert build_chain_str([final], [[], ['zzz']], 'inner') == GOLDEN_1
    # fewer params than funcs: IndexError
    raises(IndexError, build_chain_str, [mw_a, final], [['x']], 'next')
    sofar = set()
    raises(IndexError, build_chain_str, [mw_a, final], [['x']], 'next', sofar)
    assert sofar == set(['x'])
    # a member that has no signature
    raises((TypeError, AttributeError, ValueError), build_chain_str,
           [mw_a, None], [['x'], []], 'next')
    # parameter names must be strings
    raises(TypeError, build_chain_str, [final], [[1]], 'next')

    # a long chain (deeper than a few levels)
    def make_mw(i):
        # signature (next, p<i>), provides p<i+1>
        ns = {}
        exec('def mw(next, p%d):\n    return next(p%d=p%d + 1)\n' % (i, i + 1, i), ns)
        return ns['mw']
    depth = 40
    mws = [make_mw(i) for i in range(depth)]
    ns = {}
    exec('def last(p0, p%d, p%d):\n    return (p0, p%d, p%d)\n'
         % (depth // 2, depth, depth // 2, depth), ns)
    chain_funcs = mws + [ns['last']]
    chain_params = [['p0']] + [['p%d' % (i + 1)] for i in range(depth)]
    src = build_chain_str(chain_funcs, chain_params, 'next')
    lines = src.splitlines()
    assert len(lines) == 3 * (depth + 1)
    assert lines[0] == 'def next(p0):'
    assert lines[depth] == '    ' * depth + 'def next(p%d):' % depth
    assert lines[depth + 2] == ('    ' * (depth + 1)
                                + 'return funcs[%d](p0=p0, p%d=p%d, p%d=p%d)'
                                % (depth, depth // 2, depth // 2, depth, depth))
    assert lines[-1] == '    return funcs[0](next=next, p0=p0)'
    chain = compile_chain(chain_funcs, chain_params, 'next')
    assert chain(p0=0) == (0, depth // 2, depth)
    assert chain(100) == (100, 100 + depth // 2, 100 + depth)


def check_compiled_chain():
    chain = compile_chain([mw_a, mw_b, final], [['x', 'zeta'], ['a'], ['b', 'c']], 'next')
    assert chain(x=1, zeta=2) == (((1, None), 2, 1), 'c', (1, None), 1, 'dflt', 'kwo')
    raises(TypeError, chain, x=1)                    # missing argument
    raises(TypeError, chain, x=1, zeta=2, opt=3)     # unexpected argument

    # make_chain: optional names are forwarded only when preprovided
    ch, args, unres = make_chain([mw_a, mw_b], [('a',), ('b', 'c')], final,
                                 ['x', 'zeta', 'opt', 'unknown', 'unrelated'], 'next')
    assert args == {'x', 'zeta', 'opt', 'unknown'} and unres == set()
    assert ch(x=1, zeta=2, opt='O', unknown='U') == (((1, 'O'), 2, 1), 'c', (1, 'O'), 1, 'U', 'kwo')
    ch, args, unres = make_chain([mw_a, mw_b], [('a',), ('b', 'c')], final, ['x'], 'next')
    assert args == {'x', 'zeta'} and unres == {'zeta'}
    # a provider after its consumer does not help
    ch, args, unres = make_chain([mw_b, mw_a], [('b', 'c'), ('a',)], final, ['x', 'zeta'], 'next')
    assert unres == {'a'}
    # empty chain
    ch, args, unres = make_chain([], [], lambda: 'leaf', ['x'], 'next')
    assert (ch(), args, unres) == ('leaf', set(), set())
    # falsy values travel through untouched
    ch, args, unres = make_chain([mw_a], [('a',)], lambda a, x: (a, x), ['x', 'opt'], 'next')
    assert ch(x=0, opt='') == ((0, ''), 0)


# -------------------------------------------------------- application level

class ProvA(Middleware):
    provides = ('a',)

    def request(self, next, x=None):
        return next(a=('A', x))


class ProvB(Middleware):
    provides = ('b',)
    endpoint_provides = ('eb',)
    render_provides = ('rb',)

    def request(self, next, a):
        return next(b=('B', a))

    def endpoint(self, next, b, num=None):
        return next(eb=('EB', b, num))

    def render(self, next, context, eb=None):
        return next(rb=('RB', context, eb))


class Silent(Middleware):
    # takes part in no phase at all
    provides = ('never',)


def check_application():
    def ep(a, b, eb, request):
        return [a, b, eb, request.path]

    def rn(context, rb, a):
        return Response(repr((context, rb, a)))

    mws = [ProvA(), Silent(), ProvB()]
    app = Application(routes=[('/', ep, rn), ('/n/<num:int>', ep, rn)], middlewares=mws,
                      error_handler=ReraisingHandler())
    a = ('A', None)
    b = ('B', a)
    ctx0 = [a, b, ('EB', b, None), '/']
    assert get(app, '/') == (200, repr((ctx0, ('RB', ctx0, None), a)))
    ctx7 = [a, b, ('EB', b, 7), '/n/7']
    assert get(app, '/n/7') == (200, repr((ctx7, ('RB', ctx7, None), a)))
    assert get(app, '/missing')[0] == 404

    # optional 'x' of the first middleware picks up a resource
    app = Application(routes=[('/', ep, rn)], middlewares=mws, resources={'x': 0},
                      error_handler=ReraisingHandler())
    a = ('A', 0)
    b = ('B', a)
    ctx0 = [a, b, ('EB', b, None), '/']
    assert get(app, '/') == (200, repr((ctx0, ('RB', ctx0, None), a)))

    # rejections
    raises(NameError, Application, routes=[('/', ep, rn)], middlewares=[ProvB(), ProvA()])
    raises(NameError, Application, routes=[('/', ep, rn)], middlewares=[ProvA()])
    # 'never' is declared but its middleware has no request function: the
    # name is not available
    raises(NameError, Application, routes=[('/', lambda never: 1, render_txt)],
           middlewares=[Silent()])
    # endpoint_provides are not visible to request middlewares
    class NeedsEb(Middleware):
        def request(self, next, eb):
            return next()
    raises(NameError, Application, routes=[('/', ep, rn)], middlewares=mws + [NeedsEb()])
    # 'context' only exists in the render phase
    raises(NameError, Application, routes=[('/', lambda context: 1, render_txt)])
    # render_provides are not visible to the endpoint
    raises(NameError, Application, routes=[('/', lambda rb: 1, render_txt)], middlewares=mws)

    # a Response from the endpoint skips render (and its middlewares' results)
    app = Application(routes=[('/', lambda a: Response('direct %r' % (a,)), rn)],
                      middlewares=mws, error_handler=ReraisingHandler())
    assert get(app, '/') == (200, "direct ('A', None)")

    # route-level middlewares + Application.add
    app = Application(routes=[], middlewares=[ProvA()], error_handler=ReraisingHandler())
    raises(NameError, app.add, ('/', ep, rn))
    app.add(Route('/', ep, rn, middlewares=[ProvB()]))
    a = ('A', None)
    b = ('B', a)
    ctx0 = [a, b, ('EB', b, None), '/']
    assert get(app, '/') == (200, repr((ctx0, ('RB', ctx0, None), a)))


def main():
    check_chain_str()
    check_compiled_chain()
    check_application()
    print('PASS')


if __name__ == '__main__':
    main()
