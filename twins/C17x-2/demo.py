# -*- coding: utf-8 -*-
"""Demo for property C17: the basic and JSON renderers accept every endpoint
result.  Prints PASS and exits 0 on clean code and with the patch applied."""
import sys
import json
import types
import datetime
from collections.abc import Mapping

from werkzeug.test import EnvironBuilder
from werkzeug.wrappers import Request, Response

from clastic.render import (render_basic, render_json, render_json_dev,
                            BasicRender, JSONRender, JSONPRender,
                            TabularRender, Table)
from clastic.render.simple import ClasticJSONEncoder
from clastic.render import tabular as tabmod
from clastic.render.tabular import (escape_html, linkify, html_escape,
                                    _STYLE_CONTENT, _CSS_PATH, _CUR_PATH,
                                    _URL_RE, _FIND_ALL_URL_RE)

CHECKS = [0]


def check(cond, msg):
    CHECKS[0] += 1
    if not cond:
        print('FAIL: %s' % (msg,))
        sys.exit(1)


def req(query='', accept=None):
    headers = {}
    if accept is not None:
        headers['Accept'] = accept
    builder = EnvironBuilder(path='/', query_string=query, headers=headers)
    return Request(builder.get_environ())


def endpoint(a, b=2):
    """Shows things.
       See http://example.com/x <now> & then
    """
    return None


def nodoc_endpoint():
    return None


ROUTE = types.SimpleNamespace(endpoint=endpoint)
NODOC_ROUTE = types.SimpleNamespace(endpoint=nodoc_endpoint)


class WithToDict(object):
    def to_dict(self):
        return {'kind': 'to_dict'}

    def asdict(self):
        return {'kind': 'WRONG'}


class WithAsDict(object):
    to_dict = 'not callable'

    def asdict(self):
        return {'kind': 'asdict'}

    def isoformat(self):
        return 'WRONG'


class WithIso(object):
    def isoformat(self):
        return 'iso!'


class Plain(object):
    def __repr__(self):
        return '<Plain obj>'


class Counting(object):
    "counts attribute lookups that fall through to __getattr__"
    def __init__(self):
        self.seen = []

    def __getattr__(self, name):
        self.seen.append(name)
        if name == 'asdict':
            return lambda: ['counted']
        raise AttributeError(name)


class MyMap(Mapping):
    def __init__(self, d):
        self.d = d

    def __getitem__(self, k):
        return self.d[k]

    def __iter__(self):
        return iter(self.d)

    def __len__(self):
        return len(self.d)


class BrokenMap(MyMap):
    "Mapping whose dict() fails but whose list() works"
    def __getitem__(self, k):
        raise RuntimeError('nope')


class TextRender(BasicRender):
    _format_mime_map = {'html': 'text/html',
                        'json': 'application/json',
                        'text': 'text/plain'}


def body(resp):
    return resp.get_data()


def main():
    # ---- already serialized text / bytes
    texts = [(u'{"a": 1}', 'application/json'),
             (u'[1, 2]', 'application/json'),
             (u'{]', 'text/plain'),
             (u'[}', 'text/plain'),
             (u'{', 'text/plain'),
             (u'}', 'text/plain'),
             (u'', 'text/plain'),
             (u'hello', 'text/plain'),
             (u'h\xe9llo ☃', 'text/plain'),
             (u'<!doctype html><html><body>x</body></html>', 'text/html'),
             (u' ' * 163 + u'<html>', 'text/html'),
             (u' ' * 164 + u'<html>', 'text/plain'),
             (u'{"h": "<html>"}', 'application/json'),
             (u'{} ', 'text/plain')]
    for query, accept in [('', None), ('format=json', None),
                          ('format=html', 'text/html'), ('format=xml', None)]:
        for text, mime in texts:
            for val in (text, text.encode('utf8')):
                resp = render_basic(val, req(query, accept), ROUTE)
                check(resp.status_code == 200, 'status %r' % (val,))
                check(resp.mimetype == mime, 'mime %r %r' % (val, resp.mimetype))
                check(body(resp) == text.encode('utf8'), 'body %r' % (val,))

    # ---- non-Sized values -> str() as text/plain
    gen = (i for i in range(3))
    for val in (0, 1, -7, 1.5, True, False, None, Plain(), gen, WithToDict(),
                datetime.datetime(2020, 1, 2, 3, 4, 5), Response('x')):
        for query, accept in [('', None), ('format=html', None),
                              ('format=xml', 'text/html')]:
            resp = render_basic(val, req(query, accept), ROUTE)
            check(resp.status_code == 200, 'status nonsized')
            check(resp.mimetype == 'text/plain', 'mime nonsized %r' % (val,))
            check(body(resp) == str(val).encode('utf8'), 'body nonsized')

    # ---- Sized values -> JSON by default, parse back
    natives = [{}, [], {'a': 1}, [1, 2, 3], {'a': {'b': [1, {'c': None}]}},
               [True, False, None, 1.25, -3, u'', u'☃ \xe9'],
               {'z': 1, 'a': 2, 'm': [[], {}]}, [[1, 2], [3, 4]],
               [{'x': 1, 'y': 2}, {'x': 3, 'y': 4}]]
    json_reqs = [('', None), ('format=json', None), ('format=json', 'text/html'),
                 ('', 'application/json'), ('', 'text/plain'),
                 ('', 'image/png'), ('', ''), ('format=', 'application/json'),
                 ('', 'application/json;q=0.9, text/html;q=0.8'),
                 ('other=html', None)]
    for val in natives:
        for query, accept in json_reqs:
            resp = render_basic(val, req(query, accept), ROUTE)
            check(resp.status_code == 200, 'status json')
            check(resp.mimetype == 'application/json',
                  'mime json %r %r %r' % (val, query, accept))
            check(resp.mimetype_params.get('charset') == 'utf-8', 'charset')
            check(json.loads(body(resp).decode('utf-8')) == val,
                  'roundtrip %r' % (val,))
            check(body(resp) == json.dumps(val, indent=2, sort_keys=True,
                                           ensure_ascii=True).encode('utf8'),
                  'exact json %r' % (val,))
    # tuple / set / custom mapping
    resp = render_basic((1, 2), req(), ROUTE)
    check(json.loads(body(resp)) == [1, 2], 'tuple')
    resp = render_basic({5}, req(), ROUTE)
    check(json.loads(body(resp)) == [5], 'set')
    resp = render_basic(MyMap({'k': (1, {2})}), req(), ROUTE)
    check(json.loads(body(resp)) == {'k': [1, [2]]}, 'mymap')
    resp = render_basic({'o': Plain(), 'd': datetime.date(2020, 1, 2),
                         't': WithToDict(), 'a': WithAsDict(), 'i': WithIso(),
                         'c': WithToDict, 'b': BrokenMap({'q': 1})},
                        req(), ROUTE)
    check(json.loads(body(resp)) ==
          {'o': '<Plain obj>', 'd': '2020-01-02', 't': {'kind': 'to_dict'},
           'a': {'kind': 'asdict'}, 'i': 'iso!', 'c': repr(WithToDict),
           'b': ['q']},
          'exotic %r' % (body(resp),))

    # ---- unsupported format -> ValueError (only for Sized values)
    for val in ({'a': 1}, [1], (), {}):
        try:
            render_basic(val, req('format=xml', 'text/html'), ROUTE)
        except ValueError as ve:
            msg = str(ve)
            check(msg.startswith('format expected one of ') and
                  msg.endswith(", not 'xml'") and 'dict_keys' in msg and
                  "'html'" in msg and "'json'" in msg, 'msg %r' % msg)
            check(type(ve) is ValueError, 'exc type')
        else:
            check(False, 'no ValueError')

    # ---- HTML table on request
    def expected_html(val, route, render=None):
        render = render or render_basic.tabular_render
        parts = ['<html>']
        if _STYLE_CONTENT:
            parts += ['<head><style type="text/css">', _STYLE_CONTENT,
                      '</style></head>']
        parts.append('<body>')
        if route:
            parts.append(render._html_format_ep(route))
        if isinstance(val, Table):
            tab = val
        else:
            tab = Table.from_data(val, max_depth=4)
        tab._html_table_tag = '<table class="clastic-atr-table">'
        parts.append(tab.to_html(max_depth=4, orientation='auto',
                                 with_metadata=True))
        parts += ['</body>', '</html>']
        return '\n'.join(parts).encode('utf8')

    check(bool(_STYLE_CONTENT), 'stylesheet was loaded')
    tabular = [{'a': 1, 'b': u'x<y>'}, [1, 2, 3], [u'a', u'b'],
               [{'x': 1, 'y': 2}, {'x': 3, 'y': 4}], [[1, 2], [3, 4]],
               {'only': None}, (1, 2)]
    html_reqs = [('format=html', None), ('format=html', 'application/json'),
                 ('', 'text/html'), ('', 'text/html,application/json;q=0.5'),
                 ('format=', 'text/html'), ('', '*/*')]
    for val in tabular:
        for query, accept in html_reqs:
            for route in (ROUTE, NODOC_ROUTE, None):
                resp = render_basic(val, req(query, accept), route)
                check(resp.status_code == 200, 'html status')
                check(resp.mimetype == 'text/html', 'html mime %r' % (val,))
                check(body(resp) == expected_html(val, route),
                      'html body %r %r' % (val, route))
                check(b'<table class="clastic-atr-table">' in body(resp),
                      'table tag')
    # a ready-made Table is used as is
    tab = Table.from_data([{'x': 1}])
    resp = TabularRender()(tab, ROUTE)
    check(body(resp) == expected_html(tab, ROUTE), 'Table passthrough')
    check(tab._html_table_tag == '<table class="clastic-atr-table">', 'tag set')
    # the endpoint header
    title = TabularRender()._html_format_ep(ROUTE)
    check(title.startswith('<h2><small><sub>'), 'title start')
    check('endpoint(a, b)' in title or 'endpoint(' in title, 'title name')
    check('<a href="http://example.com/x">http://example.com/x</a>' in title,
          'linkified doc %r' % title)
    check('&lt;now&gt; &amp; then' in title, 'escaped doc')
    check('<p style="white-space: pre;">Shows things.\n' in title, 'dedent')
    check(TabularRender()._html_format_ep(NODOC_ROUTE).endswith(
        '<!-- add a docstring to display a message here! -->'), 'nodoc')
    lam_route = types.SimpleNamespace(endpoint=lambda: None)
    check('(lambda)' in TabularRender()._html_format_ep(lam_route), 'lambda')

    # without stylesheet
    class NoStyle(TabularRender):
        _html_style_content = ''
    resp = NoStyle()([1], None)
    check(body(resp).startswith(b'<html>\n<body>\n<table'), 'nostyle')
    check(body(resp).endswith(b'</body>\n</html>'), 'tail')

    # ---- helper exports of the tabular module stay importable
    check(escape_html(u'<a href="x">&\'') ==
          u'&lt;a href=&quot;x&quot;&gt;&amp;&#x27;', 'escape_html')
    check(html_escape(u'"', False) == u'"', 'html_escape export')
    check(tabmod._STYLE_CONTENT is _STYLE_CONTENT, 'style export')
    check(TabularRender._html_style_content is _STYLE_CONTENT, 'class style')
    check(_CSS_PATH == _CUR_PATH + '/../_clastic_assets/common.css', 'css path')
    check(_CUR_PATH.endswith('/clastic/render'), 'cur path %r' % _CUR_PATH)
    check(open(_CSS_PATH).read() == _STYLE_CONTENT, 'style content')
    check(linkify(u'see www.x.org, ok') ==
          u'see <a href="https://www.x.org">https://www.x.org</a>, ok', 'linkify')
    check(linkify(u'ftp://a.b/c', schemes=('http',)) == u'ftp://a.b/c', 'schemes')
    check(linkify(u'www.x.org', default_scheme=None) == u'www.x.org', 'noscheme')
    check(_URL_RE.match('http://a/b?c#d').group('query') == 'c', '_URL_RE')
    check(_FIND_ALL_URL_RE.search('x http://a.b y').group(1) == 'http://a.b',
          '_FIND_ALL_URL_RE')

    # ---- subclass with an extra plain-text format
    trender = TextRender()
    resp = trender({'a': 1}, req('format=text'), ROUTE)
    check(resp.mimetype == 'text/plain' and body(resp) == b"{'a': 1}", 'text fmt')
    resp = trender([1], req('', 'text/plain'), ROUTE)
    check(resp.mimetype == 'text/plain' and body(resp) == b'[1]', 'text accept')
    resp = trender([1], req('', 'image/png'), ROUTE)
    check(resp.mimetype == 'application/json', 'text default')
    check(sorted(trender._mime_format_map.items()) ==
          [('application/json', 'json'), ('text/html', 'html'),
           ('text/plain', 'text')], 'mime format map')
    check(type(render_basic._mime_format_map) is dict, 'map type')
    check(list(render_basic.formats) == ['html', 'json'], 'formats')
    check(list(render_basic.mimetypes) == ['text/html', 'application/json'],
          'mimetypes')
    # other query-parameter name
    frender = BasicRender(qp_name='fmt')
    check(frender([1], req('fmt=html'), None).mimetype == 'text/html', 'qp')
    check(frender([1], req('format=html'), None).mimetype == 'application/json',
          'qp other')
    try:
        BasicRender(bogus=1)
    except TypeError as te:
        check(str(te) == "unexpected keyword arguments: {'bogus': 1}", 'kw msg')
    else:
        check(False, 'no TypeError')

    # ---- JSON renderers proper
    for val in natives:
        for render in (render_json, render_json_dev, JSONRender(streaming=True),
                       JSONRender(True, True, 'latin-1')):
            resp = render(val)
            check(resp.status_code == 200, 'json status')
            check(resp.mimetype == 'application/json', 'json mime')
            check(resp.mimetype_params['charset'] == render.encoding, 'json cs')
            check(json.loads(body(resp).decode('utf-8')) == val, 'json rt')
    check(body(render_json_dev({'o': Plain()})) == b'{\n  "o": "<Plain obj>"\n}',
          'dev repr')
    check(json.loads(body(render_json_dev([WithToDict])))[0] == repr(WithToDict),
          'dev class')
    for bad in (Plain(), WithToDict, object()):
        try:
            render_json({'o': bad})
        except TypeError as te:
            check(str(te) == 'cannot serialize to JSON: %r' % (bad,), 'te msg')
        else:
            check(False, 'no TypeError for %r' % (bad,))
    # encoder defaults and overrides
    enc = ClasticJSONEncoder(encoding='utf-8')
    check((enc.skipkeys, enc.ensure_ascii, enc.indent, enc.sort_keys,
           enc.dev_mode) == (True, True, 2, True, False), 'enc defaults')
    enc = ClasticJSONEncoder(indent=None, sort_keys=False, dev_mode=1)
    check((enc.indent, enc.sort_keys, enc.dev_mode) == (None, False, 1), 'enc kw')
    check(enc.default(WithToDict()) == {'kind': 'to_dict'}, 'to_dict first')
    check(enc.default(WithAsDict()) == {'kind': 'asdict'}, 'asdict second')
    check(enc.default(WithIso()) == 'iso!', 'iso third')
    check(enc.default(BrokenMap({'q': 1})) == ['q'], 'broken map')
    counting = Counting()
    check(enc.default(counting) == ['counted'], 'counting result')
    check(counting.seen == ['to_dict', 'asdict', 'asdict'],
          'lookups %r' % (counting.seen,))
    counting = Counting()
    counting.asdict = None
    check(enc.default(counting) == repr(counting), 'counting repr')
    check(counting.seen == ['to_dict', 'isoformat'], 'lookups2')

    # ---- JSONP
    jsonp = JSONPRender()
    resp = jsonp(req('callback=cb'), {'a': [1, None]})
    check(resp.mimetype == 'application/javascript', 'jsonp mime')
    check(resp.mimetype_params['charset'] == 'utf-8', 'jsonp cs')
    text = body(resp).decode('utf8')
    check(text.startswith('cb(') and text.endswith(');'), 'jsonp wrap')
    check(json.loads(text[3:-2]) == {'a': [1, None]}, 'jsonp payload')
    for query in ('', 'callback=', 'cb=x'):
        resp = jsonp(req(query), {'a': 1})
        check(resp.mimetype == 'application/json', 'jsonp fallback')
        check(json.loads(body(resp)) == {'a': 1}, 'jsonp fallback body')
    jsonp2 = JSONPRender('cb', True, True)
    check((jsonp2.qp_name, jsonp2.streaming, jsonp2.dev_mode, jsonp2.encoding)
          == ('cb', True, True, 'utf-8'), 'jsonp init')
    check(body(jsonp2(req('cb=f'), [Plain()])) == b'f([\n  "<Plain obj>"\n]);',
          'jsonp dev')

    print('PASS (%d checks)' % CHECKS[0])


if __name__ == '__main__':
    main()
