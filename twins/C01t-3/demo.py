# -*- coding: utf-8 -*-
"""demo3: signature extraction for every supported callable kind (get_fb), the
generated nested-call source (build_chain_str / _create_request_inner) and the
low-level chain helpers, plus end-to-end bind-time acceptance / rejection for
each callable kind used as endpoint and render.
"""
import functools
import sys

from clastic import Application, Route, Middleware, Response
from clastic.errors import ErrorHandler
from clastic.decorators import clastic_decorator
from clastic.sinter import (get_fb, get_arg_names, build_chain_str, chain_argspec,
                            make_chain, compile_chain, inject)
from clastic.middleware.core import _create_request_inner, make_middleware_chain

from boltons.funcutils import FunctionBuilder

LOG = []


# ------------------------------------------------------------ callable kinds

def plain(u, r='dr', *, p):
    LOG.append(('plain', u, r, p))
    return {'who': 'plain'}


lam = lambda u, p, q='dq': LOG.append(('lam', u, p, q)) or {'who': 'lam'}


class Holder(object):
    def method(self, u, p, r='dr'):
        LOG.append(('method', u, p, r))
        return {'who': 'method'}

    @staticmethod
    def static(u, *, p='dp', r):
        LOG.append(('static', u, p, r))
        return {'who': 'static'}

    @classmethod
    def klass(cls, u, p):
        LOG.append(('klass', cls.__name__, u, p))
        return {'who': 'klass'}

    def __call__(self, u, r, p='dp'):
        LOG.append(('call', u, r, p))
        return {'who': 'call'}


@clastic_decorator
def logged(f):
    @functools.wraps(f)
    def wrapper(*a, **kw):
        LOG.append(('wrapper', sorted(kw)))
        return f(*a, **kw)
    return wrapper


@logged
def decorated(u, p, r='dr'):
    LOG.append(('decorated', u, p, r))
    return {'who': 'decorated'}


class ProvP(Middleware):
    provides = ('p',)

    def request(self, next):
        return next(p='P')


def rn(context, request, p='nop'):
    LOG.append(('rn', context['who'], p))
    return Response(context['who'])


class RenderObj(object):
    def __call__(self, context, u, *, p):
        LOG.append(('RenderObj', u, p))
        return Response('obj:' + context['who'])


def mw_like(next, a, b=1):
    return next(d=a + b)


def final_like(a, d, z=3):
    return (a, d, z)


def names(f, **kw):
    return list(get_arg_names(f, **kw))


def main():
    holder = Holder()

    # --- get_fb / get_arg_names for each callable kind
    assert names(plain) == ['u', 'r', 'p']
    assert names(plain, only_required=True) == ['u', 'p']
    assert names(lam) == ['u', 'p', 'q'] and names(lam, only_required=True) == ['u', 'p']
    assert names(holder.method) == ['u', 'p', 'r']                 # self dropped
    assert list(get_fb(holder.method, drop_self=False).args) == ['self', 'u', 'p', 'r']
    assert names(Holder.method) == ['self', 'u', 'p', 'r']         # unbound: plain function
    assert names(Holder.static) == ['u', 'p', 'r'] and names(holder.static) == ['u', 'p', 'r']
    assert names(Holder.static, only_required=True) == ['u', 'r']
    assert names(Holder.klass) == ['u', 'p'] and names(holder.klass) == ['u', 'p']
    assert names(holder) == ['u', 'r', 'p']                        # callable object
    assert names(holder, only_required=True) == ['u', 'r']
    assert names(decorated) == ['u', 'p', 'r']                     # not (*a, **kw)
    assert get_fb(decorated) is decorated._sinter_fb
    assert names(RenderObj()) == ['context', 'u', 'p']
    assert names(lambda: None) == []
    fb = get_fb(plain)
    assert isinstance(fb, FunctionBuilder) and fb.get_defaults_dict() == {'r': 'dr'}

    # a _sinter_fb on a callable *object* is honoured, a bogus one is ignored
    tagged = Holder()
    tagged._sinter_fb = get_fb(lam)
    assert get_fb(tagged) is tagged._sinter_fb and names(tagged) == ['u', 'p', 'q']
    bogus = Holder()
    bogus._sinter_fb = 'not a function builder'
    assert names(bogus) == ['u', 'r', 'p']

    def tagged_func(*a, **kw):
        return None
    tagged_func._sinter_fb = get_fb(final_like)
    assert get_fb(tagged_func) is tagged_func._sinter_fb
    tagged_func._sinter_fb = None
    assert names(tagged_func) == []

    try:
        get_fb(42)
    except TypeError:
        pass
    else:
        raise AssertionError('get_fb(42) must fail')

    # --- inject() only passes what the callable accepts
    assert inject(final_like, {'a': 1, 'd': 2, 'other': 9}) == (1, 2, 3)
    assert inject(final_like, {'a': 1, 'd': 2, 'z': 0}) == (1, 2, 0)

    # --- chain_argspec
    req, opt = chain_argspec([mw_like, final_like], [('d',), ()], 'next')
    assert (req, opt) == (set(['a']), set(['b', 'z'])), (req, opt)
    req, opt = chain_argspec([final_like, mw_like], [(), ('d',)], 'next')
    assert (req, opt) == (set(['a', 'd']), set(['b', 'z']))
    req, opt = chain_argspec([], [], 'next')
    assert (req, opt) == (set(), set())
    req, opt = chain_argspec([mw_like], ['xy'], 'inner')     # 'next' not special here
    assert (req, opt) == (set(['next', 'a']), set(['b']))
    req, opt = chain_argspec([plain, holder.method, holder], [('p',), ('r',), ()], 'next')
    assert (req, opt) == (set(['u', 'p']), set(['r', 'p'])), (req, opt)

    # --- build_chain_str: exact generated source
    src = build_chain_str([mw_like, final_like], [['a', 'c'], ['d']], 'next')
    assert src == ('def next(a, c):\n'
                   '    def next(d):\n'
                   '        __traceback_hide__ = True\n'
                   '        return funcs[1](a=a, d=d)\n'
                   '    __traceback_hide__ = True\n'
                   '    return funcs[0](a=a, next=next)\n'), src
    assert build_chain_str([], [], 'next') == ''
    src = build_chain_str([final_like], [['z', 'a', 'd', 'unused']], 'nxt')
    assert src == ('def nxt(z, a, d, unused):\n'
                   '    __traceback_hide__ = True\n'
                   '    return funcs[0](a=a, d=d, z=z)\n'), src
    src = build_chain_str([lambda: 0], [[]], 'next', level=2)
    assert src == ('        def next():\n'
                   '            __traceback_hide__ = True\n'
                   '            return funcs[2]()\n'), src
    sofar = set(['b'])
    build_chain_str([mw_like, mw_like], [['a'], ('q',)], 'next', sofar)
    assert sofar == set(['a', 'b', 'q'])         # caller-supplied set is updated in place

    # --- compile_chain / make_chain
    chain = compile_chain([mw_like, final_like], [['a', 'b'], ['d']], 'next')
    assert chain(a=1, b=10) == (1, 11, 3) and chain.__name__ == 'next'
    chain, args, unres = make_chain([mw_like], [('d',)], final_like, ['a', 'z', 'junk'], 'next')
    assert (args, unres) == (set(['a', 'z']), set()) and chain(a=1, z=7) == (1, 2, 7)
    chain, args, unres = make_chain(iter([mw_like]), iter([('d',)]), final_like, iter(['b']), 'next')
    assert (args, unres) == (set(['a', 'b']), set(['a'])) and chain(a=1, b=5) == (1, 6, 3)
    chain, args, unres = make_chain((), (), final_like, (), 'next')
    assert (args, unres) == (set(['a', 'd']), set(['a', 'd'])) and chain(a=0, d=0) == (0, 0, 3)
    assert type(args) is set and type(unres) is set
    pre = set(['a', 'd'])
    chain, args, unres = make_chain([], [], final_like, pre, 'next')
    assert args == pre and args is not pre and unres == set() and pre == set(['a', 'd'])

    # --- _create_request_inner
    inner = _create_request_inner(lambda a: {'a': a}, lambda context, b: Response('%r%r' % (context, b)),
                                  ['a', 'b'], ['a'], ['context', 'b'])
    assert names(inner) == ['a', 'b'] and inner.__name__ == 'process_request'
    assert inner(a=1, b=2).get_data(as_text=True) == "{'a': 1}2"
    direct = Response('direct')
    inner = _create_request_inner(lambda: direct, None, [], [], [])
    assert inner() is direct

    # --- every callable kind as endpoint (and render), end to end
    def client(endpoint, render=rn, mws=(), resources=None):
        app = Application([Route('/x/<u>', endpoint, render)], resources, list(mws),
                          error_handler=ErrorHandler(reraise_uncaught=True))
        return app.get_local_client()

    def check(endpoint, expected_log, render=rn, resources=None, body=None):
        del LOG[:]
        resp = client(endpoint, render, [ProvP()], resources).get('/x/uval')
        assert resp.status_code == 200
        assert LOG == expected_log, LOG
        if body is not None:
            assert resp.get_data(as_text=True) == body

    def rejects(endpoint, render=rn, mws=(), resources=None):
        try:
            client(endpoint, render, mws, resources)
        except NameError as ne:
            return str(ne)
        raise AssertionError('expected NameError for %r' % (endpoint,))

    check(plain, [('plain', 'uval', 'dr', 'P'), ('rn', 'plain', 'P')], body='plain')
    check(plain, [('plain', 'uval', 'R', 'P'), ('rn', 'plain', 'P')], resources={'r': 'R'})
    check(lam, [('lam', 'uval', 'P', 'dq'), ('rn', 'lam', 'P')])
    check(holder.method, [('method', 'uval', 'P', 'dr'), ('rn', 'method', 'P')])
    check(Holder.static, [('static', 'uval', 'P', 'R'), ('rn', 'static', 'P')], resources={'r': 'R'})
    check(holder.static, [('static', 'uval', 'P', 'R'), ('rn', 'static', 'P')], resources={'r': 'R'})
    check(Holder.klass, [('klass', 'Holder', 'uval', 'P'), ('rn', 'klass', 'P')])
    check(holder, [('call', 'uval', 'R', 'P'), ('rn', 'call', 'P')], resources={'r': 'R'})
    check(decorated, [('wrapper', ['p', 'u']), ('decorated', 'uval', 'P', 'dr'), ('rn', 'decorated', 'P')])
    check(decorated, [('wrapper', ['p', 'r', 'u']), ('decorated', 'uval', 'P', 'R'),
                      ('rn', 'decorated', 'P')], resources={'r': 'R'})
    check(lam, [('lam', 'uval', 'P', 'dq'), ('RenderObj', 'uval', 'P')], render=RenderObj(), body='obj:lam')

    # the same callables are rejected when a required parameter has no source
    for ep in (plain, lam, holder.method, Holder.klass, decorated):
        assert "['p']" in rejects(ep), ep                      # no ProvP
    assert "['r']" in rejects(Holder.static, mws=[ProvP()])    # keyword-only, no default
    assert "['r']" in rejects(holder, mws=[ProvP()])
    assert 'render' in rejects(lambda u: {'who': 'x'}, render=RenderObj())   # render's keyword-only p
    assert 'self' in rejects(Holder.method, mws=[ProvP()])     # unbound method: self is a parameter
    # optional parameters never cause a rejection
    del LOG[:]
    assert client(lambda u='du', zzz=None: LOG.append((u, zzz)) or {'who': 'opt'}).get('/x/7').status_code == 200
    assert LOG == [('7', None), ('rn', 'opt', 'nop')]

    # unsupported signatures are refused by the decorator helper
    try:
        logged(lambda *a: None)
    except TypeError:
        pass
    else:
        raise AssertionError('clastic_decorator must refuse *args')

    # make_middleware_chain with a callable object and bound method
    chain = make_middleware_chain([ProvP()], holder, RenderObj(), ['u', 'r'])
    del LOG[:]
    assert chain(u='U', r='R').get_data(as_text=True) == 'obj:call'
    assert LOG == [('call', 'U', 'R', 'P'), ('RenderObj', 'U', 'P')]

    print('PASS')


if __name__ == '__main__':
    main()
    sys.exit(0)
