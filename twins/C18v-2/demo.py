# -*- coding: utf-8 -*-
"""demo2: middleware and route listings of the meta application
(get_mw_infos / get_route_infos), compared with an independent reference,
plus the whole pages (200, no secrets, failing sections reported inline).
Prints PASS and exits 0.
"""
import json
import sys
import types

from clastic import (Application, MetaApplication, render_basic,
                     StaticFileRoute, GET, POST)
from clastic.application import NullRoute
from clastic.meta import (get_mw_infos, get_route_infos, get_endpoint_info,
                          get_render_info, get_route_arg_info)
from clastic.middleware import Middleware
from clastic.middleware.cookie import SignedCookieMiddleware
from clastic.static import StaticApplication

SECRET = 'Zq9hunter2Xy'
COOKIE_KEY = 'K3yK3yK3y-cookie-signing'


# ------------------------------------------------------------------ fixtures
def hello(request, name, cookie, limit=3):
    return 'hello'


def uses(thing, _route, opt=None):
    return 'uses'


class CallableObj(object):
    def __call__(self, request):
        return 'hi'

    def method(self, request):
        return 'm'


class ThingMW(Middleware):
    provides = ('thing',)

    def request(self, next, request):
        return next(thing=1)


class ReprSecretMW(Middleware):
    "a middleware whose repr is fine but that holds a key"
    def __init__(self):
        self.key = COOKIE_KEY

    def request(self, next):
        return next()


class BrokenReprMW(Middleware):
    def request(self, next):
        return next()

    def __repr__(self):
        raise RuntimeError('no repr for you')


class Factory(object):
    def __call__(self, arg):
        return lambda context: 'rendered'


def ref_mw_infos(app):
    out = []
    for mw in app.middlewares:
        out.append({'type_name': mw.__class__.__name__, 'provides': mw.provides,
                    'requires': mw.requires, 'repr': repr(mw)})
    return out


def ref_route_infos(app):
    out = []
    for r in app.routes:
        if isinstance(r, NullRoute):
            continue
        out.append({'url_pattern': r.pattern,
                    'url_regex_pattern': r.regex.pattern,
                    'endpoint': get_endpoint_info(r),
                    'render': get_render_info(r),
                    'args': get_route_arg_info(r)})
    return out


def make_app(prefix, mws, with_factory=True):
    routes = [(prefix, MetaApplication()),
              ('/h/<name>', hello, render_basic),
              ('/co', CallableObj(), render_basic),
              ('/m', CallableObj().method, render_basic),
              ('/sum', sum, render_basic),
              ('/u', uses, lambda context: context),
              StaticFileRoute('/f', __file__),
              ('/s', StaticApplication('.')),
              ('/none', uses),
              GET('/g/<a:int>/<b*>', uses, render_basic)]
    kw = {}
    if with_factory:
        routes.append(POST('/t', uses, 'tmpl.html'))
        kw['render_factory'] = Factory()
    return Application(routes,
                       resources={'iterable': [1], 'start': 0,
                                  'db_secret': SECRET, 'ok': 'bokay'},
                       middlewares=mws, **kw)


# ---------------------------------------------------------------- unit level
mws = [SignedCookieMiddleware(secret_key=COOKIE_KEY), ThingMW(), ReprSecretMW()]
app = make_app('/meta', mws)

mw_infos = get_mw_infos(app)
assert isinstance(mw_infos, list) and len(mw_infos) == 3
assert mw_infos == ref_mw_infos(app)
for info, mw in zip(mw_infos, app.middlewares):
    assert type(info) is dict
    assert list(info) == ['type_name', 'provides', 'requires', 'repr']
    assert info['provides'] is mw.provides        # same objects, not copies
    assert info['requires'] is mw.requires
    assert COOKIE_KEY not in repr(info)
assert [i['type_name'] for i in mw_infos] == \
    ['SignedCookieMiddleware', 'ThingMW', 'ReprSecretMW']
assert mw_infos[0]['repr'] == \
    "SignedCookieMiddleware(arg_name='cookie', cookie_name='clastic_cookie')"
assert get_mw_infos(types.SimpleNamespace(middlewares=[])) == []
assert get_mw_infos(app) is not mw_infos

# anything with the four attributes is accepted; missing ones -> AttributeError
duck = types.SimpleNamespace(provides=0, requires='')
assert get_mw_infos(types.SimpleNamespace(middlewares=(duck,))) == \
    [{'type_name': 'SimpleNamespace', 'provides': 0, 'requires': '',
      'repr': repr(duck)}]
for lacking in (types.SimpleNamespace(provides=()), types.SimpleNamespace(requires=())):
    try:
        get_mw_infos(types.SimpleNamespace(middlewares=[lacking]))
    except AttributeError:
        pass
    else:
        raise AssertionError('expected AttributeError')
try:
    get_mw_infos(types.SimpleNamespace(middlewares=[BrokenReprMW()]))
except RuntimeError as e:
    assert str(e) == 'no repr for you'
else:
    raise AssertionError('expected RuntimeError')

route_infos = get_route_infos(app)
assert route_infos == ref_route_infos(app)
assert len(route_infos) == len(app.routes)
# NullRoute objects are skipped wherever they are in the list
mixed = types.SimpleNamespace(routes=[NullRoute(), app.routes[3], NullRoute(),
                                      app.routes[4], NullRoute()])
assert get_route_infos(mixed) == ref_route_infos(mixed) == route_infos[3:5]
assert get_route_infos(types.SimpleNamespace(routes=(NullRoute(),))) == []
for info in route_infos:
    assert type(info) is dict
    assert list(info) == ['url_pattern', 'url_regex_pattern', 'endpoint',
                          'render', 'args']
by_pattern = dict((i['url_pattern'], i) for i in route_infos)
assert by_pattern['/h/<name>'] == {
    'url_pattern': '/h/<name>',
    'url_regex_pattern': '^/+h(?P<name>(/+[^/]+))/*$',
    'endpoint': {'module_name': '__main__', 'name': 'hello'},
    'render': {'type': None, 'arg': 'BasicRender'},
    'args': [{'name': 'request', 'source': 'builtin'},
             {'name': 'name', 'source': 'url'},
             {'name': 'cookie', 'source': 'middleware'},
             {'name': 'limit', 'source': 'default'}]}
assert by_pattern['/t']['render'] == {'type': 'Factory', 'arg': 'tmpl.html'}
assert by_pattern['/none']['render'] == {'type': None, 'arg': None}
assert by_pattern['/u']['render'] == {'type': None, 'arg': 'function'}
assert by_pattern['/sum']['endpoint'] == {'module_name': 'builtins', 'name': 'sum'}
assert by_pattern['/sum']['args'] == [{'name': 'iterable', 'source': 'resources'},
                                      {'name': 'start', 'source': 'resources'}]
assert by_pattern['/co']['endpoint'] == {'module_name': '__main__', 'name': 'CallableObj'}
assert by_pattern['/m']['endpoint'] == {'module_name': '__main__.CallableObj', 'name': 'method'}
assert by_pattern['/meta/json/']['endpoint'] == \
    {'module_name': 'clastic.meta.MetaApplication', 'name': 'get_main'}
assert by_pattern['/meta/json/']['args'][-1] == {'name': 'script_root', 'source': 'middleware'}
assert get_route_infos(types.SimpleNamespace(routes=[])) == []
assert get_route_infos(Application()) == []
# a route-like object lacking attributes -> AttributeError, as before
try:
    get_route_infos(types.SimpleNamespace(routes=[types.SimpleNamespace(pattern='/x')]))
except AttributeError:
    pass
else:
    raise AssertionError('expected AttributeError')


# --------------------------------------------------------------- whole pages
def fetch(app, prefix):
    cl = app.get_local_client()
    html_resp = cl.get(prefix + '/')
    json_resp = cl.get(prefix + '/json/')
    assert html_resp.status_code == 200, html_resp.status_code
    assert json_resp.status_code == 200, json_resp.status_code
    html = html_resp.get_data(as_text=True)
    raw = json_resp.get_data(as_text=True)
    for body in (html, raw):
        assert SECRET not in body and COOKIE_KEY not in body
        assert '[REDACTED]' in body and 'bokay' in body
    return html, json.loads(raw)


for prefix in ('/meta', '/a/b/_meta'):
    for with_factory in (True, False):
        app = make_app(prefix, mws, with_factory)
        html, data = fetch(app, prefix)
        assert 'exc_content' not in data['app']
        assert data['app']['middlewares'] == json.loads(json.dumps(ref_mw_infos(app)))
        assert data['app']['routes'] == json.loads(json.dumps(ref_route_infos(app)))
        assert 'script_root' in data['app']
        for name in ('SignedCookieMiddleware', 'ThingMW', 'ReprSecretMW'):
            assert '<td>%s</td>' % name in html
        assert 'Application-wide Middlewares' in html and 'Routes' in html
        assert '/h/&lt;name&gt;' in html or '/h/<name>' in html

# fewer / no middlewares
app = make_app('/meta', mws[:2])
html, data = fetch(app, '/meta')
assert [m['type_name'] for m in data['app']['middlewares']] == \
    ['SignedCookieMiddleware', 'ThingMW']
plain = Application([('/meta', MetaApplication())], resources={'x_secret': SECRET, 'ok': 'bokay'})
html, data = fetch(plain, '/meta')
assert data['app']['middlewares'] == [] and 'No middlewares installed.' in html
assert len(data['app']['routes']) == 3

# a middleware that cannot be listed: the section reports it, the page lives
app = make_app('/meta', mws + [BrokenReprMW()])
html, data = fetch(app, '/meta')
assert data['app']['exc_content'] == repr(RuntimeError('no repr for you'))
assert 'middlewares' not in data['app']
assert 'routes' in data['app'] and 'resources' in data['app']
assert 'no repr for you' in html

# meta inside an embedded application, two levels deep
inner = make_app('/meta', mws)
middle = Application([('/inner', inner)])
outer = Application([('/outer', middle)],
                    resources={'outer_secret': SECRET, 'ok': 'bokay'},
                    middlewares=[SignedCookieMiddleware(secret_key=COOKIE_KEY)])
html, data = fetch(outer, '/outer/inner/meta')
assert data['app']['middlewares'] == json.loads(json.dumps(ref_mw_infos(outer)))
assert data['app']['routes'] == json.loads(json.dumps(ref_route_infos(outer)))
assert all(r['url_pattern'].startswith('/outer/inner') for r in data['app']['routes'])

print('PASS')
sys.exit(0)
