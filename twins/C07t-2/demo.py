# -*- coding: utf-8 -*-
"""demo2: C07 -- trailing-slash redirects lead to the same resource in one hop.

Focus: route-level building blocks (normalize_path, BoundRoute.match_path,
BoundRoute.match_method) and the fixed-point property of the canonical path,
plus an end-to-end pass through Application.dispatch.
"""
from __future__ import print_function, unicode_literals

import os
import sys
import json
import random

sys.path.insert(0, os.path.dirname(os.path.abspath(__file__)))

try:
    from urllib.parse import urlsplit, unquote
except ImportError:  # pragma: no cover
    from urlparse import urlsplit
    from urllib import unquote

from werkzeug.test import EnvironBuilder, run_wsgi_app
from werkzeug.wrappers import Response

import clastic
from clastic import Application, Route
from clastic.route import (S_REDIRECT, S_STRICT, S_REWRITE, normalize_path,
                           BoundRoute, HTTP_METHODS)

assert os.path.dirname(os.path.abspath(__file__)) in os.path.abspath(clastic.__file__)

CHECKS = [0]


def check(cond, *info):
    CHECKS[0] += 1
    if not cond:
        raise AssertionError(repr(info))


def raises(exc_type, func, *a, **kw):
    try:
        func(*a, **kw)
    except exc_type as e:
        return type(e)
    except Exception as e:  # wrong type
        raise AssertionError('expected %r, got %r' % (exc_type, e))
    raise AssertionError('expected %r, nothing raised' % (exc_type,))


def ref_normalize(path, is_branch):
    """Reference written from the property statement, char by char."""
    segs, cur = [], ''
    for ch in path:
        if ch == '/':
            if cur:
                segs.append(cur)
            cur = ''
        else:
            cur += ch
    if cur:
        segs.append(cur)
    if not segs:
        return '/'
    out = ''.join('/' + s for s in segs)
    if is_branch:
        out += '/'
    return out


SEGMENTS = ['a', 'a?b', 'a#b', '100%', '%41', 'a b', 'a;b', 'a&b=c', 'x=y',
            'caf\xe9', '☃', '中文', '%2F', '%', '0', ' ', '.', '..', '\\', '\n']


def test_normalize_path():
    fixed = ['', '/', '//', '///', 'a', 'a/', '/a', '/a/', '//a', 'a//', '/a//b', 'a/b',
             '/a/b/', '//a//b//', '/ /', ' ', '/0/', '0', '/a?b//c#d/', '/%41//%2F/']
    rng = random.Random(7)
    paths = list(fixed)
    for _ in range(3000):
        n = rng.randint(0, 5)
        p = '/' * rng.randint(0, 3)
        for _i in range(n):
            p += rng.choice(SEGMENTS) + '/' * rng.randint(0 if _i == n - 1 else 1, 3)
        paths.append(p)
    for p in paths:
        for flag in (True, False, 1, 0, '', 'x', None, [], [0]):
            got = normalize_path(p, flag)
            check(got == ref_normalize(p, flag), p, flag, got)
            check(type(got) is type(''), p, got)
            # shape: single slashes, one leading, trailing iff branch
            check(got.startswith('/') and '//' not in got, got)
            if got != '/':
                check(got.endswith('/') == bool(flag), got, flag)
            # fixed point
            check(normalize_path(got, flag) == got, p, got)
        # keyword call style is supported too
        check(normalize_path(path=p, is_branch=True) == ref_normalize(p, True))
        check(normalize_path(p, is_branch=False) == ref_normalize(p, False))
    # segments are preserved verbatim and in order
    for p in paths:
        want = [s for s in p.split('/') if s != '']
        got = normalize_path(p, True)
        check([s for s in got.split('/') if s != ''] == want, p, got)
    # wrong input types fail the same way as ever
    check(raises(AttributeError, normalize_path, None, True) is AttributeError)
    check(raises(TypeError, normalize_path, b'/a//b', True) is TypeError)
    check(raises(AttributeError, normalize_path, 5, False) is AttributeError)


def _echo(_label, request, **params):
    body = json.dumps({'route': _label, 'params': params, 'path': request.path,
                       'qs': request.query_string.decode('latin1')}, sort_keys=True)
    return Response(body, mimetype='application/json')


def ep_item(request, name):
    return _echo('item', request, name=name)


def ep_multi(request, parts):
    return _echo('multi', request, parts=parts)


def ep_num(request, n):
    return _echo('num', request, n=n)


def ep_pair(request, a, b):
    return _echo('pair', request, a=a, b=b)


def ep_opt(request, name, rest):
    return _echo('opt', request, name=name, rest=rest)


def ep_static(request):
    return _echo('static', request)


def make_routes():
    return [Route('/static/', ep_static),
            Route('/item/<name>/', ep_item),
            Route('/multi/<parts+>/', ep_multi),
            Route('/num/<n:int>/', ep_num),
            Route('/pair/<b>/<a:float>/', ep_pair),
            Route('/opt/<name?>/z/<rest*int>/', ep_opt),
            Route('/getonly/<name>/', ep_item, methods=['get']),
            Route('/postput/<name>/', ep_item, methods=['POST', 'put']),
            Route('/leaf/<name>', ep_item)]


def test_match_path():
    for mode in (S_REDIRECT, S_REWRITE, S_STRICT):
        app = Application(make_routes(), slash_mode=mode)
        by_pattern = dict((r.pattern, r) for r in app.routes)
        item = by_pattern['/item/<name>/']
        check(isinstance(item, BoundRoute) and item.slash_mode == mode)
        lax = mode != S_STRICT
        for seg in SEGMENTS:
            got = item.match_path('/item/%s/' % seg)
            check(got == {'name': seg}, mode, seg, got)
            check(type(got) is dict)
            # a fresh dict every time: callers may mutate it
            again = item.match_path('/item/%s/' % seg)
            check(again == got and again is not got)
            got['junk'] = 1
            check(item.match_path('/item/%s/' % seg) == {'name': seg})
            for variant in ['/item/%s' % seg, '/item//%s/' % seg, '/item/%s//' % seg,
                            '//item/%s/' % seg]:
                got = item.match_path(variant)
                check(got == ({'name': seg} if lax else None), mode, variant, got)
            check(item.match_path('/item/%s/extra/' % seg) is None)
            check(item.match_path('/other/%s/' % seg) is None)
        check(item.match_path('/item/') is None)
        check(item.match_path('/item//') is None)
        check(item.match_path('') is None)
        check(item.match_path('/') is None)

        multi = by_pattern['/multi/<parts+>/']
        check(multi.match_path('/multi/a/b?c/%41/') == {'parts': ['a', 'b?c', '%41']})
        check(multi.match_path('/multi/') is None)
        got = multi.match_path('/multi//a///b')
        # (extra slashes show up as empty items until the path is canonical)
        check(got == ({'parts': ['', 'a', '', '', 'b']} if lax else None), mode, got)

        num = by_pattern['/num/<n:int>/']
        check(num.match_path('/num/12/') == {'n': 12})
        check(num.match_path('/num/-3/') == {'n': -3})
        check(num.match_path('/num/007/') == {'n': 7})
        # matched by the int pattern but rejected by int(): a conversion
        # failure is a non-match (None), not an exception
        check(num.match_path('/num/+ 5/') is None)
        check(num.match_path('/num/-  3/') is None)
        check(num.match_path('/num/x/') is None)
        check(num.match_path('/num/1.5/') is None)

        pair = by_pattern['/pair/<b>/<a:float>/']
        got = pair.match_path('/pair/x/1.5/')
        check(got == {'a': 1.5, 'b': 'x'})
        check(list(got) == list(pair.converters), list(got), list(pair.converters))
        check(pair.match_path('/pair/x/- 1.5/') is None)   # float('- 1.5') fails
        check(pair.match_path('/pair/x/1e3/') == {'a': 1000.0, 'b': 'x'})

        opt = by_pattern['/opt/<name?>/z/<rest*int>/']
        check(opt.match_path('/opt/z/') == {'name': None, 'rest': []})
        check(opt.match_path('/opt/n/z/1/2/') == {'name': 'n', 'rest': [1, 2]})
        check(opt.match_path('/opt/n/z/1/+ 2/') is None)

        leaf = by_pattern['/leaf/<name>']
        check(leaf.match_path('/leaf/a') == {'name': 'a'})
        check(leaf.match_path('/leaf/a/') == ({'name': 'a'} if lax else None))

        # non-str input fails as ever
        check(raises(TypeError, item.match_path, None) is TypeError)
        check(raises(TypeError, item.match_path, b'/item/a/') is TypeError)

        null = app._null_route
        check(null.slash_mode == S_REWRITE)
        check(null.match_path('/') == {'_ignored': []})
        check(null.match_path('/a//b/') == {'_ignored': ['a', '', 'b']})


def test_match_method():
    app = Application(make_routes())
    by_pattern = dict((r.pattern, r) for r in app.routes)
    anyroute = by_pattern['/item/<name>/']
    getonly = by_pattern['/getonly/<name>/']
    postput = by_pattern['/postput/<name>/']
    check(anyroute.methods is None)
    check(getonly.methods == set(['GET', 'HEAD']))
    check(postput.methods == set(['POST', 'PUT']))
    for method in sorted(HTTP_METHODS) + ['BREW', 'get', 'Post', 'pUt', 'head', '', None]:
        check(anyroute.match_method(method) is True, method)
        up = method.upper() if method else method
        want = True if not method else up in ('GET', 'HEAD')
        check(getonly.match_method(method) is want, method)
        want = True if not method else up in ('POST', 'PUT')
        check(postput.match_method(method) is want, method)
    check(raises(AttributeError, getonly.match_method, 5) is AttributeError)
    check(anyroute.match_method(5) is True)
    # an empty methods list means "no restriction"
    rt = Route('/x/', ep_static, methods=[])
    check(not rt.methods)
    check(rt.bind(app).match_method('DELETE') is True)


def call(app, path, qs='', method='GET'):
    environ = EnvironBuilder(method=method).get_environ()
    environ['PATH_INFO'] = path.encode('utf8').decode('latin1')
    environ['QUERY_STRING'] = qs
    app_iter, status, headers = run_wsgi_app(app, environ, buffered=True)
    return int(status.split()[0]), headers, b''.join(app_iter)


def test_end_to_end():
    redirecting = Application(make_routes(), slash_mode=S_REDIRECT)
    rewriting = Application(make_routes(), slash_mode=S_REWRITE)
    strict = Application(make_routes(), slash_mode=S_STRICT)
    segs = [s for s in SEGMENTS if s.strip('/')]
    for seg in segs:
        for tmpl, label in [('/item/%s', 'item'), ('/item//%s/', 'item'),
                            ('/item/%s///', 'item'), ('/multi/%s//q', 'multi'),
                            ('/multi///%s', 'multi')]:
            path = tmpl % seg
            for qs in ['', 'a=1&b=%3F', 'redirect=/item//x']:
                canon = ref_normalize(path, True)
                status, headers, _ = call(redirecting, path, qs)
                check(status == 302, path, status)
                loc = urlsplit(headers['Location'])
                check(unquote(loc.path) == canon, path, headers['Location'])
                check(loc.query == qs and loc.fragment == '', headers['Location'])
                check((loc.scheme, loc.netloc) == ('http', 'localhost'))
                # second hop: served, no further redirect
                status2, headers2, body2 = call(redirecting, unquote(loc.path), loc.query)
                check(status2 == 200 and 'Location' not in headers2, path, status2)
                served = json.loads(body2.decode('utf8'))
                check(served['route'] == label and served['path'] == canon)
                check(served['qs'] == qs)
                # rewrite mode serves the same params directly
                status3, headers3, body3 = call(rewriting, path, qs)
                check(status3 == 200 and 'Location' not in headers3)
                direct = json.loads(body3.decode('utf8'))['params']
                if label == 'multi':
                    direct = {'parts': [x for x in direct['parts'] if x]}
                check(direct == served['params'], path, direct, served)
                # strict mode: not found, no redirect
                status4, headers4, _ = call(strict, path, qs)
                check(status4 == 404 and 'Location' not in headers4)
                status5, _, body5 = call(strict, canon, qs)
                check(status5 == 200)
                check(json.loads(body5.decode('utf8')) == served)
    # conversion failure on a branch route: not found rather than a redirect
    for app in (redirecting, rewriting, strict):
        for path in ['/num/+ 5', '/num/+ 5/', '/num//x']:
            status, headers, _ = call(app, path)
            check(status == 404 and 'Location' not in headers, path, status)
    status, headers, _ = call(redirecting, '/num//12', 'k=v')
    check(status == 302 and headers['Location'] == 'http://localhost/num/12/?k=v')
    # methods gate the redirect
    for method in sorted(HTTP_METHODS):
        status, headers, _ = call(redirecting, '/getonly//a', 'k=v', method)
        if method in ('GET', 'HEAD'):
            check(status == 302 and headers['Location'] == 'http://localhost/getonly/a/?k=v')
        else:
            check(status == 405 and 'Location' not in headers, method, status)
        status, headers, _ = call(redirecting, '/postput/a', '', method)
        if method in ('POST', 'PUT'):
            check(status == 302 and headers['Location'] == 'http://localhost/postput/a/')
        else:
            check(status == 405 and 'Location' not in headers, method, status)
        status, headers, _ = call(redirecting, '/item/a', '', method)
        check(status == 302, method, status)


def main():
    test_normalize_path()
    test_match_path()
    test_match_method()
    test_end_to_end()
    print('checks: %d' % CHECKS[0])
    print('PASS')


if __name__ == '__main__':
    main()
