# -*- coding: utf-8 -*-
"""demo2: uncaught exceptions become 500 responses -- default and debug
(contextual) error handlers, every negotiated format, markup in the exception
text and in local variables, re-raising, custom exc-info / server-error types."""
import json
import warnings
import xml.etree.ElementTree as ET
from html.parser import HTMLParser

warnings.simplefilter('ignore')

from boltons.tbutils import ExceptionInfo, ContextualExceptionInfo

from clastic import Application, render_basic
from clastic import errors
from clastic.errors import (ErrorHandler, ContextualErrorHandler,
                            REPLErrorHandler, InternalServerError,
                            ContextualInternalServerError)

EVIL_MSGS = ['<script>alert("x")</script>', "a & b < c > d \"q\" 'r'",
             '{detail} {0} {{x}}', '{#frames}{.}{/frames}{>partial/}',
             u'caf\xe9 ☃ <b>bold</b>', ']]><!-- c -->', '']


class Tokens(HTMLParser):
    def __init__(self):
        HTMLParser.__init__(self, convert_charrefs=True)
        self.tags, self.text = [], []

    def handle_starttag(self, tag, attrs):
        self.tags.append(tag)

    def handle_data(self, data):
        self.text.append(data)


def tokens(body):
    p = Tokens()
    p.feed(body)
    p.close()
    return p


class Boom(Exception):
    pass


def make_app(handler=None, **kw):
    def boom(request):
        local_markup = '<img src=x onerror=alert(1)>'  # a local with markup
        amp = 'x&y'
        idx = int(request.args.get('i', 0))
        if request.args.get('kind') == 'key':
            raise KeyError(EVIL_MSGS[idx])
        if request.args.get('kind') == 'custom':
            raise Boom(EVIL_MSGS[idx])
        raise ValueError(EVIL_MSGS[idx])

    def fine():
        return 'ok'
    return Application([('/boom', boom, render_basic),
                        ('/fine', fine, render_basic)],
                       error_handler=handler, **kw)


def full_ctype(mime):
    return mime if mime == 'application/json' else mime + '; charset=utf-8'


ACCEPTS = [('text/html', 'text/html'), ('application/json', 'application/json'),
           ('application/xml', 'application/xml'), ('text/plain', 'text/plain'),
           (None, 'text/plain'), ('image/gif', 'text/plain'), ('*/*', 'text/html'),
           ('application/xml;q=0.3, application/json;q=0.4', 'application/json')]
STDLIB = errors.STDLIB_EXC_URL


def check(app, contextual):
    cl = app.get_local_client()
    assert cl.get('/fine').status_code == 200
    plain_tags = None
    for kind, exc_name in (('value', 'ValueError'), ('key', 'KeyError'),
                           ('custom', 'Boom')):
        for i, msg in enumerate(EVIL_MSGS):
            for accept, mime in ACCEPTS:
                headers = {} if accept is None else {'Accept': accept}
                resp = cl.get('/boom?kind=%s&i=%s' % (kind, i), headers=headers)
                assert resp.status_code == 500, resp.status_code
                assert resp.headers['Content-Type'] == full_ctype(mime), \
                    (accept, resp.headers['Content-Type'])
                body = resp.get_data(True)
                exp_etype = None if exc_name == 'Boom' else STDLIB + exc_name
                shown = repr(msg) if kind == 'key' else msg
                if mime == 'application/json':
                    data = json.loads(body)
                    assert data['code'] == 500
                    assert data['message'] == 'Internal server error'
                    assert data['error_type'] == exp_etype
                    assert exc_name in data['detail'] and shown in data['detail']
                    if contextual:
                        assert 'exc_info' not in data
                        assert data['exc_type'] == exc_name
                        assert data['exc_value'] == shown
                        assert data['req']['path'] == '/boom'
                        assert data['last_frame']['func_name'] == 'boom'
                        # frames of the handler machinery are not part of
                        # the traceback of the user's exception
                        funcs = [f['func_name'] for f in data['exc_tb']['frames']]
                        assert funcs[-1] == 'boom'
                        assert 'uncaught_to_response' not in funcs
                        assert not any(f.startswith('_current_exc') for f in funcs)
                        assert data['last_frame']['locals']['local_markup'] \
                            == repr('<img src=x onerror=alert(1)>')
                    else:
                        assert data['exc_info']['exc_type'] == exc_name
                        assert data['exc_info']['exc_msg'] == shown
                        funcs = [f['func_name'] for f in
                                 data['exc_info']['exc_tb']['frames']]
                        assert funcs[-1] == 'boom'
                        assert 'uncaught_to_response' not in funcs
                elif mime == 'application/xml':
                    try:
                        root = ET.fromstring(body.encode('utf8'))
                    except ET.ParseError:
                        raise AssertionError('xml not well formed: %r' % body)
                    assert [c.tag for c in root] == ['code', 'message', 'detail',
                                                     'error_type']
                    assert all(len(c) == 0 for c in root)
                    assert root.find('code').text == '500'
                    assert shown in root.find('detail').text
                    assert (root.find('error_type').text or None) == exp_etype
                elif mime == 'text/html':
                    toks = tokens(body)
                    text = ''.join(toks.text)
                    if contextual:
                        for bad in ('img', 'b'):
                            assert bad not in toks.tags, (bad, msg)
                        # the same set of (template) tags whatever the texts
                        if plain_tags is None:
                            plain_tags = sorted(set(toks.tags))
                        assert sorted(set(toks.tags)) == plain_tags
                        assert '&lt;img src=x onerror=alert(1)&gt;' in body
                        assert exc_name in text
                    else:
                        assert set(toks.tags) <= {'html', 'head', 'title', 'body',
                                                  'h1', 'p', 'a'}, toks.tags
                        assert 'Internal server error' in text
                        assert exc_name in text
                    if msg:
                        assert shown in text or kind == 'key', (shown, text[:200])
                    assert '<script>alert' not in body
                    assert '<b>bold' not in body
                else:
                    assert body.startswith('500 - Internal server error')
                    assert shown in body
                    if exp_etype:
                        assert ('Error type: ' + exp_etype) in body


# default handler (explicit, implicit) and debug handler (explicit, via debug=True)
check(make_app(), contextual=False)
check(make_app(ErrorHandler()), contextual=False)
check(make_app(ErrorHandler(reraise_uncaught=False)), contextual=False)
check(make_app(debug=True), contextual=True)
check(make_app(ContextualErrorHandler()), contextual=True)
check(make_app(ContextualErrorHandler(hide_internal_frames=False)), contextual=True)
# the contextual handler ignores reraise_uncaught
check(make_app(ContextualErrorHandler(reraise_uncaught=True)), contextual=True)

# hide_internal_frames is handed to the error instance
for flag in (True, False, 0, None):
    app = make_app(ContextualErrorHandler(hide_internal_frames=flag))
    resp = app.get_local_client().get('/boom', headers={'Accept': 'application/json'})
    frames = json.loads(resp.get_data(True))['exc_tb']['frames']
    hidden = [f for f in frames if f.get('is_hidden')]
    assert bool(hidden) == bool(flag), (flag, hidden)

# re-raising handlers let the exception through
for handler in (ErrorHandler(reraise_uncaught=True), REPLErrorHandler()):
    app = make_app(handler)
    try:
        app.dispatch(__import__('werkzeug').wrappers.Request(
            __import__('werkzeug').test.EnvironBuilder(path='/boom').get_environ()))
    except ValueError as e:
        assert str(e) == EVIL_MSGS[0]
    else:
        raise AssertionError('expected ValueError to propagate')

# direct calls: the types come from the *application's* handler, the extra
# keyword arguments from the handler the method is called on
seen = []


class RecordingISE(InternalServerError):
    def __init__(self, *a, **kw):
        seen.append((a, list(kw)))
        kw.pop('request', None)
        kw.pop('hide_internal_frames', None)
        super(RecordingISE, self).__init__(*a, **kw)


class MyExcInfo(ExceptionInfo):
    pass


class AppHandler(ErrorHandler):
    exc_info_type = MyExcInfo
    server_error_type = RecordingISE


class FakeApp(object):
    error_handler = AppHandler()


route = object()
for caller, exp_keys in (
        (ErrorHandler(), ['exc_info', 'source_route']),
        (ContextualErrorHandler(hide_internal_frames='hif'),
         ['exc_info', 'source_route', 'request', 'hide_internal_frames'])):
    del seen[:]
    try:
        raise RuntimeError('<x>')
    except RuntimeError:
        resp = caller.uncaught_to_response(_application=FakeApp, _route=route,
                                           request='REQ', _error='ignored')
    assert type(resp) is RecordingISE and resp.status_code == 500
    assert type(resp.exc_info) is MyExcInfo
    assert resp.source_route is route
    assert resp.detail == repr(resp.exc_info)
    assert resp.error_type == STDLIB + 'RuntimeError'
    (args, keys), = seen
    assert args == (repr(resp.exc_info),) and keys == exp_keys, (args, keys)

# positional calling convention of the public method still works
try:
    raise RuntimeError('pos')
except RuntimeError:
    resp = ErrorHandler().uncaught_to_response(FakeApp, route)
    resp2 = ContextualErrorHandler().uncaught_to_response(FakeApp, route)
assert resp.source_route is route and resp2.source_route is route

# a full contextual instance built by the handler carries request + flag
class FakeCtxApp(object):
    error_handler = ContextualErrorHandler()


try:
    raise RuntimeError('<ctx>')
except RuntimeError:
    resp = ContextualErrorHandler(hide_internal_frames=False).uncaught_to_response(
        FakeCtxApp, route, request=None)
assert type(resp) is ContextualInternalServerError
assert type(resp.exc_info) is ContextualExceptionInfo
assert resp.request is None and resp.hide_internal_frames is False
assert '&lt;ctx&gt;' in resp.to_html() and '<ctx>' not in resp.to_html()

print('PASS')
