# -*- coding: utf-8 -*-
"""demo2: from the crashed child's stderr to the Flaw failsafe page.

Drives clastic.server.run_simple(use_reloader=True) /
restart_with_reloader() with a scripted fake child process (no real
sub-process, socket or thread is created) and checks the whole chain:

    child stderr bytes -> (tb_str, monitored files) -> serve_error_app
    -> flaw.create_app -> every path answers 200 with the escaped error
    text and file names, naming 'Type: message' for standard tracebacks.

Prints PASS and exits 0 when everything holds.
"""
import contextlib
import html
import io
import os
import random
import sys
import traceback

from clastic import flaw, server

MON = server._MON_PREFIX
assert MON == '__clastic_mon_files:'


# --------------------------------------------------------------------------
# scripted environment
# --------------------------------------------------------------------------

class FakeChild(object):
    """Popen stand-in: stderr is delivered in chunks, one per poll()."""

    def __init__(self, chunks, returncode):
        self._chunks = list(chunks)
        self._final = returncode
        self.returncode = None
        self.stderr = io.BytesIO(b'')
        self.polls = 0

    def poll(self):
        self.polls += 1
        if self._chunks:
            data = self._chunks.pop(0)
            pos = self.stderr.tell()
            self.stderr.seek(0, os.SEEK_END)
            self.stderr.write(data)
            self.stderr.seek(pos)
            return None
        self.returncode = self._final
        return self.returncode


class LateChild(FakeChild):
    """Everything only becomes readable after the process has exited."""

    def poll(self):
        self.polls += 1
        self.stderr = io.BytesIO(b''.join(self._chunks))
        self.returncode = self._final
        return self.returncode


class FakeServer(object):
    def __init__(self, host, port, app):
        self.host, self.port, self.app = host, port, app
        self.events = []

    def serve_forever(self):
        self.events.append('serve_forever')

    def shutdown(self):
        self.events.append('shutdown')

    def server_close(self):
        self.events.append('server_close')


class World(object):
    """Patches clastic.server's collaborators for one scenario."""

    def __init__(self, children, loop_actions=()):
        self.children = list(children)
        self.loop_actions = list(loop_actions)
        self.popen_calls = []
        self.servers = []
        self.loop_calls = []
        self.threads = []
        self.echo = io.StringIO()

    def popen(self, args, env=None, stderr=None):
        self.popen_calls.append((list(args), dict(env), stderr))
        return self.children.pop(0)

    def make_server(self, host, port, app, **kw):
        assert not kw, kw
        srv = FakeServer(host, port, app)
        self.servers.append(srv)
        return srv

    def reloader_loop(self, files, interval=1):
        self.loop_calls.append((files, list(files), interval))
        action = self.loop_actions.pop(0) if self.loop_actions else KeyboardInterrupt
        if action is None:
            return
        raise action if isinstance(action, BaseException) else action()

    def start_new_thread(self, func, args):
        self.threads.append(func)
        func(*args)

    @contextlib.contextmanager
    def active(self):
        saved = (server.subprocess.Popen, server.make_server, server.reloader_loop,
                 server.thread.start_new_thread, server.enable_tty_echo, sys.stderr, sys.stdout)

        class _Sub(object):
            PIPE = server.subprocess.PIPE
            Popen = staticmethod(self.popen)
        real_subprocess = server.subprocess
        real_thread = server.thread

        class _Thread(object):
            start_new_thread = staticmethod(self.start_new_thread)
        server.subprocess = _Sub
        server.thread = _Thread
        server.make_server = self.make_server
        server.reloader_loop = self.reloader_loop
        server.enable_tty_echo = lambda tty=None: None
        sys.stderr = self.echo
        sys.stdout = io.StringIO()
        try:
            yield self
        finally:
            server.subprocess = real_subprocess
            server.thread = real_thread
            server.make_server = saved[1]
            server.reloader_loop = saved[2]
            server.enable_tty_echo = saved[4]
            sys.stderr, sys.stdout = saved[5], saved[6]


def get_error_func(world, host='127.0.0.1', port=8099):
    """The real run_simple.serve_error_app closure, obtained through run_simple itself."""
    captured = {}

    def fake_run_with_reloader(main_func, extra_files=None, interval=1, error_func=None):
        captured['error_func'] = error_func
    saved = server.run_with_reloader, server.open_test_socket, os.environ.get('WERKZEUG_RUN_MAIN')
    server.run_with_reloader = fake_run_with_reloader
    server.open_test_socket = lambda host, port, raise_exc=True: True
    os.environ['WERKZEUG_RUN_MAIN'] = 'true'   # only silences the banner
    try:
        server.run_simple(host, port, application=object(), use_reloader=True)
    finally:
        server.run_with_reloader, server.open_test_socket = saved[:2]
        if saved[2] is None:
            del os.environ['WERKZEUG_RUN_MAIN']
        else:
            os.environ['WERKZEUG_RUN_MAIN'] = saved[2]
    return captured['error_func']


def run(children, loop_actions=(), with_error_func=True):
    world = World(children, loop_actions)
    with world.active():
        error_func = get_error_func(world) if with_error_func else None
        world.result = server.restart_with_reloader(error_func=error_func)
    return world


# --------------------------------------------------------------------------
# page model (kept deliberately simple: the parsed/unparsed headline is
# checked through the 'Type: message' statement of the property)
# --------------------------------------------------------------------------

def esc(value):
    try:
        if value is None or value is False or len(value) == 0:
            return ''
    except TypeError:
        pass
    return html.escape(str(value), True)


PATHS = ['/', '/foo', '/foo/bar/', '/a/b/c.d', '/%7Btb_str%7D', '/<script>', '/favicon.ico']


def check_pages(app, text, files, named=None):
    client = app.get_local_client()
    bodies = set()
    for path in PATHS:
        for method in ('get', 'post'):
            resp = getattr(client, method)(path)
            assert resp.status_code == 200, (path, method, resp.status_code)
            bodies.add(resp.get_data(True))
    assert len(bodies) == 1
    body = bodies.pop()
    assert '<pre>%s</pre>' % esc(text) in body, (text, body)
    all_lis = ''.join('<li>%s</li>' % esc(f) for f in files)
    assert '<ul id="all_files" style="display:none;">%s</ul>' % all_lis in body, (files, body)
    if named:
        exc_type, exc_msg = named
        assert '<h2 class="parsed-error-h2">%s<p>%s</p></h2>' % (esc(exc_type), esc(exc_msg)) in body, body
    return body


def lines_of(text):
    return [l.encode('utf8') for l in text.splitlines(True)]


CLASSIC_TB = ('Traceback (most recent call last):\n'
              '  File "/srv/app/main.py", line 3, in <module>\n'
              '    import <broken> & "stuff"\n'
              '  File "/srv/app/broken.py", line 1, in <module>\n'
              '    plarp\n'
              "NameError: name 'plarp' is not <defined> & {tb_str}\n")


def real_tracebacks():
    out = []
    for exc in (ValueError('v <b>'), KeyError('k'), ZeroDivisionError('division by zero'), RuntimeError(),
                ImportError('No module named {x}'), UnicodeError(u'sn\xf6w ☃')):
        for depth in (0, 3):
            def rec(n):
                if n <= 0:
                    raise exc
                return rec(n - 1)
            try:
                rec(depth)
            except Exception:
                out.append(traceback.format_exc())
    try:
        compile('foo(', '<demo>', 'exec')
    except SyntaxError:
        out.append(traceback.format_exc())
    out.append('  File "x.py", line 3\n    foo(\n       ^\nSyntaxError: invalid syntax\n')
    return out


def main():
    rnd = random.Random(2)
    n = 0

    # 1. the standard case: traceback + monitored-files line, in every chunking
    files = ['/srv/app/broken.py', '/srv/app/<b>m&m</b>.py', '/srv/{x}.py', 'a.py']
    mon_line = (MON + repr(files) + '\n').encode('utf8')
    raw = lines_of(CLASSIC_TB)
    chunkings = [
        [b''.join(raw) + mon_line],
        [mon_line + b''.join(raw)],
        raw[:2] + [mon_line] + raw[2:],
        [b''.join(raw)[:37], b''.join(raw)[37:60], b''.join(raw)[60:], mon_line],   # split inside text lines
        [b'', b'', b''.join(raw), b'', mon_line, b''],
    ]
    for child_cls in (FakeChild, LateChild):
        for chunks in chunkings:
            w = run([child_cls(chunks, 1)])
            assert w.result == 0
            assert len(w.servers) == 1 and len(w.popen_calls) == 1
            srv = w.servers[0]
            assert (srv.host, srv.port) == ('127.0.0.1', 8099)
            assert srv.events == ['serve_forever', 'shutdown', 'server_close'], srv.events
            assert w.echo.getvalue() == CLASSIC_TB          # echoed, without the monitor line
            # the reloader watches the very list that the error app got (sorted by create_app)
            watched, watched_snapshot, interval = w.loop_calls[0]
            assert interval == 1
            assert watched is srv.app.resources['all_mon_files']
            assert watched_snapshot == sorted(files, key=len)
            assert srv.app.resources['tb_str'] == CLASSIC_TB
            check_pages(srv.app, CLASSIC_TB, sorted(files, key=len),
                        named=('NameError', " name 'plarp' is not <defined> & {tb_str}"))
            args, env, stderr_arg = w.popen_calls[0]
            assert args[0] == sys.executable and env['WERKZEUG_RUN_MAIN'] == 'true'
            assert stderr_arg is server.subprocess.PIPE
            n += 1

    # 2. a spread of error texts (no monitor line -> empty file list)
    texts = real_tracebacks() + [
        'x', ' \n', '\n\nboom\n', '<script>alert(1)</script>\n', '{#parsed_err}{exc_type}{/parsed_err}\n',
        '{tb_str} {>flaw_tmpl/} {~lb}\n', 'no trailing newline', 'a\r\nb\rc\n', '\x00\x01\x7f\n', u'☃ \U0001f600\n',
        'Traceback (most recent call last):\n', 'Traceback (most recent call last):\nValueError: x\n',
        'Traceback (most recent call last):\n  File "a.py", line 1, in f\nKeyError: 1\n',
        MON[:-1] + '\n', ' ' + MON + '[1]\n', 'Exception x ignored\n',
    ]
    for _ in range(25):
        texts.append(''.join(rnd.choice('abc <>&"\'{}#/:.\n\t\\%') for _ in range(rnd.randint(1, 120))))
    for text in texts:
        w = run([FakeChild(lines_of(text), 1)])
        assert w.result == 0 and len(w.servers) == 1, text
        assert w.echo.getvalue() == text
        app = w.servers[0].app
        assert app.resources['tb_str'] == text and app.resources['all_mon_files'] == []
        body = check_pages(app, text, [])
        last = text.splitlines()[-1]
        etype, sep, emsg = last.partition(':')
        if text.lstrip().startswith('Traceback (most recent call last):\n  File') and sep and len(etype.split()) == 1 \
                and text.count('\n') % 2 == 0 and text.endswith('\n'):
            assert 'parsed-error-h2">%s<p>%s</p>' % (esc(etype), esc(emsg)) in body, (text, body)
        n += 1

    # 3. monitored-file lines: last one wins, any literal sequence is accepted, list identity is kept
    for payloads, expected in (
            (['[]'], []),
            (["['a', 'b']", "['/x/<i>.py']"], ['/x/<i>.py']),
            (["('t1', 't22')"], ['t1', 't22']),
            (["['ccc', 'a', 'bb']"], ['a', 'bb', 'ccc']),
            (['[%s]' % ', '.join(repr('/srv/f%03d.py' % i) for i in range(300))],
             ['/srv/f%03d.py' % i for i in range(300)])):
        chunks = []
        for p in payloads:
            chunks.append((MON + p + '\n').encode('utf8'))
            chunks.append(b'err line\n')
        w = run([FakeChild(chunks, 1)])
        app = w.servers[0].app
        assert app.resources['all_mon_files'] == expected
        assert w.loop_calls[0][0] is app.resources['all_mon_files']
        check_pages(app, 'err line\n' * len(payloads), expected)
        n += 1

    # 4. only the last _STDERR_BUFF_SIZE lines are kept (but all are echoed)
    size = server._STDERR_BUFF_SIZE
    many = ['line %d <&>\n' % i for i in range(size + 500)]
    w = run([FakeChild([l.encode('utf8') for l in many], 1)])
    assert w.echo.getvalue() == ''.join(many)
    kept = ''.join(many[-size:])
    assert w.servers[0].app.resources['tb_str'] == kept
    check_pages(w.servers[0].app, kept, [])
    n += 1

    # 5. exit codes and the restart loop
    w = run([FakeChild([b'warning\n'], 0)])
    assert w.result == 0 and not w.servers and w.echo.getvalue() == 'warning\n'
    w = run([FakeChild([], 1)])                              # died silently: nothing to show
    assert w.result == 1 and not w.servers
    w = run([FakeChild([(MON + "['a']\n").encode('utf8')], 1)])   # only the monitor line: still nothing to show
    assert w.result == 1 and not w.servers
    w = run([FakeChild([b'boom\n'], 1)], with_error_func=False)
    assert w.result == 1 and not w.servers
    w = run([FakeChild([b'boom\n'], 2)])
    assert w.result == 2 and not w.servers
    w = run([FakeChild([b'boom\n'], -11)])
    assert w.result == -11 and not w.servers
    # 3 = restart: files reported by the first child survive, its stderr text does not
    w = run([FakeChild([b'first\n', (MON + "['keep.py']\n").encode('utf8')], 3), FakeChild([b'second\n'], 1)])
    assert w.result == 0 and len(w.popen_calls) == 2 and len(w.servers) == 1
    assert w.servers[0].app.resources['tb_str'] == 'second\n'
    assert w.servers[0].app.resources['all_mon_files'] == ['keep.py']
    check_pages(w.servers[0].app, 'second\n', ['keep.py'])
    # error page up, then a file changes (SystemExit(3)) -> child restarted -> fails again -> new page
    w = run([FakeChild([b'one\n'], 1), FakeChild([b'two\n'], 1)], loop_actions=[SystemExit(3), KeyboardInterrupt])
    assert w.result == 0 and len(w.servers) == 2
    assert [s.events for s in w.servers] == [['serve_forever', 'shutdown', 'server_close']] * 2
    assert [s.app.resources['tb_str'] for s in w.servers] == ['one\n', 'two\n']
    w = run([FakeChild([b'one\n'], 1)], loop_actions=[SystemExit(5)])
    assert w.result == 5 and w.servers[0].events[-2:] == ['shutdown', 'server_close']
    w = run([FakeChild([b'one\n'], 1)], loop_actions=[None])
    assert w.result == 0 and w.servers[0].events[-2:] == ['shutdown', 'server_close']
    n += 10

    # 6. failures propagate unchanged
    for chunks, exc_type in (([b'ok\n', b'\xff\xfe\n'], UnicodeDecodeError),
                             ([(MON + 'not a literal\n').encode('utf8')], SyntaxError),
                             ([(MON + 'open("x")\n').encode('utf8')], ValueError),
                             ([(MON + '5\n').encode('utf8')], TypeError)):
        try:
            run([FakeChild(chunks, 1)])
        except exc_type:
            pass
        else:
            raise AssertionError('expected %s' % exc_type.__name__)
        n += 1

    print('scenarios checked: %d' % n)
    print('PASS')


if __name__ == '__main__':
    main()
