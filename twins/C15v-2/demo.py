# -*- coding: utf-8 -*-
"""demo2: SimpleProfileMiddleware is a pure pass-through without its trigger
parameter (status, body and headers of every kind of response are unchanged),
and with the trigger it behaves as it always did.

Standalone; prints PASS and exits 0.
"""
import os
import re
import sys
import warnings

warnings.simplefilter('ignore')
sys.path.insert(0, os.path.dirname(os.path.abspath(__file__)))

from werkzeug.urls import url_quote
from werkzeug.wrappers import Response

from clastic import Application, render_basic, redirect, GET, POST
from clastic.errors import NotFound, Forbidden, BadRequest, ServiceUnavailable
from clastic.middleware import SimpleProfileMiddleware, GzipMiddleware
from clastic.middleware.profile import _sort_keys
from clastic.middleware.stats import StatsMiddleware


def text_ep():
    return Response(b'hello world ' * 50, mimetype='text/plain')


def empty_ep():
    return Response(b'', mimetype='text/plain')


def binary_ep():
    return Response(bytes(bytearray(range(256))) * 8,
                    mimetype='application/octet-stream')


def echo_ep(request):
    return Response(repr(sorted(request.args.items(multi=True))),
                    mimetype='text/plain')


def ctx_ep():
    return {'greeting': 'hello', 'n': 3}


def redirect_ep():
    return redirect('/text')


def raise_404():
    raise NotFound('raised by the application')


def return_403():
    return Forbidden('returned by the application')


def return_503():
    return ServiceUnavailable(detail='down for maintenance', mimetype='text/html')


def nonbreaking():
    raise BadRequest('try the next route', is_breaking=False)


def after_nonbreaking():
    return Response(b'second route answered', mimetype='text/plain')


def boom():
    raise ValueError('uncaught')


def post_only():
    return Response(b'posted', mimetype='text/plain')


def make_app(middlewares):
    routes = [('/text', text_ep),
              ('/empty', empty_ep),
              ('/binary', binary_ep),
              ('/echo', echo_ep),
              ('/ctx', ctx_ep, render_basic),
              ('/redirect', redirect_ep),
              ('/raise404', raise_404),
              ('/return403', return_403),
              ('/return503', return_503),
              GET('/nb', nonbreaking),
              GET('/nb', after_nonbreaking),
              GET('/nb_only', nonbreaking),
              ('/boom', boom),
              POST('/post_only', post_only)]
    return Application(routes, middlewares=middlewares)


PATHS = [('GET', '/text'), ('HEAD', '/text'), ('GET', '/empty'), ('GET', '/binary'),
         ('GET', '/echo'), ('GET', '/ctx'), ('GET', '/redirect'),
         ('GET', '/raise404'), ('GET', '/return403'), ('GET', '/return503'),
         ('GET', '/nb'), ('GET', '/nb_only'), ('GET', '/boom'),
         ('GET', '/unknown/url'), ('GET', '/post_only'), ('POST', '/post_only'),
         ('DELETE', '/post_only'), ('POST', '/text')]

# query strings that do NOT trigger the default-configured profiler
QUIET_QUERIES = ['', 'x=1', '_prof=', '_prof_sort=bogus', '_prof_sort=name&_prof=',
                 'prof=1', '_PROF=1', '_prof=&_prof=1', 'format=json']

ACCEPTS = [None, 'text/html', 'application/json', 'application/xml', 'image/png']


def normalize(path, body):
    """The body of a framework-generated 500 mentions the number of stack
    frames / the frames, which legitimately includes those of the installed
    middlewares (and their line numbers): mask that."""
    if path.startswith('/boom'):
        body = re.sub(br'\(\d+ frames', b'(N frames', body)
        body = body.partition(b'"exc_info"')[0]
    return body


def fetch(app, method, path, query='', accept=None):
    headers = {}
    if accept is not None:
        headers['Accept'] = accept
    url = path + ('?' + query if query else '')
    return app.get_local_client().open(url, method=method, headers=headers)


def relevant_headers(resp):
    return sorted((k, v) for k, v in resp.headers.items())


def main():
    plain_app = make_app([])
    profiled_apps = [make_app([SimpleProfileMiddleware()]),
                     make_app([SimpleProfileMiddleware(raise_exc=False)]),
                     make_app([SimpleProfileMiddleware(get_param_name='go',
                                                       sort_param_name='by')]),
                     make_app([SimpleProfileMiddleware(), SimpleProfileMiddleware(get_param_name='p2')])]
    n_checked = 0
    for method, path in PATHS:
        for query in QUIET_QUERIES:
            for accept in ACCEPTS:
                ref = fetch(plain_app, method, path, query, accept)
                for app in profiled_apps:
                    got = fetch(app, method, path, query, accept)
                    what = (method, path, query, accept)
                    assert got.status_code == ref.status_code, what
                    assert normalize(path, got.get_data()) == normalize(path, ref.get_data()), what
                    if path != '/boom':
                        assert relevant_headers(got) == relevant_headers(ref), what
                    n_checked += 1

    # in a stack with other built-in middlewares, still nothing changes
    stack_ref = make_app([GzipMiddleware(), StatsMiddleware()])
    stack_app = make_app([GzipMiddleware(), SimpleProfileMiddleware(), StatsMiddleware()])
    for method, path in PATHS:
        ref = fetch(stack_ref, method, path)
        got = fetch(stack_app, method, path)
        assert (got.status_code, normalize(path, got.get_data())) == \
            (ref.status_code, normalize(path, ref.get_data())), (method, path)
        n_checked += 1

    # --- with the trigger -------------------------------------------------
    app, lenient_app, renamed_app = profiled_apps[:3]
    prefix, suffix = b'<html><body><pre>', b'</pre></body</html>'

    def assert_profile_page(resp, status, ordered_by):
        body = resp.get_data()
        assert resp.status_code == status, resp.status_code
        assert body.startswith(prefix) and body.endswith(suffix), body[:80]
        assert b' function calls' in body and b' seconds\n' in body
        assert b'Ordered by: ' + ordered_by + b'\n' in body, body[:200]
        assert b'ncalls  tottime  percall  cumtime  percall filename:lineno(function)' in body

    for a in (app, lenient_app):
        assert_profile_page(fetch(a, 'GET', '/text', '_prof=1'), 200, b'internal time')
        assert_profile_page(fetch(a, 'GET', '/text', '_prof=0'), 200, b'internal time')  # '0' is truthy
        assert_profile_page(fetch(a, 'GET', '/empty', '_prof=yes&_prof_sort=cumulative'), 200, b'cumulative time')
        assert_profile_page(fetch(a, 'GET', '/text', '_prof=1&_prof_sort=name'), 200, b'function name')
        assert_profile_page(fetch(a, 'GET', '/text', '_prof=1&_prof_sort=nfl'), 200, b'name/file/line')
        assert_profile_page(fetch(a, 'GET', '/text', '_prof=1&_prof_sort=pcalls'), 200, b'primitive call count')
        assert_profile_page(fetch(a, 'GET', '/text', '_prof=1&_prof_sort=stdname'), 200, b'standard name')
        assert_profile_page(fetch(a, 'GET', '/text', '_prof=1&_prof_sort=module'), 200, b'file name')
        assert_profile_page(fetch(a, 'GET', '/text', '_prof=1&_prof_sort=file'), 200, b'file name')
        assert_profile_page(fetch(a, 'GET', '/text', '_prof=1&_prof_sort=line'), 200, b'line number')
        assert_profile_page(fetch(a, 'GET', '/text', '_prof=1&_prof_sort=time&_prof_sort=bogus'), 200, b'internal time')
        # redirects keep their status and get the page; returned HTTPExceptions
        # are re-rendered by the error handler afterwards
        r = fetch(a, 'GET', '/return403', '_prof=1')
        assert (r.status_code, r.get_data()) == (403, fetch(plain_app, 'GET', '/return403').get_data())
        assert_profile_page(fetch(a, 'GET', '/redirect', '_prof=1'), 302, b'internal time')
        assert_profile_page(fetch(a, 'GET', '/ctx', '_prof=1'), 200, b'internal time')
        # the endpoint's own code shows up in the profile
        assert b'(text_ep)' in fetch(a, 'GET', '/text', '_prof=1').get_data()
        # the profile page keeps the endpoint's content type and a correct length
        r = fetch(a, 'GET', '/text', '_prof=1')
        assert r.headers['Content-Type'] == 'text/plain; charset=utf-8'
        assert r.headers['Content-Length'] == str(len(r.get_data()))

        # unsupported sort key: KeyError -> 500 with the very same message
        for bad in ('bogus', '', 'TIME', '%s', '{}', u'\xfc'):
            r = fetch(a, 'GET', '/text', '_prof=1&_prof_sort=' + url_quote(bad))
            assert r.status_code == 500, bad
            expected = repr('%s is not a supported sort_key. choose from: %r' % (bad, _sort_keys))
            assert ('<ExceptionInfo [KeyError: %s]' % expected).encode('utf8') in r.get_data(), (bad, r.get_data()[:300])
            assert b"Callpoint('request'," in r.get_data()
        # the sort key is validated before the endpoint runs
        r = fetch(a, 'GET', '/boom', '_prof=1&_prof_sort=bogus')
        assert b'KeyError' in r.get_data() and b'ValueError' not in r.get_data()

    # exceptions raised below keep flowing (raise_exc=True) ...
    r = fetch(app, 'GET', '/raise404', '_prof=1')
    assert (r.status_code, r.get_data()) == (404, fetch(plain_app, 'GET', '/raise404').get_data()), r.get_data()
    r = fetch(app, 'GET', '/unknown/url', '_prof=1')
    assert (r.status_code, r.get_data()) == (404, fetch(plain_app, 'GET', '/unknown/url').get_data())
    r = fetch(app, 'PUT', '/post_only', '_prof=1')
    assert (r.status_code, r.headers['Allow']) == (405, 'POST')
    r = fetch(app, 'GET', '/boom', '_prof=1')
    assert r.status_code == 500 and b'[ValueError: uncaught]' in r.get_data()
    r = fetch(app, 'GET', '/nb', '_prof=1')
    assert_profile_page(r, 200, b'internal time')
    # ... unless raise_exc is off: then there is no response to put the page in
    for path in ('/boom', '/raise404', '/nb_only'):
        r = fetch(lenient_app, 'GET', path, '_prof=1')
        assert r.status_code == 500, path
        assert b'[UnboundLocalError: ' in r.get_data(), r.get_data()[:200]
        assert b"Callpoint('request'," in r.get_data()
        assert b'ret.set_data(body)' in r.get_data()

    # (the framework's own 404 is *returned* by the null route, not raised)
    r = fetch(lenient_app, 'GET', '/unknown/url', '_prof=1')
    assert (r.status_code, r.get_data()) == (404, fetch(plain_app, 'GET', '/unknown/url').get_data())

    # renamed parameters
    assert fetch(renamed_app, 'GET', '/text', '_prof=1').get_data() == b'hello world ' * 50
    assert_profile_page(fetch(renamed_app, 'GET', '/text', 'go=1&by=name'), 200, b'function name')
    assert_profile_page(fetch(renamed_app, 'GET', '/text', 'go=1&_prof_sort=bogus'), 200, b'internal time')
    assert fetch(renamed_app, 'GET', '/text', 'go=1&by=bogus').status_code == 500

    assert n_checked > 3000, n_checked
    print('checked %d pass-through responses' % n_checked)
    print('PASS')


if __name__ == '__main__':
    main()
