# -*- coding: utf-8 -*-
"""demo3: the meta pages always render (200) and never show secrets, whatever the
peripherals report.  Focus: the "General" table built from the peripherals'
general items (any shape of item must be displayable, a failing peripheral only
loses its own rows / gets an exc_content marker)."""
import json
import sys

from clastic import Application, MetaApplication, render_basic
from clastic.middleware.cookie import SignedCookieMiddleware
from clastic.meta import _process_items, MetaPeripheral, DEFAULT_PERIPHERALS

SECRET = 'S3CR3T-VALUE-0xDEADBEEF'
KEY = 'SIGNING-KEY-0xFEEDFACE'


class BadRepr(object):
    "neither unpackable, indexable nor repr-able"
    def __repr__(self):
        raise RuntimeError('no repr')


class BadStr(object):
    "indexable as a pair whose detail cannot be turned into text"
    def __getitem__(self, i):
        if i == 0:
            return 'first'
        raise ValueError('no second element')

    def __str__(self):
        return 'BadStr-as-text'


class Pairish(object):
    def __getitem__(self, i):
        return ['p0', 'p1'][i]

    def __str__(self):
        return 'Pairish-as-text'


# ---- 1. _process_items directly: expected output spelled out for each item shape
cases = [
    # plain text key and value
    (('Key', 'Value'), {'key': 'Key', 'value': 'Value'}),
    ((b'Key', b'Value'), {'key': b'Key', 'value': b'Value'}),
    (('', ''), {'key': '', 'value': ''}),
    (['Key', 'Value'], {'key': 'Key', 'value': 'Value'}),
    # (text, detail) pairs on either side
    (('PID', (12, 'twelve')), {'key': 'PID', 'value': '12', 'value_detail': 'twelve'}),
    ((('K', 'kd'), 'V'), {'key': 'K', 'key_detail': 'kd', 'value': 'V'}),
    ((('K', 'kd'), ('V', 'vd')), {'key': 'K', 'key_detail': 'kd', 'value': 'V', 'value_detail': 'vd'}),
    ((('K', 'kd', 'extra'), ['V', 'vd', 'extra']),
     {'key': 'K', 'key_detail': 'kd', 'value': 'V', 'value_detail': 'vd'}),
    (((0, None), (None, 0)), {'key': '0', 'key_detail': 'None', 'value': 'None', 'value_detail': '0'}),
    # non-text, non-pair parts: whole object as text, no detail
    (('n', 5), {'key': 'n', 'value': '5'}),
    (('n', 0), {'key': 'n', 'value': '0'}),
    (('n', None), {'key': 'n', 'value': 'None'}),
    (('n', 1.5), {'key': 'n', 'value': '1.5'}),
    ((7, 'v'), {'key': '7', 'value': 'v'}),
    ((None, None), {'key': 'None', 'value': 'None'}),
    (('n', ()), {'key': 'n', 'value': '()'}),
    (('n', []), {'key': 'n', 'value': '[]'}),
    (('n', {}), {'key': 'n', 'value': '{}'}),
    # one-element containers: the first element is tried, then the whole wins
    (('n', ('only',)), {'key': 'n', 'value': "('only',)"}),
    ((('only',), 'v'), {'key': "('only',)", 'value': 'v'}),
    (('n', [1]), {'key': 'n', 'value': '[1]'}),
    # dicts: looked up with 0 and 1
    (('n', {0: 'zero', 1: 'one'}), {'key': 'n', 'value': 'zero', 'value_detail': 'one'}),
    (('n', {0: 'zero'}), {'key': 'n', 'value': "{0: 'zero'}"}),
    (('n', {'a': 1}), {'key': 'n', 'value': "{'a': 1}"}),
    # objects with their own indexing / text form
    (('n', Pairish()), {'key': 'n', 'value': 'p0', 'value_detail': 'p1'}),
    ((Pairish(), 'v'), {'key': 'p0', 'key_detail': 'p1', 'value': 'v'}),
    (('n', BadStr()), {'key': 'n', 'value': 'BadStr-as-text'}),
    ((BadStr(), 'v'), {'key': 'BadStr-as-text', 'value': 'v'}),
    # items that are not 2-sequences: first element vs. the rest
    (('a', 'b', 'c'), {'key': 'a', 'value': 'b', 'value_detail': 'c'}),
    (('a', 1, 2, 3), {'key': 'a', 'value': '1', 'value_detail': '2'}),
    (('a',), {'key': 'a', 'value': '()'}),
    ((('K', 'kd'),), {'key': 'K', 'key_detail': 'kd', 'value': '()'}),
    ('ab', {'key': 'a', 'value': 'b'}),
    ('abc', {'key': 'a', 'value': 'bc'}),
    ('a', {'key': 'a', 'value': ''}),
    (b'ab', {'key': '97', 'value': '98'}),
    (b'abc', {'key': '97', 'value': b'bc'}),
    ({'k1': 1, 'k2': 2}, {'key': 'k1', 'value': 'k2'}),
    # items that cannot be split at all: their repr, empty value
    (5, {'key': '5', 'value': ''}),
    (None, {'key': 'None', 'value': ''}),
    ('', {'key': "''", 'value': ''}),
    ((), {'key': '()', 'value': ''}),
    ({}, {'key': '{}', 'value': ''}),
]
for item, expected in cases:
    got = _process_items([item])
    assert got == [expected], (item, got, expected)
    assert list(got[0]) == list(expected), (item, list(got[0]))      # key order too
    for k, v in expected.items():
        assert type(got[0][k]) is type(v), (item, k, got[0][k])

# all at once: order and independence of the rows
all_items = [c[0] for c in cases]
assert _process_items(all_items) == [c[1] for c in cases]
assert _process_items(iter(all_items)) == [c[1] for c in cases]     # any iterable
assert _process_items([]) == [] and _process_items(()) == []
rows = _process_items([('a', 'b'), ('a', 'b')])
assert rows[0] == rows[1] and rows[0] is not rows[1]
key_obj = 'the-very-key'
assert _process_items([(key_obj, 'v')])[0]['key'] is key_obj        # text is passed through

# an object that cannot even be repr-ed, as the very first item: the function gives up
try:
    _process_items([BadRepr()])
except UnboundLocalError:
    pass
else:
    raise AssertionError('expected UnboundLocalError')
try:
    _process_items(None)
except TypeError:
    pass
else:
    raise AssertionError('expected TypeError')
# ... and after another item it is labelled with the previous key
rows = _process_items([('prev', 'x'), BadRepr()])
assert rows[0] == {'key': 'prev', 'value': 'x'}
assert set(rows[1]) == {'key', 'value'} and rows[1]['value'] == ''
assert rows[1]['key'].startswith('unreprable object ') and 'str object' in rows[1]['key']


# a value whose text conversion fails makes the whole call fail (caught by the page)
class NoText(object):
    def __str__(self):
        raise RuntimeError('no text')


for bad in [('k', NoText()), (NoText(), 'v')]:
    try:
        _process_items([bad])
    except RuntimeError:
        pass
    else:
        raise AssertionError('expected RuntimeError')


# ---- 2. whole application with extra peripherals of every temper
class ItemsPeripheral(MetaPeripheral):
    title = 'Items'
    group_key = 'items'

    def __init__(self, items):
        self.items = items

    def get_general_items(self):
        return self.items


class CtxFails(MetaPeripheral):
    title = 'CtxFails'
    group_key = 'ctxfails'

    def get_context(self):
        raise ValueError('ctx-went-wrong')

    def render_main_page_html(self, context):
        return '<p>ctxfails-content</p>'


class RenderFails(MetaPeripheral):
    title = 'RenderFails'
    group_key = 'renderfails'

    def get_context(self):
        return {'fine': 1}

    def render_main_page_html(self, context):
        raise KeyError('render-went-wrong')

    def get_general_items(self, context):
        return [('still-listed', context['fine'])]


class ItemsFail(MetaPeripheral):
    title = 'ItemsFail'
    group_key = 'itemsfail'

    def get_general_items(self):
        raise RuntimeError('items-went-wrong')


class UnprocessableItems(MetaPeripheral):
    title = 'Unprocessable'
    group_key = 'unproc'

    def get_general_items(self):
        return [BadRepr(), ('never-shown-row', 'x')]


class NotIterableItems(MetaPeripheral):
    title = 'NotIterable'
    group_key = 'notiter'

    def get_general_items(self):
        return None


good_items = [('Simple-Key', 'Simple-Value'),
              (('Abbr-Key', 'Key-Detail'), ('Abbr-Value', 'Value-Detail')),
              ('Number-Key', 424242),
              ('Triple-Key', 'Triple-Value', 'Triple-Detail'),
              987654321]
peripherals = [ItemsPeripheral(good_items), CtxFails(), RenderFails(), ItemsFail(),
               UnprocessableItems(), NotIterableItems(),
               ItemsPeripheral([('After-Key', 'After-Value')])]

resources = {'api_secret': SECRET, 'secret_obj': {'x': [SECRET]}, 'visible': 'plain-visible-value'}


def hello(request):
    return 'hi'


def build(prefix, depth, extra):
    inner = Application([(prefix, MetaApplication(peripherals=extra))])
    for _ in range(depth):
        inner = Application([('/sub', inner)])
    return Application([('/hello', hello, render_basic), ('/', inner)],
                       resources=dict(resources),
                       middlewares=[SignedCookieMiddleware(secret_key=KEY)])


for prefix, depth in [('/meta', 0), ('/m/n', 0), ('/meta', 2)]:
    app = build(prefix, depth, peripherals)
    cl = app.get_local_client()
    base = '/sub' * depth + prefix

    resp = cl.get(base + '/')
    assert resp.status_code == 200
    html = resp.get_data(as_text=True)
    resp = cl.get(base + '/json/')
    assert resp.status_code == 200
    js = resp.get_data(as_text=True)
    for body in (html, js):
        assert SECRET not in body and KEY not in body
        assert '[REDACTED]' in body and 'plain-visible-value' in body
        assert 'ctx-went-wrong' in body          # reported, not fatal

    # the General table
    assert '<th>Simple-Key</th>' in html and '<td>Simple-Value</td>' in html
    assert '<abbr title="Key-Detail">Abbr-Key</abbr>' in html
    assert '<abbr title="Value-Detail">Abbr-Value</abbr>' in html
    assert '<th>Number-Key</th>' in html and '<td>424242</td>' in html
    assert '<abbr title="Triple-Detail">Triple-Value</abbr>' in html
    assert '<th>987654321</th>' in html
    assert '<th>still-listed</th>' in html and '<td>1</td>' in html
    assert '<th>After-Key</th>' in html and '<td>After-Value</td>' in html
    assert 'never-shown-row' not in html
    assert '<th>PID</th>' in html and '<th>Start time</th>' in html
    assert 'No general items' not in html
    order = [html.index(w) for w in ('Start time', 'Simple-Key', 'Abbr-Key', 'Number-Key',
                                     'Triple-Key', '987654321', 'still-listed', 'After-Key')]
    assert order == sorted(order), order
    # sections: failing ones carry a marker, the page goes on
    assert 'ctxfails-content' in html
    assert 'render-went-wrong' in html
    assert 'items-went-wrong' not in html
    assert 'Application Resources' in html and 'Python Runtime' in html

    data = json.loads(js)
    assert data['ctxfails'] == {'exc_content': "ValueError('ctx-went-wrong')"}
    assert data['renderfails'] == {'fine': 1}
    assert 'sections' not in data and 'general' not in data
    for group in ('app', 'host', 'proc', 'pyvm', 'basic', 'rusage'):
        assert 'exc_content' not in data[group], (group, data[group].get('exc_content'))

# without any item-producing peripheral the table is replaced by a note
class Silent(MetaPeripheral):
    group_key = 'silent'


app = Application([('/meta', MetaApplication(base_peripherals=[Silent()],
                                             peripherals=[ItemsPeripheral([])]))],
                  resources=dict(resources))
resp = app.get_local_client().get('/meta/')
assert resp.status_code == 200
assert 'No general items' in resp.get_data(as_text=True)
assert len(DEFAULT_PERIPHERALS) == 9

print('PASS')
sys.exit(0)
