# -*- coding: utf-8 -*-
"""C11 demo: binding is non-destructive, applications are isolated, add() is atomic.

Runs a deterministic pseudo-random history of operations over several live
applications and compares each one with a model routing table after every step.
"""
import os
import sys
import random

sys.path.insert(0, os.path.dirname(os.path.abspath(__file__)))

from werkzeug.wrappers import Response

import clastic
from clastic import Application, Route, GET, POST, SubApplication
from clastic.application import DispatchState
from clastic.route import (BoundRoute, NullRoute, InvalidPattern, normalize_path,
                           build_converter, S_STRICT, S_REDIRECT, S_REWRITE)
from clastic.middleware import Middleware

assert os.path.dirname(clastic.__file__).startswith(os.path.dirname(os.path.abspath(__file__)))


def make_ep(tag):
    def ep(request):
        return Response('ep:' + tag)
    ep.__name__ = 'ep_' + tag
    return ep


def needs_res(db):
    return Response('db:%s' % (db,))


def needs_missing(no_such_thing):
    return Response('never')


class ProvMW(Middleware):
    provides = ('prov',)

    def request(self, next, request):
        return next(prov='P')


class HungryMW(Middleware):
    def request(self, next, not_available):
        return next()


def uses_prov(prov):
    return Response('prov:' + prov)


def snapshot(app):
    return [(r.pattern, r.unbound_route, tuple(r.bound_apps), r.slash_mode) for r in app.routes]


def fetch(app, path, method='GET'):
    resp = app.get_local_client().open(path, method=method)
    return resp.status_code, resp.get_data(as_text=True)


class Model(object):
    """The harness' own idea of an application's routing table."""
    def __init__(self, app, entries):
        self.app = app
        self.entries = list(entries)  # (pattern, tag)

    def check(self):
        assert [r.pattern for r in self.app.routes] == [p for p, _ in self.entries], \
            ([r.pattern for r in self.app.routes], self.entries)
        assert all(isinstance(r, BoundRoute) for r in self.app.routes)
        assert all(r.bound_apps[-1] is self.app for r in self.app.routes)
        assert not any(isinstance(r.unbound_route, NullRoute) for r in self.app.routes)
        seen = set()
        for patt, tag in self.entries:
            if '<' in patt or patt in seen:
                continue
            seen.add(patt)
            status, body = fetch(self.app, patt)
            assert (status, body) == (200, 'ep:' + tag), (patt, status, body)
        assert fetch(self.app, '/definitely/not/there')[0] == 404


def failing_entries(good_sub):
    bad_sub = Application([('/ok1', make_ep('ok1')), ('/bad', needs_missing)]) \
        if False else None
    yield ('/f_unresolved', needs_missing), NameError
    yield ('no_leading_slash', make_ep('x')), InvalidPattern
    yield ('/a//b', make_ep('x')), InvalidPattern
    yield ('/<x>/<x>', make_ep('x')), InvalidPattern
    yield ('/<x!int>', make_ep('x')), InvalidPattern
    yield ('/<x:nosuchtype>', make_ep('x')), InvalidPattern
    yield Route('/f_mw', make_ep('x'), middlewares=[HungryMW()]), NameError
    yield ('/f_notcallable', 'string'), TypeError
    yield 12345, TypeError
    yield ('/f_res', needs_res), NameError


def run_history(seed):
    rng = random.Random(seed)
    models = []
    shared_routes = [Route('/shared%d' % i, make_ep('shared%d' % i)) for i in range(3)]
    shared_state = [(r.pattern, r.endpoint, r.methods, r.slash_mode, dict(r.resources),
                     list(r.middlewares), r.render, r.render_error) for r in shared_routes]
    counter = [0]

    def fresh(prefix='r'):
        counter[0] += 1
        tag = '%s%d_%d' % (prefix, seed, counter[0])
        return '/' + tag, tag

    def check_all():
        for m in models:
            m.check()
        for r, st in zip(shared_routes, shared_state):
            assert not hasattr(r, 'bound_apps') and not hasattr(r, 'unbound_route')
            assert (r.pattern, r.endpoint, r.methods, r.slash_mode, dict(r.resources),
                    list(r.middlewares), r.render, r.render_error) == st

    for step in range(40):
        op = rng.choice(['new', 'add', 'add', 'fail', 'fail', 'embed', 'shared', 'failsub'])
        if op == 'new' or not models:
            entries = [fresh() for _ in range(rng.randint(0, 3))]
            slash = rng.choice([S_REDIRECT, S_STRICT, S_REWRITE])
            app = Application([(p, make_ep(t)) for p, t in entries], slash_mode=slash)
            models.append(Model(app, entries))
        elif op == 'add':
            m = rng.choice(models)
            p, t = fresh()
            idx = rng.choice([None, 0, 1, len(m.entries), len(m.entries) + 5])
            kind = rng.choice(['tuple', 'route', 'get'])
            entry = {'tuple': (p, make_ep(t)), 'route': Route(p, make_ep(t)),
                     'get': GET(p, make_ep(t))}[kind]
            m.app.add(entry, index=idx)
            pos = len(m.entries) if idx is None else min(idx, len(m.entries))
            m.entries.insert(pos, (p, t))
        elif op == 'shared':
            m = rng.choice(models)
            r = rng.choice(shared_routes)
            idx = rng.choice([None, 0])
            m.app.add(r, index=idx)
            m.entries.insert(len(m.entries) if idx is None else 0, (r.pattern, r.pattern[1:]))
        elif op == 'embed':
            inner, outer = rng.choice(models), rng.choice(models)
            pfx = '/e%d_%d' % (seed, step)
            before_inner = snapshot(inner.app)
            idx = rng.choice([None, 0, 1])
            form = rng.choice(['tuple', 'subapp'])
            entry = (pfx + rng.choice(['', '/']), inner.app) if form == 'tuple' \
                else SubApplication(pfx, inner.app)
            new_entries = [(pfx + p, t) for p, t in inner.entries]
            outer.app.add(entry, index=idx)
            pos = len(outer.entries) if idx is None else min(idx, len(outer.entries))
            if inner is not outer:
                assert snapshot(inner.app) == before_inner
            outer.entries[pos:pos] = new_entries
        elif op == 'fail':
            m = rng.choice(models)
            before = snapshot(m.app)
            others = [(o, snapshot(o.app)) for o in models]
            entry, exc_type = rng.choice(list(failing_entries(None)))
            try:
                m.app.add(entry, index=rng.choice([None, 0, 1]))
            except exc_type:
                pass
            else:
                raise AssertionError('add(%r) should have failed' % (entry,))
            assert snapshot(m.app) == before
            for o, snap in others:
                assert snapshot(o.app) == snap
        elif op == 'failsub':
            # the k-th route of an embedded application cannot be bound
            m = rng.choice(models)
            k = rng.randint(0, 2)
            sub_entries = [fresh('s') for _ in range(3)]
            sub = Application([(p, make_ep(t)) for p, t in sub_entries], resources={'db': 'D'})
            sub.add(('/<dupe>/needs_db', needs_res), index=k)
            sub_model = Model(sub, sub_entries)
            sub_model.entries.insert(k, ('/<dupe>/needs_db', None))
            before, sub_before = snapshot(m.app), snapshot(sub)
            try:
                m.app.add(('/fs%d/<dupe>' % step, sub), index=rng.choice([None, 0]))
            except InvalidPattern:
                pass
            else:
                raise AssertionError('embedding should have failed')
            assert snapshot(m.app) == before and snapshot(sub) == sub_before
            assert fetch(sub, '/q/needs_db') == (200, 'db:D')
            sub_model.check()
            try:
                Application([('/pre', make_ep('pre')), ('/sub/<dupe>/', sub)])
            except InvalidPattern:
                pass
            else:
                raise AssertionError('constructor should have failed')
            assert snapshot(sub) == sub_before
        check_all()
    return len(models)


def fixed_cases():
    # helper functions keep their import paths and semantics
    for path, branch, want in [('', False, '/'), ('/', True, '/'), ('//', False, '/'),
                               ('/a', False, '/a'), ('/a', True, '/a/'), ('a//b/', False, '/a/b'),
                               ('///a///b///', True, '/a/b/'), ('/0', False, '/0')]:
        assert normalize_path(path, branch) == want, (path, branch)
        assert clastic.application.normalize_path(path, branch) == want
    single, opt_single = build_converter(int), build_converter(int, optional=True)
    multi, opt_multi = build_converter(int, multi=True), build_converter(int, True, True)
    assert single('/12') == 12 and opt_single('') is None and opt_single('/0') == 0
    assert multi('/1/2/3') == [1, 2, 3] and opt_multi('') == [] and multi('') == []
    for conv in (single,):
        try:
            conv('')
        except ValueError:
            pass
        else:
            raise AssertionError('int("") must fail')

    # methods: matching, 405 and isolation of the methods set
    r = Route('/m', make_ep('m'), methods=['get'])
    assert r.methods == set(['GET', 'HEAD'])
    assert Route('/m', make_ep('m')).methods is None
    assert Route('/m', make_ep('m'), methods=[]).methods == []
    a, b = Application([r]), Application([r, POST('/m', make_ep('post'))])
    br = a.routes[0]
    assert br.match_method('GET') is True and br.match_method('get') is True
    assert br.match_method('POST') is False and br.match_method('') is True
    assert br.match_method(None) is True
    assert a._null_route.match_method('ANYTHING') is True
    assert fetch(a, '/m', 'POST')[0] == 405 and fetch(b, '/m', 'POST') == (200, 'ep:post')
    assert fetch(a, '/m', 'HEAD')[0] == 200

    # bind() options
    for bad_kw in ({'bogus': 1}, {'prefix': '/p', 'zzz': None}):
        try:
            r.bind(a, **bad_kw)
        except TypeError as te:
            assert 'unexpected keyword args' in str(te) and 'dict_keys' in str(te)
        else:
            raise AssertionError('bad keyword accepted')
    try:
        a.add(r, bogus=True)
    except TypeError:
        pass
    else:
        raise AssertionError('bad keyword accepted by add()')
    assert [x.pattern for x in a.routes] == ['/m']
    rb = br.bind(b, prefix='/pp', inherit_slashes=False)
    assert rb.pattern == '/pp/m' and rb.bound_apps == [a, b] and br.bound_apps == [a]
    assert rb.unbound_route is r and rb.slash_mode == br.slash_mode

    # slash mode inheritance / SubApplication defaults and overrides
    strict = Application([('/s/', make_ep('s'))], slash_mode=S_STRICT)
    outer = Application([('/in', strict)])
    assert outer.routes[0].slash_mode == S_REDIRECT and strict.routes[0].slash_mode == S_STRICT
    outer2 = Application([SubApplication('/in/', strict, inherit_slashes=False)])
    assert outer2.routes[0].slash_mode == S_STRICT and outer2.routes[0].pattern == '/in/s/'
    outer3 = Application()
    outer3.add(SubApplication('/x', strict, inherit_slashes=False), inherit_slashes=True)
    assert outer3.routes[0].slash_mode == S_REDIRECT
    sub = SubApplication('/pre', outer)
    assert sub.bind_all(outer3, prefix='/ignored')[0].pattern == '/pre/in/s/'
    assert [x.pattern for x in sub.iter_routes()] == ['/in/s/']
    assert [x.pattern for x in outer3.routes] == ['/x/s/']
    assert fetch(strict, '/s')[0] == 404 and fetch(outer, '/in/s')[0] in (301, 302, 308)

    # resources / middlewares are copied per binding, never shared
    mw = ProvMW()
    res_app = Application([Route('/db', needs_res, resources={'db': 'route'}),
                           ('/db2', needs_res), ('/prov', uses_prov)],
                          resources={'db': 'app'}, middlewares=[mw])
    other = Application([('/emb', res_app)], resources={'db': 'other'})
    # (at request time the dispatching application's resources win)
    assert fetch(res_app, '/db') == (200, 'db:app') and fetch(res_app, '/db2') == (200, 'db:app')
    assert fetch(other, '/emb/db') == (200, 'db:other')
    assert fetch(other, '/emb/db2') == (200, 'db:other')
    assert other.routes[0].resources == {'db': 'route'} and other.routes[1].resources == {'db': 'app'}
    assert fetch(other, '/emb/prov') == (200, 'prov:P') and other.middlewares == []
    assert other.routes[2].middlewares == (mw,) and res_app.routes[2].middlewares == (mw,)
    other.routes[0].resources['db'] = 'mutated'
    assert res_app.routes[0].resources['db'] == 'route' and res_app.resources == {'db': 'app'}
    assert res_app.routes[0].unbound_route.resources == {'db': 'route'}
    req_args = res_app.routes[2].get_required_args()
    assert req_args == ['prov'], req_args
    assert res_app.routes[0].get_required_args() == ['db']
    assert sorted(Application([('/<a>/<b:int>', lambda a, b: Response('x'))]).routes[0]
                  .get_required_args()) == ['a', 'b']
    assert isinstance(DispatchState().allowed_methods, set)


def sinter_cases():
    import linecache
    from clastic.sinter import make_chain, compile_code, compile_chain, chain_argspec
    from clastic.application import _get_all_middlewares

    def mw_a(next, request, a_opt=1):
        return next(a='A')

    def mw_b(next, a, b_in, shared='dflt'):
        return next(b=a + b_in + shared)

    def final(b, request, z=None):
        return (b, request, z)

    req, opt = chain_argspec([mw_a, mw_b, final], [('a',), ('b',), ()], 'next')
    assert req == set(['request', 'b_in']) and opt == set(['a_opt', 'shared', 'z']), (req, opt)
    assert chain_argspec([], [], 'next') == (set(), set())

    chain, args, unresolved = make_chain(iter([mw_a, mw_b]), iter([('a',), ('b',)]), final,
                                         iter(['request', 'shared', 'b_in']), 'next')
    assert args == set(['request', 'b_in', 'shared']) and unresolved == set()
    assert chain(request='R', b_in='B', shared='S') == ('ABS', 'R', None)
    chain2, args2, unresolved2 = make_chain([mw_a, mw_b], [('a',), ('b',)], final, ['request'], 'next')
    assert unresolved2 == set(['b_in']) and args2 == set(['request', 'b_in'])
    assert chain2(request='R', b_in='B') == ('ABdflt', 'R', None)
    assert chain is not chain2 and chain.__name__ == 'next'

    # generated code: filename depends on name + text only; objects are per call
    env1, env2 = {'funcs': [lambda: 1]}, {'funcs': [lambda: 2]}
    src = 'def next():\n    return funcs[0]()\n'
    f1 = compile_code(src, 'next', env1)
    f2 = compile_code(src, 'next', env=env2, verbose=False)
    assert f1() == 1 and f2() == 2 and f1 is not f2
    fn = f1.__code__.co_filename
    assert fn == f2.__code__.co_filename and fn.startswith('<sinter generated next ') and fn.endswith('>')
    assert len(fn) == len('<sinter generated next >') + 16
    assert linecache.cache[fn] == (len(src), None, src.splitlines(True), fn)
    assert linecache.getlines(fn) == ['def next():\n', '    return funcs[0]()\n']
    try:
        compile_code('def next(:\n', 'next', {})
    except SyntaxError:
        pass
    else:
        raise AssertionError('bad code compiled')
    try:
        compile_code('x = 1\n', 'next', {})
    except KeyError:
        pass
    else:
        raise AssertionError('missing name')
    g = compile_chain([final], [['b', 'request']], 'next')
    assert g(b=1, request=2) == (1, 2, None)

    # two applications with textually identical chains do not share behaviour
    app1 = Application([('/same', make_ep('one'))])
    app2 = Application([('/same', make_ep('two'))])
    assert app1.routes[0]._execute.__code__.co_filename == app2.routes[0]._execute.__code__.co_filename
    assert fetch(app1, '/same') == (200, 'ep:one') and fetch(app2, '/same') == (200, 'ep:two')
    assert fetch(app1, '/same') == (200, 'ep:one')

    # wsgi-level middleware collection: app mws first, then routes' (last route first), no dupes
    class EqMW(Middleware):
        __hash__ = None

        def __init__(self, key):
            self.key = key

        def __eq__(self, other):
            return isinstance(other, EqMW) and other.key == self.key

    m1, m1b, m2, m3 = EqMW(1), EqMW(1), EqMW(2), EqMW(3)
    app = Application([Route('/x', make_ep('x'), middlewares=[m2]),
                       Route('/y', make_ep('y'), middlewares=[m3, m1b])], middlewares=[m1])
    got = _get_all_middlewares(app.routes, app.middlewares)
    assert [m.key for m in got] == [1, 3, 2] and got[0] is m1, [m.key for m in got]
    assert _get_all_middlewares([]) == [] and _get_all_middlewares([], (m2, m2)) == [m2]
    assert [m.key for m in _get_all_middlewares(app.routes)] == [1, 3, 2]
    assert [[m.key for m in r.middlewares] for r in app.routes] == [[1, 2], [1, 3]]
    assert app.middlewares == [m1] and fetch(app, '/y') == (200, 'ep:y')

    # explicit add() keywords beat SubApplication settings, which beat defaults
    strict = Application([('/s/', make_ep('s'))], slash_mode=S_STRICT)
    host = Application()
    host.add(SubApplication('/a', strict, inherit_slashes=False))
    host.add(SubApplication('/b', strict, inherit_slashes=False), inherit_slashes=True, index=0)
    host.add(('/c', strict), index=1)
    assert [(r.pattern, r.slash_mode) for r in host.routes] == \
        [('/b/s/', S_REDIRECT), ('/c/s/', S_REDIRECT), ('/a/s/', S_STRICT)]
    assert [(r.pattern, r.slash_mode) for r in strict.routes] == [('/s/', S_STRICT)]


if __name__ == '__main__':
    fixed_cases()
    sinter_cases()
    total = sum(run_history(seed) for seed in range(12))
    assert total > 12
    print('PASS')
