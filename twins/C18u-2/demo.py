# -*- coding: utf-8 -*-
"""demo2: the meta pages answer 200 and redact secrets for hosts with all kinds of
endpoints.  Focus: the per-argument source listing of the routes section."""
import json
import os
import sys

from clastic import (Application, MetaApplication, Middleware, render_basic,
                     StaticFileRoute, StaticApplication, GET, POST)
from clastic.middleware.cookie import SignedCookieMiddleware
from clastic.meta import get_route_arg_info, get_route_infos

SECRET = 'S3CR3T-VALUE-0xDEADBEEF'
KEY = 'SIGNING-KEY-0xFEEDFACE'
HERE = os.path.dirname(os.path.abspath(__file__))


# ---- 1. get_route_arg_info on hand-made routes: every source and the precedence
class Recorder(object):
    "Middleware stand-in that records (and can forbid) looks at .provides"
    def __init__(self, provides, log, name, forbidden=False):
        self._provides, self._log, self._name = provides, log, name
        self._forbidden = forbidden

    @property
    def provides(self):
        self._log.append(self._name)
        if self._forbidden:
            raise AssertionError('%s.provides must not be consulted' % self._name)
        return self._provides


class FakeRoute(object):
    def __init__(self, endpoint, path_args=(), resources=None, middlewares=()):
        self.endpoint = endpoint
        self.path_args = path_args
        self.resources = resources if resources is not None else {}
        self._middlewares = middlewares
        self.mw_reads = 0

    @property
    def middlewares(self):
        self.mw_reads += 1
        return self._middlewares


def ep(request, _application, _route, _dispatch_state, context, next,
       url_arg, res_arg, mw1_arg, mw2_arg, dflt_arg=3, nowhere_arg=None, *a, **kw):
    pass


log = []
mws = [Recorder(('mw1_arg', 'both'), log, 'A'), Recorder(['mw2_arg'], log, 'B'),
       Recorder((), log, 'C')]
route = FakeRoute(ep, path_args=['url_arg'], resources={'res_arg': 0}, middlewares=mws)
infos = get_route_arg_info(route)
assert infos == [
    {'name': 'request', 'source': 'builtin'},
    {'name': '_application', 'source': 'builtin'},
    {'name': '_route', 'source': 'builtin'},
    {'name': '_dispatch_state', 'source': 'builtin'},
    {'name': 'context', 'source': 'builtin'},
    {'name': 'next', 'source': 'builtin'},
    {'name': 'url_arg', 'source': 'url'},
    {'name': 'res_arg', 'source': 'resources'},
    {'name': 'mw1_arg', 'source': 'middleware'},
    {'name': 'mw2_arg', 'source': 'middleware'},
    {'name': 'dflt_arg', 'source': 'default'},
    {'name': 'nowhere_arg', 'source': 'default'},
], infos
for info in infos:
    assert list(info) == ['name', 'source']       # key order (visible in JSON)
# middlewares are only looked at for args not found earlier, in order, stopping at a hit:
# mw1_arg -> A ; mw2_arg -> A, B ; dflt_arg and nowhere_arg -> A, B, C
assert log == ['A', 'A', 'B', 'A', 'B', 'C', 'A', 'B', 'C'], log
assert route.mw_reads == 4, route.mw_reads


def ep2(a, b, c, d=None, e=0):
    pass


# precedence: builtin > url > resources > middleware > default ; unaccounted -> None
log = []
route = FakeRoute(ep2, path_args=('a',), resources={'a': 1, 'b': 2, 'd': 4},
                  middlewares=[Recorder(('a', 'b', 'e'), log, 'A')])
assert get_route_arg_info(route) == [
    {'name': 'a', 'source': 'url'},
    {'name': 'b', 'source': 'resources'},
    {'name': 'c', 'source': None},
    {'name': 'd', 'source': 'resources'},
    {'name': 'e', 'source': 'middleware'},
]
assert log == ['A', 'A']     # for c and e only


def ep3(request, x=''):
    pass


# nothing but builtins/defaults and no middlewares at all
route = FakeRoute(ep3, middlewares=[])
assert get_route_arg_info(route) == [{'name': 'request', 'source': 'builtin'},
                                     {'name': 'x', 'source': 'default'}]
assert route.mw_reads == 1
# an argument found before the middleware step never touches the middlewares
route = FakeRoute(ep3, resources={'x': 1},
                  middlewares=[Recorder((), [], 'Z', forbidden=True)])
assert get_route_arg_info(route) == [{'name': 'request', 'source': 'builtin'},
                                     {'name': 'x', 'source': 'resources'}]
assert route.mw_reads == 0
# a middleware after the first hit is not consulted
log = []
route = FakeRoute(ep3, middlewares=[Recorder(('x',), log, 'A'),
                                    Recorder((), log, 'Z', forbidden=True)])
assert get_route_arg_info(route)[1] == {'name': 'x', 'source': 'middleware'}
assert log == ['A']
# a broken middleware (provides=None) surfaces as the same TypeError
route = FakeRoute(ep3, middlewares=[Recorder(None, [], 'N')])
try:
    get_route_arg_info(route)
except TypeError:
    pass
else:
    raise AssertionError('expected TypeError')
# endpoint without arguments
assert get_route_arg_info(FakeRoute(lambda: None)) == []
# every call builds fresh dicts
r = FakeRoute(ep3)
one, two = get_route_arg_info(r), get_route_arg_info(r)
assert one == two and one is not two and one[0] is not two[0]


# ---- 2. a host application with every endpoint kind
class ProvidesName(Middleware):
    provides = ('name', 'other')

    def request(self, next):
        return next(name='mw-name', other=1)


def func_ep(request, name, visible, page=1):
    return 'x'


def url_ep(item_id, cookie, missing=None):
    return 'x'


def sub_ep(request, zero, page=1):
    return 'x'


class CallableObj(object):
    def __call__(self, request):
        return 'x'

    def method_ep(self, _route, name='dflt'):
        return 'x'


class WeirdRepr(object):
    def __repr__(self):
        return '<Weird %s>' % SECRET


obj = CallableObj()
resources = {'my_secret_token': SECRET, 'secret': WeirdRepr(), 'visible': 'plain-visible-value',
             'zero': 0, 'nested_secret_x': {'deep': [SECRET]}}


def build(prefix, depth):
    inner = Application([(prefix, MetaApplication())])
    for _ in range(depth):
        inner = Application([('/sub', inner)])
    sub = Application([('/subfunc', sub_ep, render_basic)], resources={'zero': 0})
    routes = [('/func', func_ep, render_basic),
              ('/item/<item_id>', url_ep, render_basic),
              GET('/method', obj.method_ep, render_basic),
              POST('/callable', obj, render_basic),
              ('/lambda', lambda request: 'x', render_basic),
              ('/builtin', sum, render_basic),
              StaticFileRoute('/file', os.path.join(HERE, 'demo2.py')),
              ('/static/', StaticApplication(HERE)),
              ('/embedded', sub),
              ('/', inner)]
    return Application(routes,
                       resources=dict(resources, iterable=[1], start=0),
                       middlewares=[SignedCookieMiddleware(secret_key=KEY), ProvidesName()])


for prefix, depth in [('/meta', 0), ('/x/y', 0), ('/meta', 2)]:
    app = build(prefix, depth)
    cl = app.get_local_client()
    base = '/sub' * depth + prefix
    for path in (base + '/', base + '/json/'):
        resp = cl.get(path)
        assert resp.status_code == 200, (path, resp.status_code)
        body = resp.get_data(as_text=True)
        assert SECRET not in body and KEY not in body, path
        assert '[REDACTED]' in body and 'plain-visible-value' in body, path
        for word in ('func_ep', 'url_ep', 'method_ep', 'CallableObj', 'item_id',
                     'SignedCookieMiddleware', 'ProvidesName'):
            assert word in body, (path, word)
    data = json.loads(cl.get(base + '/json/').get_data(as_text=True))
    for group, info in data.items():
        if isinstance(info, dict):
            assert 'exc_content' not in info, (group, info.get('exc_content'))
    routes = data['app']['routes']
    by_pattern = {}
    for r in routes:
        by_pattern.setdefault(r['url_pattern'], r)

    def src(pattern):
        return [(a['name'], a['source']) for a in by_pattern[pattern]['args']]

    assert src('/func') == [('request', 'builtin'), ('name', 'middleware'),
                            ('visible', 'resources'), ('page', 'default')]
    assert src('/item/<item_id>') == [('item_id', 'url'), ('cookie', 'middleware'),
                                      ('missing', 'default')]
    assert src('/method') == [('_route', 'builtin'), ('name', 'middleware')]
    assert src('/callable') == [('request', 'builtin')]
    assert src('/lambda') == [('request', 'builtin')]
    assert src('/embedded/subfunc') == [('request', 'builtin'), ('zero', 'resources'),
                                        ('page', 'default')]
    assert src('/builtin') == [('iterable', 'resources'), ('start', 'resources')]
    # the JSON equals what the functions compute directly on the bound routes
    direct = json.loads(json.dumps(get_route_infos(app)))
    assert [r['args'] for r in direct] == [r['args'] for r in routes]
    assert [r['url_pattern'] for r in direct] == [r['url_pattern'] for r in routes]
    for r in routes:
        for a in r['args']:
            assert set(a) == {'name', 'source'}
            assert a['source'] in ('builtin', 'url', 'resources', 'middleware', 'default', None)
    res = dict((r['key'], r['value']) for r in data['app']['resources'])
    for key, value in res.items():
        assert (value == '[REDACTED]') == ('secret' in key), (key, value)

print('PASS')
sys.exit(0)
