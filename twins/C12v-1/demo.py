# -*- coding: utf-8 -*-
"""demo1: C12 (concurrent requests on one Application do not interfere),
with emphasis on sinter.get_fb -- the signature lookup used by inject()
for every request and by the chain builder for every kind of callable
(function, bound method, callable object, decorated function carrying a
preset ``_sinter_fb``).

Prints PASS and exits 0 on success.
"""
import os
import sys
import threading

sys.path.insert(0, os.path.dirname(os.path.abspath(__file__)))

import clastic
assert os.path.dirname(os.path.abspath(clastic.__file__)).startswith(
    os.path.dirname(os.path.abspath(__file__))), clastic.__file__

from functools import wraps

from boltons.funcutils import FunctionBuilder
from werkzeug.test import Client
from werkzeug.wrappers import Response

from clastic import Application, Middleware, Route, GET, POST
from clastic.decorators import clastic_decorator
from clastic.errors import NotFound
from clastic import sinter
from clastic.sinter import get_fb, get_arg_names, inject


# ---------------------------------------------------------------- part A
# get_fb on every kind of callable

def plain(a, b=2, *args, **kw):
    pass


class Obj(object):
    def meth(self, x, y=1):
        pass

    def __call__(self, p, q=None):
        return (p, q)


class PresetObj(object):
    "callable object that carries its own FunctionBuilder"
    def __init__(self, fb):
        self._sinter_fb = fb

    def __call__(self, *a, **kw):
        return (a, kw)


class BogusPresetObj(object):
    "a _sinter_fb of the wrong type must be ignored"
    _sinter_fb = 'not a function builder'

    def __call__(self, only):
        return only


def check_get_fb():
    fb = get_fb(plain)
    assert isinstance(fb, FunctionBuilder)
    assert fb.args == ['a', 'b'] and fb.varargs == 'args' and fb.varkw == 'kw'
    assert fb.get_defaults_dict() == {'b': 2}
    assert get_arg_names(plain) == ('a', 'b') or list(get_arg_names(plain)) == ['a', 'b']
    assert list(get_arg_names(plain, only_required=True)) == ['a']

    o = Obj()
    assert get_fb(o.meth).args == ['x', 'y']                 # self dropped
    assert get_fb(o.meth, drop_self=False).args == ['self', 'x', 'y']
    assert get_fb(Obj.meth).args == ['self', 'x', 'y']       # plain function
    assert get_fb(o).args == ['p', 'q']                      # via __call__
    assert get_fb(o, drop_self=False).args == ['self', 'p', 'q']
    assert get_fb(lambda: None).args == []

    # fresh builder each time when nothing is preset
    assert get_fb(plain) is not get_fb(plain)

    # preset on a callable object: returned as is (identity), any drop_self
    preset = get_fb(plain)
    po = PresetObj(preset)
    assert get_fb(po) is preset
    assert get_fb(po, drop_self=False) is preset

    # preset on a plain function
    def wrapped(*a, **kw):
        pass
    wrapped._sinter_fb = preset
    assert get_fb(wrapped) is preset

    # preset on the __call__ of a callable object (second lookup)
    class CallPreset(object):
        def __call__(self, *a, **kw):
            pass
    CallPreset.__call__._sinter_fb = preset
    assert get_fb(CallPreset()) is preset

    # preset of the wrong type is ignored, on objects and on functions
    assert get_fb(BogusPresetObj()).args == ['only']

    def bogus(z):
        pass
    bogus._sinter_fb = None
    assert get_fb(bogus).args == ['z']
    bogus._sinter_fb = 42
    assert get_fb(bogus).args == ['z']

    # clastic_decorator propagates the signature through *args/**kwargs
    @clastic_decorator
    def deco(f):
        @wraps(f)
        def inner(*a, **kw):
            return f(*a, **kw)
        return inner

    @deco
    def decorated(request, token):
        return token
    assert get_fb(decorated).args == ['request', 'token']
    assert inject(decorated, {'request': 1, 'token': 't', 'junk': 3}) == 't'

    # things that are not callable at all / builtins: same exception types
    for bad in (3, None, 'abc'):
        try:
            get_fb(bad)
        except TypeError:
            pass
        else:
            raise AssertionError('expected TypeError for %r' % (bad,))
    outcomes = []
    for builtin in (len, dict.get, [].append):
        try:
            outcomes.append(list(get_fb(builtin).args))
        except Exception as e:
            outcomes.append(type(e).__name__)
    return outcomes


# ---------------------------------------------------------------- part B
# concurrent requests on one application

class TokenMW(Middleware):
    provides = ('token',)

    def request(self, next, request):
        return next(token='tok-' + request.args.get('t', 'none'))


class StampMW(Middleware):
    endpoint_provides = ('stamp',)
    render_provides = ('suffix',)

    def endpoint(self, next, request):
        return next(stamp=request.path.upper())

    def render(self, next, context, request):
        return next(suffix='/' + request.method.lower())


class CallableEndpoint(object):
    def __call__(self, request, name, token, greeting):
        return {'kind': 'callable', 'name': name, 'token': token,
                'greeting': greeting}


class Endpoints(object):
    def echo(self, request, name, num, token, stamp, _route, _dispatch_state):
        assert request.path_params == {'name': name, 'num': num}
        assert not _dispatch_state.exceptions
        return {'kind': 'echo', 'name': name, 'num': num, 'token': token,
                'stamp': stamp, 'pattern': _route.pattern}


def post_ep(request, token):
    return {'kind': 'post', 'body': request.get_data(as_text=True),
            'token': token}


def fall_first(x):
    raise NotFound(is_breaking=False, detail='first:' + x)


def fall_second(x, _dispatch_state, token):
    excs = _dispatch_state.exceptions
    assert len(excs) == 1 and excs[0].detail == 'first:' + x, excs
    return {'kind': 'fall', 'x': x, 'token': token}


def boom(x):
    raise ValueError('boom-' + x)


def direct(x, stamp):
    return Response('direct:%s:%s' % (x, stamp), status=202,
                    mimetype='text/plain')


def branch(token):
    return {'kind': 'branch', 'token': token}


def render_ctx(context, suffix, request):
    body = ';'.join('%s=%s' % kv for kv in sorted(context.items()))
    resp = Response(body + suffix, mimetype='text/plain')
    resp.headers['X-Req-Id'] = str(request.request_id)
    resp.headers['X-Req-Guid'] = request.request_guid
    return resp


def make_app():
    eps = Endpoints()
    routes = [GET('/echo/<name>/<num:int>', eps.echo, render_ctx),
              POST('/post', post_ep, render_ctx),
              Route('/call/<name>', CallableEndpoint(), render_ctx),
              Route('/fall/<x>', fall_first, render_ctx),
              Route('/fall/<x>', fall_second, render_ctx),
              Route('/boom/<x>', boom, render_ctx),
              Route('/direct/<x>', direct, render_ctx),
              Route('/dir/', branch, render_ctx)]
    return Application(routes, resources={'greeting': 'hi'},
                       middlewares=[TokenMW(), StampMW()])


def fetch(client, spec):
    method, path, data = spec
    resp = client.open(path, method=method, data=data)
    headers = dict(resp.headers)
    req_id = headers.pop('X-Req-Id', None)
    guid = headers.pop('X-Req-Guid', None)
    headers.pop('Content-Length', None)
    return (resp.status_code, sorted(headers.items()),
            resp.get_data(as_text=True)), req_id, guid


def specs_for(i):
    n = 'n%d' % i
    return [('GET', '/echo/%s/%d?t=%s' % (n, i, n), None),
            ('POST', '/post?t=p%d' % i, 'payload-%d' % i),
            ('POST', '/echo/%s/%d' % (n, i), None),          # 405
            ('GET', '/call/%s?t=c%d' % (n, i), None),
            ('GET', '/fall/f%d?t=%s' % (i, n), None),        # fallthrough
            ('GET', '/boom/b%d' % i, None),                  # 500
            ('GET', '/direct/d%d' % i, None),
            ('GET', '/dir?t=%d&x=%s' % (i, n), None),        # redirect
            ('GET', '/dir/?t=%d' % i, None),
            ('GET', '/missing/%s' % n, None),                # 404
            ('GET', '/echo/%s/notanint' % n, None)]          # 404


def check_concurrent(n_threads=4, rounds=40):
    app = make_app()
    expected = {}
    seen_ids = []
    for i in range(n_threads):
        for spec in specs_for(i):
            first, rid, guid = fetch(Client(app, Response), spec)
            again, rid2, guid2 = fetch(Client(app, Response), spec)
            assert first == again, (spec, first, again)
            expected[spec] = first
            seen_ids.extend([x for x in (rid, rid2) if x is not None])
            assert (rid is None) == (guid is None)
            if rid is not None:
                assert guid != guid2 and len(guid) == 24

    statuses = sorted(set(v[0] for v in expected.values()))
    assert statuses == [200, 202, 302, 404, 405, 500] or \
        statuses == [200, 202, 301, 404, 405, 500], statuses
    sample = expected[('GET', '/echo/n1/1?t=n1', None)]
    assert sample[2] == ('kind=echo;name=n1;num=1;pattern=/echo/<name>/<num:int>;'
                         'stamp=/ECHO/N1/1;token=tok-n1/get'), sample
    assert expected[('GET', '/call/n2?t=c2', None)][2] == \
        'greeting=hi;kind=callable;name=n2;token=tok-c2/get'
    assert expected[('GET', '/fall/f3?t=n3', None)][2] == \
        'kind=fall;token=tok-n3;x=f3/get'
    assert expected[('POST', '/post?t=p0', 'payload-0')][2] == \
        'body=payload-0;kind=post;token=tok-p0/post'
    assert expected[('GET', '/direct/d0', None)][2] == 'direct:d0:/DIRECT/D0'
    loc = dict(expected[('GET', '/dir?t=1&x=n1', None)][1])['Location']
    assert loc.endswith('/dir/?t=1&x=n1'), loc

    errors = []
    ids = [[] for _ in range(n_threads)]
    barrier = threading.Barrier(n_threads)

    def worker(i):
        try:
            client = Client(app, Response)
            specs = specs_for(i)
            barrier.wait()
            for r in range(rounds):
                for spec in (specs if r % 2 == 0 else reversed(specs)):
                    got, rid, guid = fetch(client, spec)
                    if got != expected[spec]:
                        errors.append((spec, got, expected[spec]))
                    if rid is not None:
                        ids[i].append(rid)
        except Exception as e:  # pragma: no cover
            errors.append(('exception', i, repr(e)))

    old = sys.getswitchinterval()
    sys.setswitchinterval(1e-6)
    try:
        threads = [threading.Thread(target=worker, args=(i,))
                   for i in range(n_threads)]
        for t in threads:
            t.start()
        for t in threads:
            t.join()
    finally:
        sys.setswitchinterval(old)

    assert not errors, errors[:3]
    all_ids = seen_ids + [x for per in ids for x in per]
    assert len(all_ids) == len(set(all_ids)), 'duplicate request ids'
    # five of the eleven specs reach render_ctx and report their id
    assert all(len(per) == rounds * 5 for per in ids), [len(p) for p in ids]
    return len(all_ids)


if __name__ == '__main__':
    outcomes = check_get_fb()
    assert outcomes == [['obj'], ['self'], ['self', 'object']], outcomes
    n = check_concurrent()
    assert n > 0
    print('PASS')
