# -*- coding: utf-8 -*-
"""demo3: check_middlewares -- every pair of sources that can offer the same
name is a NameError at construction; what exactly is reported; hook
signature checks; and conflict-free stacks still work."""
import os
import sys
import itertools

sys.path.insert(0, os.path.dirname(os.path.abspath(__file__)))

from werkzeug.wrappers import Response

from clastic import Application, Route, SubApplication, Middleware
from clastic.middleware.core import check_middlewares, check_middleware
from clastic.route import RESERVED_ARGS

CHECKS = [0]


def expect(exc_type, func, *fragments):
    CHECKS[0] += 1
    try:
        func()
    except Exception as e:
        assert type(e) is exc_type, 'expected %s, got %r' % (exc_type.__name__, e)
        for frag in fragments:
            assert frag in str(e), (frag, str(e))
        return e
    raise AssertionError('expected %s, nothing raised' % exc_type.__name__)


def ok(cond, msg=''):
    CHECKS[0] += 1
    assert cond, msg


_counter = itertools.count()


def provider(provides=(), endpoint_provides=(), render_provides=(), hooks=True):
    """A fresh Middleware subclass (so nothing is de-duplicated) offering
    the given names in the given phases."""
    ns = {'provides': provides, 'endpoint_provides': endpoint_provides,
          'render_provides': render_provides}
    if hooks:
        def request(self, next):
            return next(**dict.fromkeys(provides, 'req'))

        def endpoint(self, next):
            return next(**dict.fromkeys(endpoint_provides, 'ep'))

        def render(self, next):
            return next(**dict.fromkeys(render_provides, 'rn'))
        ns.update(request=request, endpoint=endpoint, render=render)
    return type('Provider%d' % next(_counter), (Middleware,), ns)()


def ep(request):
    return {}


def render(context):
    return Response(repr(sorted(context.items())))


CONFLICT = 'found conflicting provides: %r'

# ------------------------------------------------ check_middlewares directly
ok(check_middlewares([]) is True)
ok(check_middlewares([], None) is True)
ok(check_middlewares([], {}) is True)
ok(check_middlewares((), {'url': set(), 'builtins': (), 'resources': []}) is True)
ok(check_middlewares([provider(('a',), ('b',), ('c',))], {'url': ['d'], 'resources': iter(['e'])}) is True)

phases = ('provides', 'endpoint_provides', 'render_provides')
# middleware vs middleware, across and within phases (9 ordered pairs)
for ph1, ph2 in itertools.product(phases, repeat=2):
    m1, m2 = provider(**{ph1: ('x', 'only1')}), provider(**{ph2: ('only2', 'x')})
    e = expect(NameError, lambda: check_middlewares([m1, m2]))
    ok(str(e) == CONFLICT % [('x', (m1, m2))], str(e))
    e = expect(NameError, lambda: check_middlewares((m2, m1), {'url': ['u']}))
    ok(str(e) == CONFLICT % [('x', (m2, m1))], str(e))

# one middleware against itself: in two phases, or twice in one tuple
for ph1, ph2 in itertools.combinations(phases, 2):
    m = provider(**{ph1: ('x',), ph2: ('x',)})
    e = expect(NameError, lambda: check_middlewares([m]))
    ok(str(e) == CONFLICT % [('x', (m, m))], str(e))
for ph in phases:
    m = provider(**{ph: ['x', 'y', 'x']})
    e = expect(NameError, lambda: check_middlewares([m]))
    ok(str(e) == CONFLICT % [('x', (m, m))], str(e))

# middleware vs url / builtins / resources, in every phase
for ph, src in itertools.product(phases, ('url', 'builtins', 'resources')):
    m = provider(**{ph: ('x',)})
    src_map = {'url': set(['u']), 'builtins': set(['b']), 'resources': set(['r'])}
    src_map[src].add('x')
    e = expect(NameError, lambda: check_middlewares([m], src_map))
    ok(str(e) == CONFLICT % [('x', (src, m))], str(e))

# source vs source
for s1, s2 in itertools.combinations(('url', 'builtins', 'resources'), 2):
    src_map = {'url': ['u'], 'builtins': ['b'], 'resources': ['r']}
    src_map[s1] = src_map[s1] + ['x']
    src_map[s2] = ['x'] + src_map[s2]
    e = expect(NameError, lambda: check_middlewares([], src_map))
    ok(str(e) == CONFLICT % [('x', (s1, s2))], str(e))

# several conflicts: all reported, in order of first appearance; three-way
m1, m2, m3 = provider(('p', 'q')), provider((), ('q',)), provider((), (), ('u', 'p', 'q'))
e = expect(NameError, lambda: check_middlewares([m1, m2, m3], {'url': ['u'], 'resources': ['r']}))
ok(str(e) == CONFLICT % [('u', ('url', m3)), ('p', (m1, m3)), ('q', (m1, m2, m3))], str(e))

# the names of a provides are whatever iterating it yields
m = provider('ab')
e = expect(NameError, lambda: check_middlewares([m], {'url': ['b']}))
ok(str(e) == CONFLICT % [('b', ('url', m))], str(e))
expect(TypeError, lambda: check_middlewares([provider((['unhashable'],))]))

# hook signatures are checked middleware by middleware, before the conflict
# verdict; provides of hook-less middlewares still count
class NoNext(Middleware):
    provides = ('x',)

    def request(self, request, next):
        return next(x=1)


class NoArgs(Middleware):
    def endpoint():
        pass
    endpoint = staticmethod(endpoint)


class NotCallable(Middleware):
    render = 'nope'


class Falsy(Middleware):
    request = 0
    endpoint = ''
    render = None
    provides = ('x',)


expect(TypeError, lambda: check_middlewares([provider(('x',)), provider(('x',)), NoNext()]),
       "must take argument 'next' as the first parameter (NoNext.request)")
expect(TypeError, lambda: check_middlewares([NotCallable()]), 'expected NotCallable.render to be a function')
expect(IndexError, lambda: check_middlewares([NoArgs()]))
expect(TypeError, lambda: check_middleware(NoNext()), 'NoNext.request')
ok(check_middleware(Falsy()) is None)
ok(check_middlewares([Falsy()]) is True)
lazy = provider(('x',), hooks=False)
falsy = Falsy()
e = expect(NameError, lambda: check_middlewares([lazy, falsy]))
ok(str(e) == CONFLICT % [('x', (lazy, falsy))], str(e))


class Duck(object):  # not a Middleware: the attributes must be there
    name = 'Duck'
    provides = ('x',)


expect(AttributeError, lambda: check_middlewares([Duck()]))
# the argument is not modified
src_map = {'url': ['a'], 'builtins': ('b',), 'resources': set(['c'])}
check_middlewares([provider(('x',))], src_map)
ok(src_map == {'url': ['a'], 'builtins': ('b',), 'resources': set(['c'])})

# ------------------------------------------------------- through Application
for ph in phases:
    # application-level middlewares among themselves, even without routes
    expect(NameError, lambda: Application([], middlewares=[provider(('x',)), provider(**{ph: ('x',)})]),
           'found conflicting provides')
    # vs url binding
    expect(NameError, lambda: Application([('/<x>', ep, render)], middlewares=[provider(**{ph: ('x',)})]),
           'found conflicting provides')
    expect(NameError, lambda: Application([Route('/<x>', ep, render, middlewares=[provider(**{ph: ('x',)})])]),
           'found conflicting provides')
    # vs application resource, route resource
    expect(NameError, lambda: Application([('/', ep, render)], resources={'x': 1},
                                          middlewares=[provider(**{ph: ('x',)})]),
           'found conflicting provides')
    expect(NameError, lambda: Application([Route('/', ep, render, resources={'x': 1})],
                                          middlewares=[provider(**{ph: ('x',)})]),
           'found conflicting provides')
    # vs every builtin (also without any route: the null route is bound too)
    for name in RESERVED_ARGS:
        expect(NameError, lambda: Application([], middlewares=[provider(**{ph: (name,)})]),
               'found conflicting provides', repr(name))
        expect(NameError, lambda: Application([Route('/', ep, render, middlewares=[provider(**{ph: (name,)})])]),
               'found conflicting provides')
    # application-level vs route-level vs embedded
    expect(NameError, lambda: Application([Route('/', ep, render, middlewares=[provider(('x',))])],
                                          middlewares=[provider(**{ph: ('x',)})]),
           'found conflicting provides')
    inner = Application([('/', ep, render)], middlewares=[provider(**{ph: ('x',)})])
    expect(NameError, lambda: Application([('/in', inner)], middlewares=[provider((), ('x',))]),
           'found conflicting provides')
    expect(NameError, lambda: Application([SubApplication('/in', inner)], resources={'x': 1}),
           'found conflicting provides')
    inner_url = Application([('/<x>', ep, render)])
    expect(NameError, lambda: Application([('/in', inner_url)], middlewares=[provider(**{ph: ('x',)})]),
           'found conflicting provides')

for name in RESERVED_ARGS:
    expect(NameError, lambda: Application([], resources={name: 1}), 'resource names conflict with builtins')
    expect(NameError, lambda: Application([Route('/', ep, render, resources={name: 1})]),
           'found conflicting provides')
    expect(NameError, lambda: Application([('/<%s>' % name, ep, render)]), 'found conflicting provides')
expect(NameError, lambda: Application([('/<x>', ep, render)], resources={'x': 1}), 'found conflicting provides')
expect(NameError, lambda: Application([Route('/<x>', ep, render, resources={'x': 1})]),
       'found conflicting provides')
# a route resource overriding an application resource is not a conflict
Application([Route('/', lambda x: {'x': x}, render, resources={'x': 2})], resources={'x': 1})

expect(TypeError, lambda: Application([], middlewares=[NoNext()]), "'next' as the first parameter")
expect(TypeError, lambda: Application([Route('/', ep, render, middlewares=[NoNext()])]),
       "'next' as the first parameter")

# the same unique middleware type at both levels is merged, not a conflict
class Once(Middleware):
    provides = ('once',)

    def request(self, next):
        return next(once=1)


Application([Route('/', ep, render, middlewares=[Once()])], middlewares=[Once()])
expect(NameError, lambda: Application([('/', ep, render)], middlewares=[Once(), Once()]),
       'found conflicting provides')

# ---------------------------------------------------------- valid stack runs
good = [provider(('a',)), provider((), ('b',)), provider((), (), ('c',)), provider(('d',), ('e',), ('f',))]
app = Application([('/<u>', lambda a, b, d, e, u, r: {'got': [a, b, d, e, u, r]},
                    lambda context, c, f: Response(repr((context, c, f))))],
                  resources={'r': 'res'}, middlewares=good)
resp = app.get_local_client().get('/you')
ok(resp.status_code == 200, resp.data)
ok(resp.data == repr(({'got': ['req', 'ep', 'req', 'ep', 'you', 'res']}, 'rn', 'rn')).encode('utf8'), resp.data)

print('PASS (%d checks)' % CHECKS[0])
