# -*- coding: utf-8 -*-
"""demo3: Application.dispatch -- branch check, Location assembly, strict
NotFound, rewrite -- over route kinds x slash modes x paths x queries x methods.
"""
from __future__ import print_function

import warnings
warnings.simplefilter('ignore')

from urllib.parse import urlsplit, unquote_to_bytes, quote

from werkzeug.test import EnvironBuilder
from werkzeug.wrappers import Response

from clastic import Application, Route, S_REDIRECT, S_REWRITE, S_STRICT
from clastic.errors import ErrorHandler, NotFound
from clastic.route import HTTP_METHODS, normalize_path

ALL_METHODS = sorted(HTTP_METHODS)


def ep_static(request):
    return Response(repr((request.path, request.query_string, None)))


def ep_single(request, name):
    return Response(repr((request.path, request.query_string, name)))


def ep_multi(request, parts):
    return Response(repr((request.path, request.query_string, parts)))


def call(app, path, query=b'', method='GET', host=None, script_name=''):
    env = EnvironBuilder(path='/', method=method).get_environ()
    env['PATH_INFO'] = path.encode('utf8').decode('latin1')
    env['QUERY_STRING'] = query.decode('latin1')
    env['SCRIPT_NAME'] = script_name
    if host:
        env['HTTP_HOST'] = host
    return app.get_local_client().open(env)


def split_location(location, netloc='localhost', script_name=''):
    parts = urlsplit(location)
    assert parts.scheme == 'http' and parts.netloc == netloc, location
    assert parts.fragment == '' and '#' not in location, location
    assert parts.path.startswith(script_name + '/')
    quoted_path = parts.path[len(script_name):]
    path = unquote_to_bytes(quoted_path).decode('utf8')
    return quoted_path, path, parts.query.encode('latin1')


SEGMENTS = ['a', 'a?b', 'a#b', '100%', '%41', 'a b', 'a;b&c=d', u'caf\xe9', u'€?#%',
            '+', "~._-:@!$'()*,", '%2F', '?', '#', '.', '..']
QUERIES = [b'', b'a=1&b=2', b'x=%3F%23%25&y=a+b', b'?&=;/:@', b'%', b'\xff\xfe=\x80',
           u'k=\xe9'.encode('utf8'), b'a=1&a=2&&']


def noncanonical_variants(segs):
    """decoded non-canonical request paths for a branch route on *segs*"""
    yield '/' + '/'.join(segs)                    # missing trailing slash
    yield '/' + '/'.join(segs) + '//'             # too many
    yield '/' + '//'.join(segs) + '/'             # doubled inside
    yield '///' + '///'.join(segs) + '////'       # everywhere


def make_app(mode, **kw):
    routes = [Route('/static/branch/', ep_static),
              Route('/static/leaf', ep_static),
              Route('/single/<name>/', ep_single),
              Route('/single/<name>/leaf', ep_single),
              Route('/multi/<parts+>/', ep_multi),
              Route('/opt/<parts*>/', ep_multi),
              Route('/post/<name>/', ep_single, methods=['POST']),
              Route('/', ep_static)]
    return Application(routes, slash_mode=mode, **kw)


def branch_cases():
    yield ['static', 'branch'], None
    for seg in SEGMENTS:
        yield ['single', seg], seg
        yield ['multi', seg], [seg]
        yield ['multi', 'x', seg, seg], ['x', seg, seg]
        yield ['opt', seg, 'y'], [seg, 'y']
    yield ['opt'], []


def check_redirect_mode():
    app = make_app(S_REDIRECT)
    count = 0
    for segs, bound in branch_cases():
        canon = '/' + '/'.join(segs) + '/'
        assert normalize_path(canon, True) == canon
        for qi, query in enumerate(QUERIES):
            for vi, raw in enumerate(noncanonical_variants(segs)):
                if (qi + vi) % 2 and bound is not None and len(segs) > 2:
                    continue  # thin out the largest cases
                if '/' + raw.lstrip('/') == canon:
                    continue  # werkzeug itself drops extra leading slashes
                for method in ('GET', 'HEAD', 'POST', 'DELETE', 'OPTIONS'):
                    resp = call(app, raw, query, method)
                    assert resp.status_code == 302, (raw, method, resp.status_code)
                    loc = resp.headers['Location']
                    quoted_path, path2, query2 = split_location(loc)
                    # exact Location: canonical path, quoted; query untouched
                    assert quoted_path == quote(canon, safe='/:'), (raw, loc)
                    assert path2 == canon
                    if query:
                        assert loc.index('?') == len('http://localhost' + quoted_path), (raw, loc)
                    else:
                        assert loc == 'http://localhost' + quoted_path, (raw, loc)
                    try:
                        text_query = query.decode('utf8')
                    except UnicodeDecodeError:
                        assert unquote_to_bytes(query2) == query and query2.isascii()
                    else:
                        if query.isascii():
                            assert query2 == query, (query, query2)
                        else:
                            assert unquote_to_bytes(query2) == query
                    # following the Location reaches the resource, in one hop
                    resp2 = call(app, path2, query2, method)
                    assert resp2.status_code == 200, (raw, loc, resp2.status_code)
                    assert 'Location' not in resp2.headers
                    if method != 'HEAD':
                        seen = eval(resp2.get_data(as_text=True))
                        assert seen == (canon, query2, bound), (seen, canon, query2, bound)
                    count += 1
    assert count > 1000, count

    # canonical paths, leaves and the root are never redirected
    for path, bound in (('/static/branch/', None), ('/single/a?b/', 'a?b'),
                        ('/multi/a/b/', ['a', 'b']), ('/opt/', []), ('/', None),
                        ('/static/leaf', None), ('/static/leaf//', None),
                        ('//static//leaf', None), ('/single/%41//leaf', '%41'), ('', None), ('//', None)):
        for method in ('GET', 'POST'):
            resp = call(app, path, b'q=%3F', method)
            assert resp.status_code == 200 and 'Location' not in resp.headers, (path, resp.status_code)
            seen = eval(resp.get_data(as_text=True))
            assert seen[1:] == (b'q=%3F', bound), seen

    # only for methods the route admits
    for method in ALL_METHODS:
        resp = call(app, '/post/a?b', b'q=1', method)
        if method == 'POST':
            assert resp.status_code == 302
            assert resp.headers['Location'] == 'http://localhost/post/a%3Fb/?q=1'
        else:
            assert resp.status_code == 405 and 'Location' not in resp.headers
            assert resp.headers['Allow'] == 'POST'

    # no route at all: plain 404
    resp = call(app, '/nowhere', b'q=1')
    assert resp.status_code == 404 and 'Location' not in resp.headers

    # host and mount point are kept
    resp = call(app, '/single/a#b', b'z', host='example.org:8080', script_name='/mnt')
    assert resp.headers['Location'] == 'http://example.org:8080/mnt/single/a%23b/?z', resp.headers['Location']
    # a few literal Locations
    for raw, query, expected in (
            ('/static/branch', b'', 'http://localhost/static/branch/'),
            ('//static///branch', b'a=1&b=2', 'http://localhost/static/branch/?a=1&b=2'),
            ('/single/100%', b'%', 'http://localhost/single/100%25/?%'),
            ('/single/%41', b'x=%41', 'http://localhost/single/%2541/?x=%41'),
            (u'/multi/caf\xe9/a b', u'k=\xe9'.encode('utf8'),
             'http://localhost/multi/caf%C3%A9/a%20b/?k=%C3%A9'),
            ('/opt/;/&/=', b'\xff', 'http://localhost/opt/%3B/%26/%3D/?%FF'),
            ('/single/x\n', b'', 'http://localhost/single/x%0A/')):
        resp = call(app, raw, query)
        assert resp.status_code == 302
        assert resp.headers['Location'] == expected, (raw, resp.headers['Location'])


def check_rewrite_mode():
    app = make_app(S_REWRITE)
    for segs, bound in branch_cases():
        for raw in noncanonical_variants(segs):
            for method in ('GET', 'POST'):
                resp = call(app, raw, b'a=%3F&b', method)
                assert resp.status_code == 200 and 'Location' not in resp.headers, (raw, resp.status_code)
                seen = eval(resp.get_data(as_text=True))
                assert seen[:2] == ('/' + raw.lstrip('/'), b'a=%3F&b'), (raw, seen)
                got = seen[2]
                if isinstance(got, list):
                    got = [p for p in got if p]  # doubled slashes leave '' parts
                assert got == bound, (raw, seen)
    resp = call(app, '/post/a', b'', 'GET')
    assert resp.status_code == 405 and 'Location' not in resp.headers


class RecordingNotFound(NotFound):
    seen = []

    def __init__(self, *a, **kw):
        RecordingNotFound.seen.append(dict(kw))
        kw.pop('source_route', None)
        super(RecordingNotFound, self).__init__(*a, **kw)


class RecordingErrorHandler(ErrorHandler):
    not_found_type = RecordingNotFound


def check_strict_mode():
    app = make_app(S_STRICT, error_handler=RecordingErrorHandler())
    for segs, bound in branch_cases():
        canon = '/' + '/'.join(segs) + '/'
        for raw in noncanonical_variants(segs):
            for method in ('GET', 'POST'):
                resp = call(app, raw, b'a=1', method)
                if '/' + raw.lstrip('/') == canon:
                    continue  # werkzeug itself drops extra leading slashes
                assert resp.status_code == 404, (raw, resp.status_code)
                assert 'Location' not in resp.headers
        if segs != ['opt']:
            resp = call(app, canon, b'a=1')
            assert resp.status_code == 200, (canon, resp.status_code)
            assert eval(resp.get_data(as_text=True)) == (canon, b'a=1', bound)

    # the strict NotFound raised by dispatch itself (a route whose strict
    # regex matches a path that is not canonical: trailing newline)
    del RecordingNotFound.seen[:]
    resp = call(app, '/static/branch/\n', b'a=1')
    assert resp.status_code == 404 and 'Location' not in resp.headers
    by_route = [kw for kw in RecordingNotFound.seen if 'source_route' in kw]
    assert len(by_route) == 1, RecordingNotFound.seen
    assert by_route[0]['source_route'].pattern == '/static/branch/'
    assert by_route[0]['application'] is app
    assert by_route[0]['request'].path == '/static/branch/\n'
    assert sorted(by_route[0]) == ['application', 'request', 'source_route']
    # the same request in the two other modes
    resp = call(make_app(S_REDIRECT), '/static/branch/\n', b'a=1')
    assert resp.status_code == 302
    assert resp.headers['Location'] == 'http://localhost/static/branch/%0A/?a=1'
    resp = call(make_app(S_REWRITE), '/static/branch/\n', b'a=1')
    assert resp.status_code == 200


def check_mixed_modes():
    # per-route modes (inherit_slashes=False) on one application; a later
    # route answers after an earlier one declined
    app = Application(slash_mode=S_STRICT)
    app.add(Route('/r/<name>/', ep_single, slash_mode=S_REDIRECT), inherit_slashes=False)
    app.add(Route('/w/<name>/', ep_single, slash_mode=S_REWRITE), inherit_slashes=False)
    app.add(Route('/s/<name>/', ep_single, slash_mode=S_STRICT), inherit_slashes=False)
    app.add(Route('/s/<name>', ep_static, slash_mode=S_REDIRECT), inherit_slashes=False)
    assert call(app, '/r/a?', b'x').headers['Location'] == 'http://localhost/r/a%3F/?x'
    assert call(app, '/w/a?', b'x').status_code == 200
    resp = call(app, '/s/a', b'x')
    assert resp.status_code == 200 and eval(resp.get_data(as_text=True))[2] is None  # leaf route
    resp = call(app, '/s/a/', b'x')
    assert resp.status_code == 200 and eval(resp.get_data(as_text=True))[2] == 'a'   # branch route
    resp = call(app, '/s//a/', b'x')  # strict branch declines, the lenient leaf answers
    assert resp.status_code == 200 and eval(resp.get_data(as_text=True))[2] is None
    resp = call(app, '/s/a/\n', b'x')  # strict NotFound recorded, then the leaf answers
    assert resp.status_code == 200 and eval(resp.get_data(as_text=True))[2] is None
    # an unknown slash mode behaves like rewrite in dispatch
    app = Application(slash_mode=None)
    app.add(Route('/n/', ep_static))
    resp = call(app, '/n', b'x')
    assert resp.status_code == 200 and 'Location' not in resp.headers


if __name__ == '__main__':
    check_redirect_mode()
    check_rewrite_mode()
    check_strict_mode()
    check_mixed_modes()
    print('PASS')
