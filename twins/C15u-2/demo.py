# -*- coding: utf-8 -*-
"""demo2: the signed-cookie middleware never changes status or body of any
response kind, and the Set-Cookie header it emits is exactly the one an
independent oracle (built directly on JSONCookie) predicts, for every expiry
configuration and every way an endpoint can touch the cookie.

Run:  /venv/bin/python demo2.py   -> prints PASS, exit code 0
"""
import os
import re
import sys
import json
import random

sys.path.insert(0, os.path.dirname(os.path.abspath(__file__)))

from clastic import (Application, Response, GET, POST, redirect,
                     render_basic, BadRequest)
from clastic.errors import NotFound, Forbidden, ServiceUnavailable
from clastic.middleware import cookie as cookie_module
from clastic.middleware.cookie import (SignedCookieMiddleware, JSONCookie,
                                       NEVER, SESSION, NOW)

RNG = random.Random(1515)
RANDOM_BYTES = bytes(bytearray(RNG.randrange(256) for _ in range(3000)))
BIG_TEXT = 'lorem ipsum dolor sit amet ' * 2000


# --- scenario application: one route per response kind ----------------------

def ep_resp():
    return Response('plain body', mimetype='text/plain')


def ep_empty():
    return Response(b'')


def ep_big():
    return Response(BIG_TEXT, mimetype='text/html')


def ep_binary():
    return Response(RANDOM_BYTES, mimetype='application/octet-stream')


def ep_ctx():
    return {'greeting': 'hi', 'n': 3, 'zero': 0, 'empty': '', 'none': None}


def ep_redirect():
    return redirect('/resp')


def ep_raise404():
    raise NotFound('raised by the application')


def ep_return403():
    return Forbidden('returned by the application')


def ep_raise503():
    raise ServiceUnavailable(detail='down for a bit')


def ep_nonbreaking():
    raise BadRequest('not breaking', is_breaking=False)


def ep_boom():
    raise ValueError('uncaught')


def scenario_routes():
    return [('/resp', ep_resp),
            ('/empty', ep_empty),
            ('/big', ep_big),
            ('/binary', ep_binary),
            ('/ctx', ep_ctx, render_basic),
            ('/redirect', ep_redirect),
            ('/raise404', ep_raise404),
            ('/return403', ep_return403),
            ('/raise503', ep_raise503),
            ('/nonbreaking', ep_nonbreaking),
            ('/boom', ep_boom),
            GET('/getonly', ep_resp),
            POST('/postonly', ep_resp)]


REQUESTS = [('GET', '/resp'), ('HEAD', '/resp'), ('GET', '/empty'),
            ('GET', '/big'), ('GET', '/binary'), ('GET', '/ctx'),
            ('GET', '/ctx?format=json'), ('GET', '/redirect'),
            ('GET', '/raise404'), ('GET', '/return403'), ('GET', '/raise503'),
            ('GET', '/nonbreaking'), ('GET', '/boom'),
            ('GET', '/no/such/url'), ('POST', '/getonly'),
            ('GET', '/postonly'), ('PUT', '/getonly'), ('HEAD', '/getonly'),
            ('POST', '/postonly'), ('GET', '/resp?a=1&b=x&a=2&c='),
            ('POST', '/resp?a=zzz')]
ACCEPTS = [None, 'text/html', 'application/json', 'text/plain', '*/*']


def normalise(body):
    # the default 500 page shows the traceback (its depth in the text form,
    # every frame in the JSON form); a middleware's own frame is part of
    # it, so the traceback itself is outside the property
    if body.startswith(b'{') and b'"exc_info"' in body:
        parsed = json.loads(body.decode('utf8'))
        parsed.pop('exc_info')
        body = json.dumps(parsed, sort_keys=True).encode('utf8')
    return re.sub(br'\(\d+ frames,', b'(N frames,', body)


def snapshot(app, method, url, accept, cookie_header=None):
    headers = {}
    if accept is not None:
        headers['Accept'] = accept
    client = app.get_local_client()
    if cookie_header is not None:
        client.set_cookie('localhost', *cookie_header)
    resp = client.open(url, method=method, headers=headers)
    return (resp.status_code, normalise(resp.get_data()),
            resp.headers.get('Location'))


# --- Set-Cookie oracle ---------------------------------------------------------

FROZEN_NOW = 2000000000.25
KEY = b'demo2-secret'


class FrozenTime(object):
    """Stands in for the ``time`` module inside clastic.middleware.cookie."""
    calls = 0

    def time(self):
        FrozenTime.calls += 1
        return FROZEN_NOW


def apply_op(cookie, op):
    if op == 'set':
        cookie['name'] = u'caf\xe9'
    elif op == 'falsy':
        cookie['zero'] = 0
        cookie['empty'] = ''
        cookie['none'] = None
    elif op == 'expire_now':
        cookie['name'] = 'gone'
        cookie.set_expires()
    elif op == 'expire_custom':
        cookie['name'] = 'later'
        cookie.set_expires(FROZEN_NOW + 50)
    elif op == 'expire_zero':
        cookie.set_expires(0)
    elif op == 'pop':
        cookie.pop('name', None)
    elif op == 'read':
        cookie.get('name')
    else:
        assert op == 'none', op


OPS = ['none', 'read', 'set', 'falsy', 'expire_now', 'expire_custom',
       'expire_zero', 'pop']


def make_cookie_routes(arg_name):
    def _touch(cookie, request):
        apply_op(cookie, request.args.get('op', 'none'))
        return sorted(cookie.items(), key=repr)

    src = ('def ep_touch(%s, request):\n'
           '    return Response(repr(_touch(%s, request)))\n'
           'def ep_touch_ctx(%s, request):\n'
           '    return {"items": repr(_touch(%s, request))}\n'
           'def ep_touch_403(%s, request):\n'
           '    _touch(%s, request)\n'
           '    return Forbidden("returned after touching the cookie")\n'
           'def ep_touch_raise(%s, request):\n'
           '    _touch(%s, request)\n'
           '    raise NotFound("raised after touching the cookie")\n'
           % ((arg_name,) * 8))
    env = {'_touch': _touch, 'Response': Response, 'Forbidden': Forbidden,
           'NotFound': NotFound}
    exec(src, env)
    return [('/touch', env['ep_touch']),
            ('/touch_ctx', env['ep_touch_ctx'], render_basic),
            ('/touch_403', env['ep_touch_403']),
            ('/touch_raise', env['ep_touch_raise'])]


def oracle_set_cookie(cfg, op, incoming_items):
    """What Set-Cookie headers must a response carry?  Written against the
    documented behaviour, using JSONCookie only."""
    cookie = JSONCookie(incoming_items, KEY, False)
    apply_op(cookie, op)
    expiry = cfg.get('expiry', SESSION)
    if expiry not in (NEVER, SESSION) and '_expires' not in cookie:
        cookie['_expires'] = FROZEN_NOW + expiry
    resp = Response('')
    kwargs = dict(key=cfg.get('cookie_name')
                  or 'clastic_%s' % cfg.get('arg_name', 'cookie'),
                  domain=cfg.get('domain'), path=cfg.get('path', '/'),
                  secure=cfg.get('secure', False),
                  httponly=cfg.get('http_only', False))
    if '_expires' in cookie:
        kwargs['expires'] = cookie['_expires']
    cookie.save_cookie(resp, **kwargs)
    return resp.headers.getlist('Set-Cookie')


VALID_COOKIE = JSONCookie({'name': 'old', 'n': 1}, KEY).serialize().decode()

CONFIGS = [{},
           {'expiry': NEVER},
           {'expiry': SESSION},
           {'expiry': 0.0},          # == SESSION
           {'expiry': 3600},
           {'expiry': 0.5},
           {'expiry': -10},          # already expired, still a number
           {'expiry': 3600, 'domain': 'example.com', 'path': '/touch',
            'secure': True, 'http_only': True},
           {'arg_name': 'session', 'expiry': 60},
           {'arg_name': 'session', 'cookie_name': 'sid', 'path': None}]


def check_set_cookie():
    count = 0
    for cfg in CONFIGS:
        arg_name = cfg.get('arg_name', 'cookie')
        mw = SignedCookieMiddleware(secret_key=KEY, **cfg)
        app = Application(make_cookie_routes(arg_name), middlewares=[mw])
        cookie_name = mw.cookie_name
        # incoming cookie states: none, a valid one, garbage, bad signature
        valid = VALID_COOKIE
        incoming = [(None, {}),
                    (valid, {'name': 'old', 'n': 1}),
                    ('garbage', {}),
                    ('!!!notbase64!!!?name=x', {}),
                    ('A' + valid[1:], {}),
                    ('', {})]
        for raw, items in incoming:
            for op in OPS:
                for url in ('/touch', '/touch_ctx', '/touch_403'):
                    client = app.get_local_client()
                    if raw is not None:
                        # (a Cookie header would be dropped by the test
                        # client's cookie jar)
                        client.set_cookie('localhost', cookie_name, raw)
                    resp = client.get(url + '?op=' + op)
                    expected = oracle_set_cookie(cfg, op, items)
                    actual = resp.headers.getlist('Set-Cookie')
                    assert actual == expected, (cfg, raw, op, url,
                                                actual, expected)
                    assert resp.status_code == (403 if '403' in url else 200)
                    count += 1
                # an exception raised by the endpoint passes through
                # untouched and nothing is saved
                resp = app.get_local_client().get('/touch_raise?op=' + op)
                assert resp.status_code == 404
                assert resp.headers.getlist('Set-Cookie') == []
                assert b'raised after touching the cookie' in resp.get_data()
                count += 1
    # time.time() is consulted only for a relative expiry
    FrozenTime.calls = 0
    app = Application(make_cookie_routes('cookie'),
                      middlewares=[SignedCookieMiddleware(secret_key=KEY)])
    app.get_local_client().get('/touch?op=set')
    assert FrozenTime.calls == 0
    app = Application(make_cookie_routes('cookie'),
                      middlewares=[SignedCookieMiddleware(secret_key=KEY,
                                                          expiry=5)])
    app.get_local_client().get('/touch?op=set')
    assert FrozenTime.calls == 1
    app.get_local_client().get('/touch?op=expire_custom')
    assert FrozenTime.calls == 1   # the cookie's own value wins
    return count + 3


def check_round_trip():
    """The stored data come back on the next request (client cookie jar)."""
    for cfg in ({}, {'expiry': NEVER}, {'expiry': 3600}):
        mw = SignedCookieMiddleware(secret_key=KEY, **cfg)
        app = Application(make_cookie_routes('cookie'), middlewares=[mw])
        cl = app.get_local_client()
        assert cl.get('/touch').get_data(True) == '[]'
        first = cl.get('/touch?op=set').get_data(True)
        assert 'caf' in first
        again = cl.get('/touch?op=read').get_data(True)
        assert again == "[('name', 'caf\xe9')]", again
        assert cl.get('/touch?op=expire_now').status_code == 200
        assert cl.get('/touch?op=read').get_data(True) == '[]'
        other = app.get_local_client()
        assert other.get('/touch?op=read').get_data(True) == '[]'
    # a bad relative expiry is a server error, not a silent pass
    app = Application(make_cookie_routes('cookie'),
                      middlewares=[SignedCookieMiddleware(secret_key=KEY,
                                                          expiry='soon')])
    assert app.get_local_client().get('/touch').status_code == 500
    return 19


def main():
    cookie_module.time = FrozenTime()
    total = 0
    for cfg in CONFIGS:
        mw = SignedCookieMiddleware(secret_key=KEY, **cfg)
        # the scenario endpoints take no cookie argument: the middleware
        # must be invisible
        plain = Application(scenario_routes())
        wrapped = Application(scenario_routes(), middlewares=[mw])
        for method, url in REQUESTS:
            for accept in ACCEPTS:
                for jar in (None, (mw.cookie_name, 'garbage'),
                            (mw.cookie_name, 'zzz?a=b'),
                            (mw.cookie_name, VALID_COOKIE)):
                    expected = snapshot(plain, method, url, accept, jar)
                    actual = snapshot(wrapped, method, url, accept, jar)
                    assert expected == actual, (cfg, method, url, accept)
                    total += 1
    total += check_set_cookie()
    total += check_round_trip()
    assert SignedCookieMiddleware().secret_key != \
        SignedCookieMiddleware().secret_key
    assert len(SignedCookieMiddleware().secret_key) == 20
    print('checked %d request/response pairs' % total)
    print('PASS')


if __name__ == '__main__':
    main()
