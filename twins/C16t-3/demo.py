# -*- coding: utf-8 -*-
"""demo3: model-based check of the signed cookie property.

Several simulated browsers run seeded random sequences of
{set, delete, read, clear, clock advance, tamper} against applications using
SignedCookieMiddleware with session / never / numeric expiry.  A trivial model
(a dict per browser plus the time of its last stamp) predicts what the endpoint
must see.  Tampered cookies must always present as empty, with status 200.

Prints PASS and exits 0 when every assertion holds.
"""
import os
import sys
import json
import time
import base64
import random
import logging

sys.path.insert(0, os.path.dirname(os.path.abspath(__file__)))

from werkzeug.http import cookie_date as http_date
from werkzeug.test import Client
from werkzeug.wrappers import Response
import secure_cookie.cookie as sc_module

import clastic
from clastic import Application, render_basic
from clastic.middleware.cookie import JSONCookie, SignedCookieMiddleware, NEVER, SESSION

HERE = os.path.dirname(os.path.abspath(__file__))
assert os.path.abspath(clastic.__file__).startswith(HERE), clastic.__file__


class Clock(object):
    def __init__(self):
        self.t = float(int(time.time()))

    def __call__(self):
        return self.t


CLOCK = Clock()
time.time = CLOCK
sc_module.time = CLOCK

# the behaviour must not depend on whether anybody listens to debug logging
logging.basicConfig(stream=open(os.devnull, 'w'), level=logging.DEBUG)

VALUES = ['', 'v', 0, 7, -3, 2.5, True, False, None, [], {}, u'snow ☃ man', u'\U0001f600',
          [1, [2, [3, [None]]]], {'a': {'b': {'c': []}}, u'ü': [u'ñ', 1.25]}, 'q' * 300,
          '"', '\\', 'a?b=c&d', ';,= ']
KEYS = ['a', 'b', 'c', '', 'x=y', 'p&q', 'r?s', u'ключ', 'with space', '100%', '+', '"k"']


def endpoint(request, cookie):
    before = dict(cookie)
    op = request.args.get('op', 'read')
    if op == 'set':
        cookie[request.args['k']] = json.loads(request.args['v'])
    elif op == 'del':
        cookie.pop(request.args['k'], None)
    elif op == 'clear':
        cookie.clear()
    return json.dumps({'before': before, 'after': dict(cookie)})


class Browser(object):
    def __init__(self, app, expiry):
        self.client = Client(app, Response, use_cookies=False)
        self.expiry = expiry
        self.jar = None        # raw value as sent by the server
        self.model = {}        # what the application stored
        self.stamp = None      # expiry time signed into the jar's cookie, if any
        self.history = []      # previously issued cookies: (raw, model, stamp)

    @property
    def timed(self):
        return self.expiry != NEVER and self.expiry != SESSION

    def raw_call(self, cookie_value, **params):
        headers = []
        if cookie_value is not None:
            headers.append(('Cookie', 'clastic_cookie=' + cookie_value))
        resp = self.client.get('/', query_string=params, headers=headers)
        assert resp.status_code == 200, (resp.status_code, cookie_value, resp.data[:400])
        set_cookie = resp.headers.getlist('Set-Cookie')
        assert len(set_cookie) <= 1
        new_value = expires = None
        if set_cookie:
            first, _, attrs = set_cookie[0].partition(';')
            name, _, new_value = first.partition('=')
            assert name == 'clastic_cookie'
            assert new_value.startswith('"') and new_value.endswith('"')
            for a in attrs.split(';'):
                k, _, v = a.strip().partition('=')
                if k.lower() == 'expires':
                    expires = v
        return json.loads(resp.data.decode('utf8')), new_value, expires

    def expected_before(self):
        if self.jar is None:
            return {}
        if self.stamp is not None and CLOCK.t > self.stamp:
            return {}
        return dict(self.model)

    def step(self, op, **params):
        "a well-behaved request using the jar"
        expect = self.expected_before()
        body, new_value, expires = self.raw_call(self.jar, op=op, **params)
        assert body['before'] == expect, (op, params, body, expect)
        after = dict(expect)
        modified = False
        if op == 'set':
            after[params['k']] = json.loads(params['v'])
            modified = True
        elif op == 'del':
            modified = params['k'] in after
            after.pop(params['k'], None)
        elif op == 'clear':
            modified = True
            after = {}
        assert body['after'] == after, (op, params, body, after)
        if self.timed:
            # always stamped, hence always saved
            assert new_value is not None
            assert expires == http_date(CLOCK.t + self.expiry), (expires, CLOCK.t)
            new_stamp = CLOCK.t + self.expiry
        else:
            assert (new_value is not None) == modified, (op, params, new_value)
            assert expires is None
            new_stamp = None
        if new_value is not None:
            if self.jar is not None:
                self.history.append((self.jar, self.model, self.stamp))
            self.jar, self.model, self.stamp = new_value, after, new_stamp
            # what was saved is exactly the data (plus the stamp), under our key
            inner = new_value.strip('"')
            sig, _, payload = inner.partition('?')
            items = dict(i.split('=', 1) for i in payload.split('&')) if payload else {}
            decoded = dict((k, json.loads(base64.b64decode(v).decode('utf8')))
                           for k, v in items.items())
            stamped = decoded.pop('_expires', None)
            assert stamped == new_stamp, (stamped, new_stamp)
            assert sorted(decoded.values(), key=repr) == sorted(after.values(), key=repr)
            assert len(decoded) == len(after)

    def replay(self, rng):
        "an old, genuinely server-issued cookie is still honoured until it expires"
        if not self.history:
            return
        raw, model, stamp = rng.choice(self.history)
        expect = model if (stamp is None or not CLOCK.t > stamp) else {}
        body, _, _ = self.raw_call(raw, op='read')
        assert body['before'] == expect, (body, expect)

    def tamper(self, rng, others):
        "never an error, never any content"
        if self.jar is None:
            base = 'AAAAAAAAAAAAAAAAAAAAAAAAAAA=?a=MQ=='
        else:
            base = self.jar.strip('"')
        sig, _, payload = base.partition('?')
        kind = rng.randrange(14)
        if kind == 0:
            i = rng.randrange(len(base))
            c = base[i]
            t = base[:i] + ('z' if c in 'ABCD' else 'A') + base[i + 1:]
        elif kind == 1:
            t = base[:rng.randrange(len(base))]
            if t == base or (self.jar is not None and not self.model and t == sig + '?'):
                t = base[:-2]
        elif kind == 2:
            t = base + rng.choice(['A', '=', '&', '&x=MQ==', '?', '&_expires=OTk5OTk5OTk5OTk='])
        elif kind == 3:
            other = rng.choice(others)
            if other.jar is None or other.jar == self.jar:
                t = 'x'
            else:
                osig, _, opayload = other.jar.strip('"').partition('?')
                t = rng.choice([sig + '?' + opayload, osig + '?' + payload])
                if t in (base, other.jar.strip('"')):
                    t = 'x'
        elif kind == 4:
            resigned = JSONCookie(dict(self.model, admin=True), b'not the key')
            t = resigned.serialize().decode('ascii')
        elif kind == 5:
            t = ''.join(chr(rng.randrange(33, 127)) for _ in range(rng.randrange(1, 80)))
            t = t.replace(';', '.').replace('"', '.').replace('\\', '.').replace(',', '.')
        elif kind == 6:
            t = ''.join(chr(rng.randrange(0xa1, 0x100)) for _ in range(rng.randrange(1, 40)))
            t = rng.choice([t, t + '?' + payload, sig + '?' + t + '=' + t, sig + '?' + t])
        elif kind == 7:
            t = rng.choice(['abc', 'a', 'ab=c', '*', '=a=a=']) + '?' + payload  # bad base64
        elif kind == 8:
            t = base.replace('?', rng.choice(['', '&', '=', '%3F']), 1)
        elif kind == 9:
            t = sig + '?' + payload.replace('=', rng.choice(['', '%3D', '&']), 1)
        elif kind == 10:
            t = rng.choice(['?', '??', '&', '=', '?=', '?&', '?=&=', sig, sig + '?', '?' + payload])
            if t == base:
                t = '?'
        elif kind == 11:
            parts = payload.split('&')
            if len(parts) < 2:
                t = sig + '?' + payload + '&' + payload
            else:
                t = sig + '?' + '&'.join(parts[1:] + parts[:1])
        elif kind == 12:
            # extend with a correctly *encoded* but unsigned value
            extra = 'admin=' + JSONCookie.quote(True).decode('ascii')
            t = sig + '?' + (payload + '&' + extra if payload else extra)
        else:
            t = base.lower() if base.lower() != base else base.upper()
        if t == base:
            t = base + 'A'
        for form in (t, '"%s"' % t):
            body, new_value, expires = self.raw_call(form, op='read')
            assert body == {'before': {}, 'after': {}}, (kind, form, body)
            if self.timed:
                assert new_value is not None and expires == http_date(CLOCK.t + self.expiry)
                assert new_value.strip('"').count('=') >= 2 and '&' not in new_value
            else:
                assert new_value is None


def run(seed, expiry):
    rng = random.Random(seed)
    mw = SignedCookieMiddleware(secret_key='key-%d' % seed, expiry=expiry)
    app = Application([('/', endpoint, render_basic)], middlewares=[mw])
    browsers = [Browser(app, expiry) for _ in range(3)]
    for _ in range(140):
        b = rng.choice(browsers)
        r = rng.random()
        if r < 0.30:
            b.step('set', k=rng.choice(KEYS), v=json.dumps(rng.choice(VALUES)))
        elif r < 0.40:
            b.step('del', k=rng.choice(KEYS))
        elif r < 0.55:
            b.step('read')
        elif r < 0.60:
            b.step('clear')
        elif r < 0.72:
            if isinstance(expiry, str) or not expiry:
                CLOCK.t += rng.choice([1, 60, 86400 * 400])
            else:
                CLOCK.t += rng.choice([0, 1, expiry // 2, expiry - 1, expiry, expiry + 1,
                                       3 * expiry])
        elif r < 0.80:
            b.replay(rng)
        else:
            b.tamper(rng, browsers)
    # everybody's view is still intact at the end
    for b in browsers:
        b.step('read')


if __name__ == '__main__':
    for seed in range(6):
        for expiry in (SESSION, NEVER, 30, 3600):
            run(seed * 10 + len(str(expiry)), expiry)
    print('PASS')
