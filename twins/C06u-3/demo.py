# -*- coding: utf-8 -*-
"""demo3: dispatch property C06 (first match in order, methods, 404/405,
non-breaking fallthrough) + checks of the parts of Application.dispatch that were moved into helper
methods: slash redirect, rendering of the final HTTP error, uncaught errors.

Prints PASS and exits 0 when every assertion holds.
"""
import itertools
import random
import sys
import warnings

warnings.simplefilter('ignore')

from clastic import Application, Route, Response
from clastic.errors import Forbidden, NotFound, BadRequest, InternalServerError
from clastic.route import normalize_path, S_REDIRECT, S_REWRITE, S_STRICT

PATTERNS = ['/a', '/a/<x>', '/<x>', '/a/b', '/b', '/<x>/<y>']
METHOD_SETS = [None, ['GET'], ['POST'], ['post', 'Put'], ['GET', 'DELETE'], ['HEAD']]
BEHAVIOURS = ['ok', 'raise403nb', 'ret404nb', 'raise400', 'ret500', 'boom']
PATHS = ['/a', '/a/b', '/b', '/c/d', '/', '/a/b/c']
METHODS = ['GET', 'HEAD', 'POST', 'get', 'post', 'PURGE', 'DELETE', 'PUT']


def make_endpoint(marker, behaviour):
    hdrs = {'X-Marker': marker}

    def endpoint():
        if behaviour == 'ok':
            return Response('ok ' + marker, headers=hdrs)
        if behaviour == 'raise403nb':
            raise Forbidden(detail=marker, is_breaking=False, headers=hdrs)
        if behaviour == 'ret404nb':
            return NotFound(detail=marker, is_breaking=False, headers=hdrs)
        if behaviour == 'raise400':
            raise BadRequest(detail=marker, headers=hdrs)
        if behaviour == 'ret500':
            return InternalServerError(detail=marker, headers=hdrs)
        raise ValueError('boom ' + marker)
    return endpoint


def path_matches(pattern, path):
    psegs = [s for s in pattern.split('/') if s]
    segs = [s for s in path.split('/') if s]
    if len(psegs) != len(segs):
        return False
    for p, s in zip(psegs, segs):
        if p.startswith('<'):
            continue
        if p != s:
            return False
    return True


def norm_methods(methods):
    if not methods:
        return None
    ret = set(m.upper() for m in methods)
    if 'GET' in ret:
        ret.add('HEAD')
    return ret


def oracle(table, path, method):
    """-> (status, marker or None, allow or None)"""
    exceptions = []
    allowed = set()
    for marker, (pattern, methods, behaviour) in table:
        if not path_matches(pattern, path):
            continue
        nm = norm_methods(methods)
        if nm and method.upper() not in nm:
            allowed |= nm
            continue
        if behaviour == 'ok':
            return 200, marker, None
        if behaviour == 'raise400':
            return 400, marker, None
        if behaviour == 'ret500':
            return 500, marker, None
        if behaviour == 'boom':
            return 500, None, None
        code = 403 if behaviour == 'raise403nb' else 404
        exceptions.append((code, marker))
    if exceptions:
        code, marker = exceptions[-1]
        return code, marker, None
    if allowed:
        return 405, None, ', '.join(sorted(allowed))
    return 404, None, None


def build_app(specs, rng):
    """Build by constructor list or by a random sequence of add(entry, index);
    returns (app, table) with table in effective route order."""
    entries = []
    for i, (pattern, methods, behaviour) in enumerate(specs):
        marker = 'R%d' % i
        kw = {}
        if methods is not None:
            kw['methods'] = methods
        route = Route(pattern, make_endpoint(marker, behaviour), **kw)
        entries.append((marker, (pattern, methods, behaviour), route))
    if rng.random() < 0.4:
        app = Application([e[2] for e in entries])
        table = [(e[0], e[1]) for e in entries]
    else:
        app = Application()
        table = []
        for marker, spec, route in entries:
            choice = rng.random()
            if choice < 0.4:
                app.add(route)
                table.append((marker, spec))
            else:
                idx = rng.randint(0, len(table))
                app.add(route, idx)
                table.insert(idx, (marker, spec))
    assert [r.pattern for r in app.routes] == [s[0] for _, s in table]
    return app, table


def check_table(specs, rng):
    app, table = build_app(specs, rng)
    client = app.get_local_client()
    n = 0
    for path in PATHS:
        for method in METHODS:
            resp = client.open(path=path, method=method)
            exp_status, exp_marker, exp_allow = oracle(table, path, method)
            ctx = (table, path, method, resp.status_code, dict(resp.headers))
            assert resp.status_code == exp_status, ctx
            assert resp.headers.get('X-Marker') == exp_marker, ctx
            assert resp.headers.get('Allow') == exp_allow, ctx
            if exp_marker and method.upper() != 'HEAD':
                assert exp_marker in resp.get_data(True), ctx
            if exp_status == 405 and method.upper() != 'HEAD':
                assert repr(sorted(exp_allow.split(', '))) in resp.get_data(True), ctx
            n += 1
    return n


def check_dispatch_property():
    rng = random.Random(60603)
    catalogue = list(itertools.product(PATTERNS, METHOD_SETS, BEHAVIOURS))
    total = 0
    # every single-route table
    for spec in catalogue:
        total += check_table([spec], rng)
    # random tables of 2..4 routes
    for _ in range(260):
        size = rng.randint(2, 4)
        total += check_table([rng.choice(catalogue) for _ in range(size)], rng)
    # the empty table
    total += check_table([], rng)
    return total


# -- specific to refactoring 3: the pieces of Application.dispatch -----------

import json
import re

from clastic.application import RerouteWSGI
from clastic.errors import ErrorHandler, MethodNotAllowed


def ok_ep(marker):
    return lambda: Response('ok ' + marker, headers={'X-Marker': marker})


def check_slash_redirect():
    def nb():
        raise Forbidden(detail='nb', is_breaking=False, headers={'X-Marker': 'NB'})

    app = Application([Route('/<x>', nb, methods=['GET']),
                       Route('/d/', ok_ep('D'), methods=['GET', 'POST']),
                       Route('/d/<x>/', ok_ep('DX')),
                       Route('/d', ok_ep('LEAF'))])
    cl = app.get_local_client()
    expected = [
        # a non-breaking error recorded earlier does not stop the redirect
        ('/d', 'http://localhost/d/'),
        ('//d//', 'http://localhost/d/'),
        ('/d?', 'http://localhost/d/'),
        ('/d?k=v&k=w', 'http://localhost/d/?k=v&k=w'),
        ('/d//q?k=v', 'http://localhost/d/q/?k=v'),
        ('/d/q?a=%ff', 'http://localhost/d/q/?a=%ff'),
        ('/d/q?a=%C3%A9', 'http://localhost/d/q/?a=%C3%A9'),
        ('/d/a%3Fb', 'http://localhost/d/a%3Fb/'),
        ('/d/a%23b?x=1', 'http://localhost/d/a%23b/?x=1'),
        ('/d/a%25b', 'http://localhost/d/a%25b/'),
        ('/d/a%20b', 'http://localhost/d/a%20b/'),
        ('/d/%C3%A9', 'http://localhost/d/%C3%A9/'),
    ]
    for path, location in expected:
        for method in ('GET', 'HEAD', 'POST'):
            if method == 'POST' and path.split('?')[0].strip('/') == 'd':
                continue  # see below
            r = cl.open(path, method=method)
            ctx = (path, method, r.status_code, r.headers.get('Location'))
            assert r.status_code == 302, ctx
            assert r.headers['Location'] == location, ctx
            assert r.headers.get('X-Marker') is None, ctx
    # POST /d: route 0 does not admit POST, route 1 does and redirects
    r = cl.post('/d')
    assert r.status_code == 302 and r.headers['Location'] == 'http://localhost/d/'
    # DELETE /d: route 1 does not admit DELETE -> no redirect, the leaf answers
    r = cl.delete('/d')
    assert (r.status_code, r.headers.get('X-Marker')) == (200, 'LEAF')
    # raw non-UTF-8 bytes in the query string survive, percent-encoded
    environ = EnvironBuilder(path='/d/q').get_environ()
    environ['QUERY_STRING'] = 'a=\xff&b=1'
    r = Response.from_app(app, environ)
    assert r.status_code == 302
    assert r.headers['Location'] == 'http://localhost/d/q/?a=%FF&b=1', r.headers['Location']
    # the url root (script name, host, scheme) is kept
    r = cl.get('/d/q?z=1', base_url='https://example.org:8443/mnt/')
    assert r.headers['Location'] == 'https://example.org:8443/mnt/d/q/?z=1', r.headers
    # already normal: answered
    r = cl.get('/d/q/')
    assert (r.status_code, r.headers.get('X-Marker')) == (200, 'DX')


def check_error_rendering():
    calls = []

    def render_error_ok(_error, request, _route):
        calls.append(('ok', _error.code, _route.pattern))
        return Response('custom %s' % _error.code, status=_error.code,
                        headers={'X-Rendered-By': _route.pattern})

    def render_error_bad(_error):
        calls.append(('bad', _error.code))
        raise RuntimeError('render_error is broken')

    def raise_nb():
        raise Forbidden(detail='nb1', is_breaking=False)

    def return_nb():
        return NotFound(detail='nb2', is_breaking=False)

    def raise_breaking():
        raise BadRequest(detail='brk')

    app = Application()
    app.routes.append(Route('/nb', raise_nb, render_error=render_error_ok)
                      .bind(app, rebind_render_error=False))
    app.routes.append(Route('/nb2', raise_nb, render_error=render_error_ok)
                      .bind(app, rebind_render_error=False))
    app.routes.append(Route('/nb2', return_nb, render_error=render_error_bad)
                      .bind(app, rebind_render_error=False))
    app.routes.append(Route('/brk', raise_breaking, render_error=render_error_bad)
                      .bind(app, rebind_render_error=False))
    app.routes.append(Route('/none', raise_breaking)
                      .bind(app, rebind_render_error=False))
    app.add(Route('/m', ok_ep('M'), methods=['PUT', 'get']))
    app.add(Route('/m', ok_ep('M2'), methods=['DELETE']))
    cl = app.get_local_client()

    # the surviving non-breaking error is rendered by the route it came from
    r = cl.get('/nb')
    assert (r.status_code, r.get_data(True)) == (403, 'custom 403')
    assert r.headers['X-Rendered-By'] == '/nb'
    assert calls == [('ok', 403, '/nb')], calls
    del calls[:]
    # the most recent one wins; its render_error raises -> default rendering
    r = cl.get('/nb2', headers={'Accept': 'application/json'})
    assert r.status_code == 404 and r.mimetype == 'application/json'
    assert json.loads(r.get_data(True))['detail'] == 'nb2'
    assert calls == [('bad', 404)], calls
    del calls[:]
    r = cl.get('/brk', headers={'Accept': 'text/html'})
    assert r.status_code == 400 and r.mimetype == 'text/html'
    assert '<p>brk</p>' in r.get_data(True)
    assert calls == [('bad', 400)]
    del calls[:]
    # render_error not set (None) -> default rendering as well
    for accept, mimetype in [('application/xml', 'application/xml'),
                             ('text/plain', 'text/plain'),
                             ('image/png', 'text/plain'),
                             (None, 'text/plain')]:
        headers = {'Accept': accept} if accept else {}
        r = cl.get('/none', headers=headers)
        assert r.status_code == 400 and r.mimetype == mimetype, (accept, r.mimetype)
        assert 'brk' in r.get_data(True)
    # 405 and 404 come from the null route, rendered by the app's handler
    r = cl.post('/m', headers={'Accept': 'application/json'})
    assert r.status_code == 405 and r.mimetype == 'application/json'
    assert r.headers['Allow'] == 'DELETE, GET, HEAD, PUT'
    assert "['DELETE', 'GET', 'HEAD', 'PUT']" in json.loads(r.get_data(True))['detail']
    r = cl.get('/nowhere', headers={'Accept': 'application/json'})
    assert r.status_code == 404 and r.mimetype == 'application/json'
    assert r.headers.get('Allow') is None
    assert calls == []

    # non-HTTPException responses are passed through untouched
    passthrough = Response('as is', status=418, mimetype='application/x-thing')
    app2 = Application([Route('/p', lambda: passthrough)])
    assert app2.dispatch(app2.request_type(EnvironBuilder(path='/p').get_environ())) is passthrough
    r = app2.get_local_client().get('/p', headers={'Accept': 'application/json'})
    assert (r.status_code, r.mimetype, r.get_data(True)) == (418, 'application/x-thing', 'as is')


def check_uncaught_and_reroute():
    def boom():
        raise ValueError('bang')

    def not_a_response():
        return 'just a string'

    for debug in (False, True):
        app = Application([Route('/boom', boom), Route('/nr', not_a_response),
                           Route('/boom', ok_ep('NEVER'))], debug=debug)
        cl = app.get_local_client()
        r = cl.get('/boom', headers={'Accept': 'application/json'})
        body = json.loads(r.get_data(True))
        assert r.status_code == 500 and r.headers.get('X-Marker') is None
        assert '[ValueError: bang]' in body['detail']
        frames = int(re.search(r'\((\d+) frames', body['detail']).group(1))
        r = cl.get('/nr', headers={'Accept': 'application/json'})
        body_nr = json.loads(r.get_data(True))
        assert r.status_code == 500
        assert "expected Response, received <class 'str'>" in body_nr['detail']
        assert '(1 frames, last=' in body_nr['detail']
        assert "Callpoint('dispatch'," in body_nr['detail']
        if debug:
            # the traceback starts in dispatch() itself, then goes into the route
            names = [(f['func_name'], f['module_name']) for f in body['exc_tb']['frames']]
            assert names[0] == ('dispatch', 'clastic.application'), names
            assert names[1] == ('execute', 'clastic.route'), names
            assert names[2] == ('inject', 'clastic.sinter'), names
            assert names[-1][0] == 'boom', names
            assert len(names) == frames
            assert [f['func_name'] for f in body_nr['exc_tb']['frames']] == ['dispatch']

    # reraise_uncaught: the original exception leaves the WSGI callable
    app = Application([Route('/boom', boom)],
                      error_handler=ErrorHandler(reraise_uncaught=True))
    try:
        app.get_local_client().get('/boom')
    except ValueError as ve:
        assert str(ve) == 'bang'
    else:
        raise AssertionError('expected ValueError')

    # RerouteWSGI, raised or used as the endpoint, is never swallowed
    def other_wsgi(environ, start_response):
        start_response('202 Accepted', [('Content-Type', 'text/plain'), ('X-Marker', 'OTHER')])
        return [b'other app']

    def raises_reroute():
        raise RerouteWSGI(other_wsgi)

    def nb():
        raise Forbidden(is_breaking=False)

    app = Application([Route('/r1', nb), Route('/r1', raises_reroute),
                       Route('/r2', RerouteWSGI(other_wsgi)),
                       Route('/r1', ok_ep('NEVER'))])
    cl = app.get_local_client()
    for path in ('/r1', '/r2'):
        r = cl.get(path)
        assert (r.status_code, r.headers.get('X-Marker'), r.get_data(True)) == \
            (202, 'OTHER', 'other app'), path


from werkzeug.test import EnvironBuilder


def main():
    total = check_dispatch_property()
    check_slash_redirect()
    check_error_rendering()
    check_uncaught_and_reroute()
    print('checked %d requests' % total)
    print('PASS')
    return 0


if __name__ == '__main__':
    sys.exit(main())
