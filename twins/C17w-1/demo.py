# -*- coding: utf-8 -*-
"""demo1: JSONRender / JSONPRender (streaming or not, with / without callback)
and render_basic on a spread of endpoint results.  Prints PASS, exits 0."""
import json
import datetime
import types

from werkzeug.test import EnvironBuilder
from werkzeug.wrappers import Request, Response

from clastic import Application
from clastic.render import (JSONRender, JSONPRender, BasicRender,
                            render_json, render_json_dev, render_basic)


def req(path='/', **kw):
    return Request(EnvironBuilder(path=path, **kw).get_environ())


class WithToDict(object):
    def to_dict(self):
        return {'kind': 'to_dict'}


class Plain(object):
    def __repr__(self):
        return '<Plain obj>'


class FalsyStreaming(object):
    """truthiness is consulted exactly once per call"""
    def __init__(self, value):
        self.value, self.calls = value, 0

    def __bool__(self):
        self.calls += 1
        return self.value


NATIVE = [
    {}, [], {'a': 1}, [1, 2, 3], {'a': [1, {'b': None}], 'c': True, 'd': 1.5},
    'text', '', u'h\xe9llo ☃', 0, 1, -3, 2.25, None, True, False,
    [[], {}], {'': ''}, [{'x': 'y'}, {'x': 'z'}], 'a"b\\c\n',
]


def check_json_render():
    for streaming in (False, True, 0, 1, '', 'yes', None):
        for dev_mode in (False, True):
            r = JSONRender(streaming=streaming, dev_mode=dev_mode)
            for value in NATIVE:
                resp = r(value)
                raw = resp.response  # before get_data() buffers it
                assert resp.status_code == 200
                assert resp.headers['Content-Type'] == \
                    'application/json; charset=utf-8', resp.headers
                assert json.loads(resp.get_data(True)) == value, value
                # the non-streaming body is one chunk in a list
                if not streaming:
                    assert type(raw) is list and len(raw) == 1
                else:
                    assert isinstance(raw, types.GeneratorType)
    # tuples / sets / datetimes / to_dict objects
    for r in (render_json, render_json_dev, JSONRender(streaming=True)):
        assert json.loads(r((1, 2)).get_data(True)) == [1, 2]
        assert sorted(json.loads(r({'s': {1, 2}}).get_data(True))['s']) == [1, 2]
        d = datetime.datetime(2020, 1, 2, 3, 4, 5)
        assert json.loads(r({'d': d}).get_data(True)) == {'d': d.isoformat()}
        assert json.loads(r([WithToDict()]).get_data(True)) == [{'kind': 'to_dict'}]
    # unknown objects: repr in dev mode, TypeError otherwise
    assert json.loads(render_json_dev({'p': Plain()}).get_data(True)) == \
        {'p': '<Plain obj>'}
    for streaming in (False, True):
        r = JSONRender(streaming=streaming)
        try:
            r({'p': Plain()}).get_data()
        except TypeError as e:
            assert 'cannot serialize to JSON' in str(e)
        else:
            raise AssertionError('expected TypeError')
    # the flag is read at call time, once
    r = JSONRender()
    r.streaming = flag = FalsyStreaming(True)
    assert isinstance(r([1]).response, types.GeneratorType) and flag.calls == 1
    r.streaming = flag = FalsyStreaming(False)
    assert type(r([1]).response) is list and flag.calls == 1
    # encoding is only a label
    resp = JSONRender(encoding='latin-1')({'a': u'\xe9'})
    assert resp.headers['Content-Type'] == 'application/json; charset=latin-1'
    assert json.loads(resp.get_data(True)) == {'a': u'\xe9'}


def check_jsonp_render():
    for kw in ({}, {'streaming': True}, {'dev_mode': True}):
        r = JSONPRender(**kw)
        for value in NATIVE:
            # no callback / empty callback -> plain JSON
            for qs in ('', 'callback=', 'other=x'):
                resp = r(req(query_string=qs), value)
                if kw.get('streaming'):
                    assert isinstance(resp.response, types.GeneratorType)
                else:
                    assert type(resp.response) is list
                assert resp.status_code == 200
                assert resp.headers['Content-Type'] == \
                    'application/json; charset=utf-8'
                assert json.loads(resp.get_data(True)) == value
            # callback -> javascript call around the JSON
            resp = r(req(query_string='callback=cb_1'), value)
            assert resp.status_code == 200
            assert resp.headers['Content-Type'] == \
                'application/javascript; charset=utf-8'
            text = resp.get_data(True)
            assert text.startswith('cb_1(') and text.endswith(');')
            assert json.loads(text[len('cb_1('):-2]) == value
            # first callback value wins
            resp = r(req(query_string='callback=a&callback=b'), value)
            assert resp.get_data(True).startswith('a(')
    # custom query parameter name, positional like the base class
    r = JSONPRender('jsonp', True, True, 'utf-16')
    assert (r.qp_name, r.streaming, r.dev_mode, r.encoding) == \
        ('jsonp', True, True, 'utf-16')
    resp = r(req(query_string='callback=x&jsonp=fn'), {'p': Plain()})
    assert resp.headers['Content-Type'] == 'application/javascript; charset=utf-16'
    assert resp.get_data(True) == 'fn(' + json.dumps(
        {'p': '<Plain obj>'}, indent=2, sort_keys=True) + ');'
    resp = r(req(query_string='callback=x'), [1])
    assert resp.headers['Content-Type'] == 'application/json; charset=utf-16'
    # non-dev JSONP + unknown object: TypeError on consumption, both branches
    r = JSONPRender()
    for qs in ('', 'callback=f'):
        try:
            r(req(query_string=qs), [Plain()]).get_data()
        except TypeError:
            pass
        else:
            raise AssertionError('expected TypeError')
    # subclass overriding the base __call__ through the MRO still reached
    seen = []

    class Mid(JSONRender):
        def __call__(self, context):
            seen.append(context)
            return JSONRender.__call__(self, context)

    class Leaf(JSONPRender, Mid):
        pass

    leaf = Leaf()
    leaf(req(), [1])
    leaf(req(query_string='callback=f'), [2])
    assert seen == [[1]], seen


def check_basic_render():
    def gen():
        yield 1

    results = {
        'str': 'Hello', 'empty': '', 'jsonobj': '{"a": 1}', 'jsonarr': '[1]',
        'html': '<!doctype html><html><body>x</body></html>',
        'bytes': b'raw', 'nonascii': u'sn\xf6 ☃', 'int': 7, 'zero': 0,
        'float': 1.5, 'none': None, 'true': True, 'false': False,
        'dict': {'a': 1, 'b': 'x'}, 'list': [1, 2], 'tuple': (1, 2),
        'emptydict': {}, 'emptylist': [], 'rows': [{'a': 1}, {'a': 2}],
        'obj': Plain(), 'dt': datetime.date(2020, 1, 2), 'gen': gen,
    }

    def make_ep(v):
        def ep():
            return v() if callable(v) and not isinstance(v, Plain) else v
        return ep

    app = Application([('/%s' % k, make_ep(v), render_basic)
                       for k, v in results.items()] +
                      [('/resp', lambda: Response('direct', status=202),
                        render_basic)])
    c = app.get_local_client()

    def get(path, **kw):
        resp = c.get(path, **kw)
        return resp.status_code, resp.mimetype, resp.get_data(True)

    assert get('/str') == (200, 'text/plain', 'Hello')
    assert get('/empty') == (200, 'text/plain', '')
    assert get('/jsonobj') == (200, 'application/json', '{"a": 1}')
    assert get('/jsonarr') == (200, 'application/json', '[1]')
    assert get('/html')[:2] == (200, 'text/html')
    assert get('/bytes') == (200, 'text/plain', 'raw')
    assert get('/nonascii') == (200, 'text/plain', u'sn\xf6 ☃')
    assert get('/int') == (200, 'text/plain', '7')
    assert get('/zero') == (200, 'text/plain', '0')
    assert get('/float') == (200, 'text/plain', '1.5')
    assert get('/none') == (200, 'text/plain', 'None')
    assert get('/true') == (200, 'text/plain', 'True')
    assert get('/false') == (200, 'text/plain', 'False')
    assert get('/obj') == (200, 'text/plain', '<Plain obj>')
    assert get('/dt') == (200, 'text/plain', '2020-01-02')
    assert get('/gen')[:2] == (200, 'text/plain')
    assert get('/resp') == (202, 'text/plain', 'direct')
    for k in ('dict', 'list', 'tuple', 'emptydict', 'emptylist', 'rows'):
        expected = json.loads(json.dumps(results[k]))
        for kw in ({}, {'query_string': 'format=json'},
                   {'headers': {'Accept': 'application/json'}},
                   {'headers': {'Accept': 'image/png'}}):
            status, mime, text = get('/' + k, **kw)
            assert (status, mime) == (200, 'application/json'), (k, kw, mime)
            assert json.loads(text) == expected
    for k in ('dict', 'list', 'rows'):
        for kw in ({'query_string': 'format=html'},
                   {'headers': {'Accept': 'text/html'}},
                   {'headers': {'Accept': 'text/html,application/json;q=0.5'}}):
            status, mime, text = get('/' + k, **kw)
            assert (status, mime) == (200, 'text/html'), (k, kw, mime)
            assert '<table' in text and text.startswith('<html>')
    # a wildcard Accept picks the first supported type, which is HTML
    assert get('/dict', headers={'Accept': '*/*'})[1] == 'text/html'
    # explicit format beats Accept
    assert get('/dict', query_string='format=json',
               headers={'Accept': 'text/html'})[1] == 'application/json'
    assert get('/dict', query_string='format=html',
               headers={'Accept': 'application/json'})[1] == 'text/html'
    # unsupported format: ValueError out of the renderer
    try:
        render_basic({'a': 1}, req(query_string='format=xml'), None)
    except ValueError as e:
        assert 'format expected one of' in str(e) and "'xml'" in str(e)
    else:
        raise AssertionError('expected ValueError')
    # ... but not consulted for already-serialized / scalar results
    assert render_basic('x', req(query_string='format=xml'), None).mimetype == \
        'text/plain'
    assert render_basic(3, req(query_string='format=xml'), None).mimetype == \
        'text/plain'
    # custom json_render plugged into BasicRender
    br = BasicRender(json_render=JSONPRender().__class__.__mro__[1](streaming=True))
    resp = br({'a': (1, 2)}, req(), None)
    assert json.loads(resp.get_data(True)) == {'a': [1, 2]}


if __name__ == '__main__':
    check_json_render()
    check_jsonp_render()
    check_basic_render()
    print('PASS')
