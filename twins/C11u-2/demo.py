# -*- coding: utf-8 -*-
"""demo2: Application construction / set_error_handler / WSGI wrapping stay
per-instance; failing constructors and failing add()s leave other
applications untouched.

Prints PASS and exits 0 on unmodified code and with patch2.diff applied.
"""
import os
import sys
import warnings

warnings.simplefilter('ignore')
sys.path.insert(0, os.path.dirname(os.path.abspath(__file__)))

from werkzeug.wrappers import Response

from clastic import Application, Route, SubApplication, Middleware
from clastic.errors import ErrorHandler, ContextualErrorHandler, NotFound
from clastic.route import InvalidPattern

TRACE = []


def get(app, path, **kw):
    resp = app.get_local_client().get(path, **kw)
    return resp.status_code, resp.get_data(True)


def patterns(app):
    return [r.pattern for r in app.routes]


def ep(text):
    def endpoint():
        return Response(text)
    return endpoint


def expect(exc_type, func, *a, **kw):
    try:
        func(*a, **kw)
    except exc_type as e:
        assert type(e) is exc_type, (type(e), exc_type)
        return e
    raise AssertionError('expected %r' % exc_type)


class TracingErrorHandler(ErrorHandler):
    "error handler with a WSGI wrapper and a custom render_error"
    def __init__(self, tag):
        self.tag = tag

    def wsgi_wrapper(self, inner):
        tag = self.tag

        def wrapped(environ, start_response):
            TRACE.append(tag)
            return inner(environ, start_response)
        return wrapped

    def render_error(self, request, _error, **kwargs):
        return Response('%s:%s' % (self.tag, _error.code), status=_error.code)


class NeedyErrorHandler(ErrorHandler):
    def render_error(self, request, _error, db, **kwargs):
        return Response('db=%s:%s' % (db, _error.code), status=_error.code)


class BadWrapperErrorHandler(ErrorHandler):
    wsgi_wrapper = 'not callable'


class BadWrapperResultErrorHandler(ErrorHandler):
    def wsgi_wrapper(self, inner):
        return lambda a, b: None


class TraceMW(Middleware):
    def __init__(self, tag):
        self.tag = tag

    def wsgi_wrapper(self, inner):
        tag = self.tag

        def wrapped(environ, start_response):
            TRACE.append(tag)
            return inner(environ, start_response)
        return wrapped


def test_default_error_handlers():
    plain = Application([('/p', ep('p'))])
    assert type(plain.error_handler) is ErrorHandler
    assert plain.debug is None
    dbg = Application([('/d', ep('d'))], debug=True)
    assert type(dbg.error_handler) is ContextualErrorHandler
    assert dbg.debug is True
    for falsy in (False, 0, '', None):
        assert type(Application(debug=falsy).error_handler) is ErrorHandler
    for truthy in (1, 'yes', [0]):
        assert type(Application(debug=truthy).error_handler) is ContextualErrorHandler

    # class-level override hooks
    made = []

    class MyEH(ErrorHandler):
        def __init__(self):
            made.append('plain')

    class MyDebugEH(ErrorHandler):
        def __init__(self):
            made.append('debug')

    class MyApp(Application):
        default_error_handler_type = MyEH
        default_debug_error_handler_type = MyDebugEH

    a1 = MyApp()
    a2 = MyApp(debug=True)
    assert made == ['plain', 'debug']
    assert type(a1.error_handler) is MyEH and type(a2.error_handler) is MyDebugEH
    # an instance-level override wins as well (looked up through self)
    a1.default_error_handler_type = MyDebugEH
    a1.set_error_handler()
    assert made == ['plain', 'debug', 'debug']
    assert type(a1.error_handler) is MyDebugEH
    # explicit handler: no default constructed
    eh = ErrorHandler()
    a3 = MyApp(error_handler=eh)
    assert a3.error_handler is eh and made == ['plain', 'debug', 'debug']
    # unaffected base class
    assert Application.default_error_handler_type is ErrorHandler
    assert type(Application().error_handler) is ErrorHandler

    # a default handler type whose constructor fails: the error propagates
    class Boom(ErrorHandler):
        def __init__(self):
            raise RuntimeError('boom')

    class BoomApp(Application):
        default_error_handler_type = Boom
    expect(RuntimeError, BoomApp)
    assert type(BoomApp(debug=True).error_handler) is ContextualErrorHandler

    assert get(plain, '/p') == (200, 'p')
    assert get(dbg, '/d') == (200, 'd')
    assert get(plain, '/d')[0] == 404 and get(dbg, '/p')[0] == 404


def test_wrapping_is_per_instance():
    class_level = Application.__dict__['_dispatch_wsgi']
    m1, m2 = TraceMW('m1'), TraceMW('m2')
    shared = Route('/s', ep('s'))
    a = Application([shared], middlewares=[m1], error_handler=TracingErrorHandler('ea'))
    b = Application([shared, ('/b', ep('b'))], middlewares=[m2])
    c = Application([shared])
    assert Application.__dict__['_dispatch_wsgi'] is class_level
    # every instance carries its own entry point
    for app in (a, b, c):
        assert '_dispatch_wsgi' in vars(app)

    def hit(app, path):
        del TRACE[:]
        res = get(app, path)
        return res, list(TRACE)

    assert hit(a, '/s') == ((200, 's'), ['m1', 'ea'])
    assert hit(b, '/s') == ((200, 's'), ['m2'])
    assert hit(c, '/s') == ((200, 's'), [])
    assert hit(a, '/zzz') == ((404, 'ea:404'), ['m1', 'ea'])
    assert hit(b, '/zzz')[0][0] == 404

    # set_error_handler wraps once more, outermost, on this instance only;
    # routes bound earlier keep the render_error they were bound with
    a.set_error_handler(TracingErrorHandler('ea2'))
    assert hit(a, '/s') == ((200, 's'), ['ea2', 'm1', 'ea'])
    assert hit(a, '/zzz') == ((404, 'ea:404'), ['ea2', 'm1', 'ea'])
    a.add(('/late', lambda: NotFound()))
    assert hit(a, '/late') == ((404, 'ea2:404'), ['ea2', 'm1', 'ea'])
    assert hit(b, '/s') == ((200, 's'), ['m2'])
    assert hit(c, '/s') == ((200, 's'), [])
    # resetting to the default
    a.set_error_handler()
    assert type(a.error_handler) is ErrorHandler
    assert hit(a, '/s') == ((200, 's'), ['ea2', 'm1', 'ea'])
    assert patterns(a) == ['/s', '/late']

    # embedding a into b: a is unchanged, b gets copies
    b.add(('/a', a), index=1)
    assert patterns(b) == ['/s', '/a/s', '/a/late', '/b']
    assert patterns(a) == ['/s', '/late']
    assert hit(b, '/a/s') == ((200, 's'), ['m2'])
    assert hit(a, '/s') == ((200, 's'), ['ea2', 'm1', 'ea'])
    assert shared.pattern == '/s' and shared.middlewares == []


def test_failing_constructors_and_adds():
    def needs_db(db):
        return Response('db=%s' % db)

    good = Application([('/g', ep('g')), ('/db', needs_db)], resources={'db': 'G'})
    other = Application([('/o', ep('o'))])
    inner_entry_point = good._dispatch_wsgi

    def check():
        assert patterns(good) == ['/g', '/db']
        assert patterns(other) == ['/o']
        assert get(good, '/g') == (200, 'g')
        assert get(good, '/db') == (200, 'db=G')
        assert get(other, '/o') == (200, 'o')
        assert get(other, '/g')[0] == 404
        assert good._dispatch_wsgi == inner_entry_point
        assert type(good.error_handler) is ErrorHandler
    check()

    # constructor failures of every stage
    e = expect(TypeError, Application, [('/g', good)], bogus=1)
    assert 'unexpected keyword args' in str(e) and 'bogus' in str(e)
    check()
    for name in ('request', 'next', 'context', '_route', '_application', '_dispatch_state'):
        e = expect(NameError, Application, [('/g', good)], resources={name: 1})
        assert 'conflict with builtins' in str(e) and name in str(e)
    e = expect(NameError, Application, resources={'next': 1, 'request': 2})
    assert str(e).endswith("['request', 'next']"), str(e)
    check()

    class BadMW(Middleware):
        def request(self, request):  # first arg must be next
            return None
    expect(TypeError, Application, [('/g', good)], middlewares=[BadMW()])

    class ProvDB(Middleware):
        provides = ('db',)

        def request(self, next):
            return next(db='mw')
    expect(NameError, Application, [], middlewares=[ProvDB(), ProvDB()])
    check()

    # error handler problems
    expect(NameError, Application, [('/g', good)], error_handler=NeedyErrorHandler())
    ok = Application([('/g', good)], error_handler=NeedyErrorHandler(), resources={'db': 'X'})
    assert get(ok, '/nope') == (404, 'db=X:404')
    assert get(ok, '/g/db') == (200, 'db=X')   # dispatching app's resources are injected last
    expect(TypeError, Application, [('/g', good)], error_handler=BadWrapperErrorHandler())
    expect(TypeError, Application, [('/g', good)], error_handler=BadWrapperResultErrorHandler())
    expect(AttributeError, Application, [], error_handler=object())
    check()

    # set_error_handler failing on a live app leaves it as it was
    expect(NameError, other.set_error_handler, NeedyErrorHandler())
    expect(TypeError, other.set_error_handler, BadWrapperErrorHandler())
    assert type(other.error_handler) is ErrorHandler
    check()

    # routes failing inside the constructor, alone or as k-th of an embedded app
    expect(NameError, Application, [('/g', good), ('/needs', needs_db)])
    expect(TypeError, Application, [('/g', good), ('/x', 'nope')])
    expect(InvalidPattern, Application, [('/ok', ep('ok')), ('noslash', good)])
    conflicted = Application([('/1', ep('1')), Route('/2', needs_db, middlewares=[ProvDB()])])
    assert get(conflicted, '/2') == (200, 'db=mw')
    expect(NameError, Application, [('/g', good), ('/c', conflicted)], resources={'db': 1})
    for index in (None, 0, 1, 5):
        expect(NameError, good.add, ('/c', conflicted), index=index)
        expect(NameError, other.add, ('/needs', needs_db), index=index)
        expect(TypeError, other.add, ('/needs', needs_db), index=index, bogus=True)
        check()
    assert patterns(conflicted) == ['/1', '/2']
    assert get(conflicted, '/2') == (200, 'db=mw')

    # successful embedding afterwards
    other.add(SubApplication('/g', good), index=0)
    assert patterns(other) == ['/g/g', '/g/db', '/o']
    assert get(other, '/g/db') == (200, 'db=G')
    other.add(('/c/', conflicted), index=2)
    assert patterns(other) == ['/g/g', '/g/db', '/c/1', '/c/2', '/o']
    assert get(other, '/c/2') == (200, 'db=mw')
    assert patterns(good) == ['/g', '/db'] and patterns(conflicted) == ['/1', '/2']
    assert get(good, '/db') == (200, 'db=G')


if __name__ == '__main__':
    test_default_error_handlers()
    test_wrapping_is_per_instance()
    test_failing_constructors_and_adds()
    print('PASS')
