# -*- coding: utf-8 -*-
"""demo2: Application.__call__ / _dispatch_wsgi / dispatch / RerouteWSGI.

Every response kind goes through wsgiref's validator with a recording
start_response (exactly one call, before the body, str headers, no body
for HEAD).  RerouteWSGI, raised or used as an endpoint, must hand the
very same environ and start_response to the target and relay its result
verbatim.  Request ids, error flow and non-breaking fall-through are
checked as well.
"""
import os
import sys

sys.path.insert(0, os.path.dirname(os.path.abspath(__file__)))

from io import BytesIO
from wsgiref.util import setup_testing_defaults
from wsgiref.validate import validator

import clastic
from clastic import (Application, Route, Middleware, Response, RerouteWSGI,
                     render_basic, GET, POST)
from clastic import application as app_mod
from clastic.errors import (ErrorHandler, NotFound, BadGateway, Forbidden,
                            HTTPException)
from clastic.utils import int2hexguid
from werkzeug.wrappers import Request

assert os.path.dirname(os.path.abspath(__file__)) in os.path.abspath(clastic.__file__)


def make_environ(method='GET', path='/', query='', headers=None, body=b''):
    environ = {'REQUEST_METHOD': method, 'PATH_INFO': path,
               'SCRIPT_NAME': '', 'QUERY_STRING': query,
               'wsgi.input': BytesIO(body)}
    setup_testing_defaults(environ)
    environ['REQUEST_METHOD'] = method
    if method == 'POST' or body:
        environ['CONTENT_LENGTH'] = str(len(body))
        environ['CONTENT_TYPE'] = 'application/octet-stream'
    for k, v in (headers or {}).items():
        environ['HTTP_' + k.upper().replace('-', '_')] = v
    return environ


def call_wsgi(app, method='GET', path='/', validate=True, **kw):
    environ = make_environ(method, path, **kw)
    calls = []

    def start_response(status, headers, exc_info=None):
        calls.append((status, list(headers), exc_info))
        return lambda data: None

    target = validator(app) if validate else app
    result = target(environ, start_response)
    chunks = []
    try:
        for chunk in result:
            assert len(calls) == 1, 'start_response must precede body'
            assert isinstance(chunk, bytes)
            chunks.append(chunk)
    finally:
        if hasattr(result, 'close'):
            result.close()
    assert len(calls) == 1, 'start_response called %r times' % len(calls)
    status, headers, exc_info = calls[0]
    assert exc_info is None
    assert isinstance(status, str) and status[:3].isdigit() and status[3] == ' '
    for k, v in headers:
        assert type(k) is str and type(v) is str
    body = b''.join(chunks)
    if method == 'HEAD':
        assert body == b'', (path, body)
    return status, headers, body


# ---------------------------------------------------------------- endpoints

def ep_plain():
    return Response('plain body', mimetype='text/plain')


def ep_streamed():
    def gen():
        yield b'chunk1,'
        yield b'chunk2,'
        yield b'chunk3'
    return Response(gen(), mimetype='text/plain')


def ep_ctx():
    return {'k': 'v'}


def ep_unrendered():
    return {'k': 'v'}  # no render function: TypeError -> 500


def ep_boom():
    raise ValueError('boom')


def ep_raise_http():
    raise BadGateway()


def ep_return_http():
    return Forbidden()


def ep_soft_missing():
    raise NotFound(is_breaking=False)


def ep_state(_dispatch_state):
    excs = _dispatch_state.exceptions
    return Response('%d:%s' % (len(excs), ','.join(type(e).__name__ for e in excs)),
                    mimetype='text/plain')


def ep_ids(request):
    return Response('%s %s' % (request.request_id, request.request_guid),
                    mimetype='text/plain')


def ep_empty():
    return Response('', status=202, headers=[('X-Custom', 'yes'), ('X-Custom', 'twice')],
                    mimetype='text/plain')


def build_routes():
    return [Route('/plain', ep_plain, methods=['GET', 'HEAD', 'POST', 'OPTIONS']),
            ('/streamed', ep_streamed),
            ('/ctx', ep_ctx, render_basic),
            ('/unrendered', ep_unrendered),
            ('/boom', ep_boom),
            ('/raise_http', ep_raise_http),
            ('/return_http', ep_return_http),
            ('/soft', ep_soft_missing),
            ('/soft', ep_state),
            ('/softonly', ep_soft_missing),
            ('/ids', ep_ids),
            ('/empty', ep_empty),
            GET('/getonly', ep_plain),
            POST('/postonly', ep_plain),
            ('/branch/', ep_plain),
            ('/param/<name>/<num:int>', lambda name, num: Response('%s-%d' % (name, num)))]


EXPECT = {'/plain': {'*': '200'},
          '/streamed': {'*': '200'},
          '/ctx': {'*': '200'},
          '/unrendered': {'*': '500'},
          '/boom': {'*': '500'},
          '/raise_http': {'*': '502'},
          '/return_http': {'*': '403'},
          '/soft': {'*': '200'},
          '/softonly': {'*': '404'},
          '/ids': {'*': '200'},
          '/empty': {'*': '202'},
          '/getonly': {'GET': '200', 'HEAD': '200', '*': '405'},
          '/postonly': {'POST': '200', '*': '405'},
          '/branch': {'*': '30'},
          '/branch/': {'*': '200'},
          '/param/x/3': {'*': '200'},
          '/param/x/notint': {'*': '404'},
          '/nowhere': {'*': '404'},
          '/': {'*': '404'}}

HEADER_SETS = [None,
               {'Accept': 'application/json'},
               {'Accept': 'text/html', 'Accept-Encoding': 'gzip'},
               {'Accept': 'text/plain, */*;q=0.1', 'X-Whatever': 'x' * 50}]


def test_all_response_kinds():
    for debug in (False, True):
        app = Application(build_routes(), debug=debug)
        for method in ('GET', 'HEAD', 'POST', 'OPTIONS'):
            for path, exp in sorted(EXPECT.items()):
                for hdrs in HEADER_SETS:
                    status, headers, body = call_wsgi(app, method, path, headers=hdrs)
                    want = exp.get(method, exp['*'])
                    assert status.startswith(want), (debug, method, path, status)
                    hdict = dict(headers)
                    if status.startswith('405'):
                        assert 'Allow' in hdict
                    if status.startswith('30'):
                        assert hdict['Location'].endswith('/branch/')
    app = Application(build_routes())
    assert call_wsgi(app, 'GET', '/plain')[2] == b'plain body'
    assert call_wsgi(app, 'GET', '/streamed')[2] == b'chunk1,chunk2,chunk3'
    assert call_wsgi(app, 'GET', '/soft')[2] == b'1:NotFound'
    assert call_wsgi(app, 'GET', '/param/abc/42')[2] == b'abc-42'
    status, headers, body = call_wsgi(app, 'GET', '/empty')
    assert [v for k, v in headers if k == 'X-Custom'] == ['yes', 'twice']
    # query string survives the slash redirect
    status, headers, body = call_wsgi(app, 'GET', '/branch', query='a=1&b=2')
    assert dict(headers)['Location'].endswith('/branch/?a=1&b=2')


def test_request_ids():
    app = Application([('/ids', ep_ids)])
    seen = []
    for i in range(3):
        status, headers, body = call_wsgi(app, 'GET', '/ids')
        rid, guid = body.decode('ascii').split(' ')
        assert guid == int2hexguid(int(rid))
        seen.append(int(rid))
    assert seen[1] == seen[0] + 1 and seen[2] == seen[1] + 1
    # ids are consumed even for requests that 404
    call_wsgi(app, 'GET', '/missing')
    status, headers, body = call_wsgi(app, 'GET', '/ids')
    assert int(body.split(b' ')[0]) == seen[2] + 2

    # a request type that refuses attribute assignment is tolerated
    class LockedRequest(Request):
        def __setattr__(self, name, value):
            if name.startswith('request_'):
                raise AttributeError('locked: %s' % name)
            return super(LockedRequest, self).__setattr__(name, value)

    class LockedApp(Application):
        request_type = LockedRequest

    def ep_locked(request):
        return Response('%r %r' % (hasattr(request, 'request_id'),
                                   hasattr(request, 'request_guid')))
    app = LockedApp([('/', ep_locked)])
    before = next(app_mod._REQ_ID_ITER)
    assert call_wsgi(app, 'GET', '/')[2] == b'False False'
    # the counter was still advanced exactly once by that request
    assert next(app_mod._REQ_ID_ITER) == before + 2

    # ... any Exception subclass on request_id assignment is tolerated
    class OddRequest(Request):
        def __setattr__(self, name, value):
            if name == 'request_id':
                raise KeyError(name)
            return super(OddRequest, self).__setattr__(name, value)

    class OddApp(Application):
        request_type = OddRequest
    app = OddApp([('/', ep_locked)])
    assert call_wsgi(app, 'GET', '/')[2] == b'False False'

    # ... but a failure when assigning request_guid is NOT swallowed
    class GuidLockedRequest(Request):
        def __setattr__(self, name, value):
            if name == 'request_guid':
                raise AttributeError('guid locked')
            return super(GuidLockedRequest, self).__setattr__(name, value)

    class GuidLockedApp(Application):
        request_type = GuidLockedRequest
    app = GuidLockedApp([('/', ep_locked)])
    try:
        call_wsgi(app, 'GET', '/', validate=False)
    except AttributeError as ae:
        assert str(ae) == 'guid locked'
    else:
        raise AssertionError('AttributeError expected')


class RecordingTarget(object):
    def __init__(self, status='200 OK', headers=None, chunks=(b'target ', b'body')):
        self.status = status
        self.headers = headers if headers is not None else [('Content-Type', 'text/plain'),
                                                            ('X-Target', 'yes'),
                                                            ('X-Target', 'again')]
        self.chunks = list(chunks)
        self.calls = []
        self.results = []

    def __call__(self, environ, start_response):
        self.calls.append((environ, start_response, dict(environ), sys.exc_info()[1]))
        start_response(self.status, self.headers)
        result = ClosableIter(self.chunks)
        self.results.append(result)
        return result


class ClosableIter(object):
    def __init__(self, chunks):
        self.chunks = chunks
        self.closed = 0

    def __iter__(self):
        return iter(self.chunks)

    def close(self):
        self.closed += 1


def raw_call(app, environ):
    calls = []

    def start_response(status, headers, exc_info=None):
        calls.append((status, headers, exc_info))
    result = app(environ, start_response)
    return result, calls, start_response


def test_reroute():
    target = RecordingTarget()

    def ep_raise_reroute():
        raise RerouteWSGI(target)

    class ReroutingMW(Middleware):
        def request(self, next, request):
            if request.args.get('mw'):
                raise RerouteWSGI(target)
            return next()

    routes = [('/as_endpoint', RerouteWSGI(target)),
              ('/as_endpoint/<rest*>', RerouteWSGI(target)),
              ('/raised', ep_raise_reroute),
              ('/plain', ep_plain)]
    for debug in (False, True):
        app = Application(routes, middlewares=[ReroutingMW()], debug=debug)
        cases = [('GET', '/as_endpoint', ''), ('POST', '/as_endpoint/a/b', 'x=1'),
                 ('HEAD', '/raised', ''), ('OPTIONS', '/raised', ''),
                 ('GET', '/plain', 'mw=1'), ('GET', '/nowhere', 'mw=1')]
        for method, path, query in cases:
            del target.calls[:]
            del target.results[:]
            environ = make_environ(method, path, query=query,
                                   headers={'X-Marker': 'm'}, body=b'payload')
            environ['demo.custom'] = marker = object()
            original = dict(environ)
            result, sr_calls, start_response = raw_call(app, environ)
            assert len(target.calls) == 1
            got_environ, got_sr, snapshot, active_exc = target.calls[0]
            # the request's own environ and start_response, by identity
            assert got_environ is environ
            assert got_sr is start_response
            # every original entry intact (same objects)
            for k, v in original.items():
                assert k in snapshot and snapshot[k] is v, k
            assert snapshot['demo.custom'] is marker
            # the target runs while the RerouteWSGI is being handled
            assert isinstance(active_exc, RerouteWSGI)
            assert active_exc.wsgi_app is target
            # status / headers / body relayed verbatim
            assert len(sr_calls) == 1
            assert sr_calls[0][0] == '200 OK'
            assert sr_calls[0][1] is target.headers
            assert result is target.results[0]
            assert list(result) == [b'target ', b'body']
            assert result.closed == 0  # closing is the server's business
        # validated run, too
        status, headers, body = call_wsgi(app, 'GET', '/as_endpoint')
        assert (status, body) == ('200 OK', b'target body')
        assert [v for k, v in headers if k == 'X-Target'] == ['yes', 'again']
        # no reroute: a normal response
        assert call_wsgi(app, 'GET', '/plain')[2] == b'plain body'

    # odd statuses and empty bodies are relayed as they are
    teapot = RecordingTarget('418 I am a teapot', [('Content-Type', 'x/y')], chunks=())
    app = Application([('/', RerouteWSGI(teapot))])
    result, sr_calls, _ = raw_call(app, make_environ())
    assert sr_calls == [('418 I am a teapot', [('Content-Type', 'x/y')], None)]
    assert list(result) == []

    # rerouting to another clastic Application
    other = Application([('/<path*>', lambda path: Response('other:' + '/'.join(path)))])
    app = Application([('/x/<rest*>', RerouteWSGI(other)), ('/plain', ep_plain)])
    for method in ('GET', 'HEAD'):
        status, headers, body = call_wsgi(app, method, '/x/y/z')
        assert status.startswith('200')
        if method == 'GET':
            assert body == b'other:x/y/z'

    # an exception raised by the target propagates, chained to the reroute
    class TargetError(Exception):
        pass

    def failing_target(environ, start_response):
        raise TargetError('nope')
    app = Application([('/', RerouteWSGI(failing_target))])
    try:
        raw_call(app, make_environ())
    except TargetError as exc:
        assert isinstance(exc.__context__, RerouteWSGI)
        assert exc.__context__.wsgi_app is failing_target
    else:
        raise AssertionError('TargetError expected')

    # a non-callable target fails at call time with TypeError
    app = Application([('/', RerouteWSGI(None))])
    try:
        raw_call(app, make_environ())
    except TypeError:
        pass
    else:
        raise AssertionError('TypeError expected')

    # RerouteWSGI instance semantics
    rr = RerouteWSGI(target)
    assert isinstance(rr, Exception) and rr.wsgi_app is target
    try:
        rr()
    except RerouteWSGI as caught:
        assert caught is rr


def test_error_flow():
    # reraise_uncaught: the exception escapes the WSGI callable
    app = Application([('/boom', ep_boom), ('/http', ep_raise_http)],
                      error_handler=ErrorHandler(reraise_uncaught=True))
    try:
        raw_call(app, make_environ(path='/boom'))
    except ValueError as ve:
        assert str(ve) == 'boom'
    else:
        raise AssertionError('ValueError expected')
    # HTTPExceptions are not "uncaught"
    assert call_wsgi(app, 'GET', '/http')[0].startswith('502')

    # uncaught_to_response gets the route, the error and the params
    seen = []

    class SpyEH(ErrorHandler):
        def uncaught_to_response(self, _application, _route, **kwargs):
            seen.append((_application, _route, sorted(kwargs)))
            assert isinstance(kwargs['_error'], ValueError)
            assert sys.exc_info()[1] is kwargs['_error']
            return super(SpyEH, self).uncaught_to_response(_application, _route, **kwargs)

    app = Application([('/boom/<x>', lambda x: ep_boom())], resources={'res': 1},
                      error_handler=SpyEH())
    assert call_wsgi(app, 'GET', '/boom/1')[0].startswith('500')
    assert len(seen) == 1
    assert seen[0][0] is app and seen[0][1] is app.routes[0]
    assert seen[0][2] == ['_dispatch_state', '_error', 'request', 'res', 'x']

    # an uncaught_to_response returning a plain Response ends dispatch
    class PlainEH(ErrorHandler):
        def uncaught_to_response(self, **kwargs):
            return Response('handled', status=500, mimetype='text/plain')
    app = Application([('/boom', ep_boom), ('/boom', ep_plain)], error_handler=PlainEH())
    status, headers, body = call_wsgi(app, 'GET', '/boom')
    assert (status[:3], body) == ('500', b'handled')

    # source_route: set when missing, kept when already present
    routes_seen = []

    class RouteSpyEH(ErrorHandler):
        def render_error(self, request, _error, _route):
            routes_seen.append((_error.source_route, _route))
            return super(RouteSpyEH, self).render_error(request=request, _error=_error)

    def ep_preset(_application):
        raise BadGateway(source_route=_application.routes[1])
    app = Application([('/a', ep_raise_http), ('/b', ep_preset)], error_handler=RouteSpyEH())
    assert call_wsgi(app, 'GET', '/a')[0].startswith('502')
    assert routes_seen[-1][0] is app.routes[0]
    assert call_wsgi(app, 'GET', '/b')[0].startswith('502')
    assert routes_seen[-1][0] is app.routes[1]

    # non-breaking errors fall through in order, breaking ones stop
    order = []

    def soft(tag):
        def ep():
            order.append(tag)
            raise NotFound(is_breaking=False)
        return ep

    def hard():
        order.append('hard')
        raise Forbidden()

    def never():
        order.append('never')
        return Response('never')
    app = Application([('/p', soft('s1')), ('/p', soft('s2')), ('/p', hard), ('/p', never)])
    assert call_wsgi(app, 'GET', '/p')[0].startswith('403')
    assert order == ['s1', 's2', 'hard']
    del order[:]
    app = Application([('/p', soft('s1')), ('/p', soft('s2')), ('/p', ep_state)])
    assert call_wsgi(app, 'GET', '/p')[2] == b'2:NotFound,NotFound'
    assert order == ['s1', 's2']

    # a failing render_error falls back to the default rendering
    class BrokenRenderEH(ErrorHandler):
        def render_error(self, request, _error):
            raise RuntimeError('cannot render')
    app = Application([('/http', ep_raise_http)], error_handler=BrokenRenderEH())
    assert call_wsgi(app, 'GET', '/http')[0].startswith('502')
    assert call_wsgi(app, 'GET', '/none')[0].startswith('404')


def test_call_is_dispatch_wsgi():
    app = Application([('/plain', ep_plain)])
    seen = []
    original = app._dispatch_wsgi

    def spy(environ, start_response):
        seen.append((environ, start_response))
        return original(environ, start_response)
    app._dispatch_wsgi = spy
    environ = make_environ(path='/plain')
    result, sr_calls, start_response = raw_call(app, environ)
    assert seen == [(environ, start_response)]
    assert seen[0][0] is environ and seen[0][1] is start_response
    assert b''.join(result) == b'plain body'
    assert len(sr_calls) == 1

    # a custom response type is called positionally with the same objects
    called = []

    class SpyResponse(Response):
        def __call__(self, *args, **kwargs):
            called.append((args, kwargs))
            return super(SpyResponse, self).__call__(*args, **kwargs)
    app = Application([('/', lambda: SpyResponse('spy'))])
    environ = make_environ()
    result, sr_calls, start_response = raw_call(app, environ)
    assert len(called) == 1
    args, kwargs = called[0]
    assert kwargs == {} and len(args) == 2
    assert args[0] is environ and args[1] is start_response


def main():
    test_all_response_kinds()
    test_request_ids()
    test_reroute()
    test_error_flow()
    test_call_is_dispatch_wsgi()
    print('PASS')


if __name__ == '__main__':
    main()
