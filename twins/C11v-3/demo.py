# -*- coding: utf-8 -*-
"""demo3: compiling a route's middleware stack at bind time
(clastic.middleware.core.make_middleware_chain) and its role in C11: the
"unresolved dependency" failures of add() / Application() come from here and
must happen before anything is inserted; every binding gets its own compiled
chain, so applications sharing Route and Middleware objects stay independent.
"""
import os
import sys
import linecache

sys.path.insert(0, os.path.dirname(os.path.abspath(__file__)))

from werkzeug.wrappers import Response

from clastic import Application, Route, SubApplication, Middleware
from clastic.middleware import make_middleware_chain

LOG = []


def text(app, path, method='GET'):
    resp = app.get_local_client().open(path, method=method)
    return resp.status_code, resp.get_data(as_text=True)


def patterns(app):
    return [r.pattern for r in app.routes]


def generated_files():
    return set(k for k in linecache.cache if k.startswith('<sinter generated'))


def expect_name_error(call, message=None, contains=None):
    try:
        call()
    except NameError as ne:
        if message is not None:
            assert str(ne) == message, str(ne)
        if contains is not None:
            assert contains in str(ne), str(ne)
        return ne
    raise AssertionError('expected NameError')


# ----------------------------------------------------------------- middlewares

class ReqMW(Middleware):
    provides = ('user',)

    def request(self, next, request):
        request_id = getattr(request, 'request_id', request)
        LOG.append('req-in %s' % request_id)
        ret = next(user='user-%s' % request_id)
        LOG.append('req-out')
        return ret


class EpMW(Middleware):
    endpoint_provides = ('session',)

    def endpoint(self, next, user):
        LOG.append('ep-in %s' % user)
        ret = next(session='session-of-' + user)
        LOG.append('ep-out')
        return ret


class RenderMW(Middleware):
    render_provides = ('theme',)

    def render(self, next, context, user):
        LOG.append('rn-in %s' % sorted(context))
        ret = next(theme='dark-for-' + user)
        LOG.append('rn-out')
        return ret


class AllMW(Middleware):
    provides = ('a_req',)
    endpoint_provides = ('a_ep',)
    render_provides = ('a_rn',)

    def request(self, next):
        LOG.append('all-req')
        return next(a_req=1)

    def endpoint(self, next, a_req):
        LOG.append('all-ep')
        return next(a_ep=a_req + 1)

    def render(self, next, a_req, context):
        LOG.append('all-rn')
        return next(a_rn=a_req + 10)


class NoFuncsMW(Middleware):
    """takes part in no phase at all"""
    provides = ()


class NeedsReq(Middleware):
    def request(self, next, nowhere_req):
        return next()


class NeedsEp(Middleware):
    def endpoint(self, next, nowhere_ep):
        return next()


class NeedsRn(Middleware):
    def render(self, next, nowhere_rn):
        return next()


def endpoint(user, session, request):
    LOG.append('endpoint')
    return {'user': user, 'session': session}


def render(context, theme):
    LOG.append('render')
    return Response('%s|%s|%s' % (context['user'], context['session'], theme))


def endpoint_direct(user):
    LOG.append('endpoint-direct')
    return Response('direct ' + user)


# -------------------------------------------------------------- direct checks

def direct_checks():
    pre = set(['request', 'next', 'context'])

    # all three phases; order of execution
    chain = make_middleware_chain([ReqMW(), EpMW(), RenderMW()], endpoint, render, pre)
    del LOG[:]
    resp = chain(request=7)
    assert resp.get_data(as_text=True) == 'user-7|session-of-user-7|dark-for-user-7'
    assert LOG == ['req-in 7', 'ep-in user-7', 'endpoint', 'ep-out',
                   "rn-in ['session', 'user']", 'render', 'rn-out', 'req-out'], LOG

    # an endpoint returning a Response skips the render phase entirely
    chain2 = make_middleware_chain((ReqMW(), RenderMW()), endpoint_direct, render, pre)
    del LOG[:]
    assert chain2(request=1).get_data(as_text=True) == 'direct user-1'
    assert LOG == ['req-in 1', 'endpoint-direct', 'req-out'], LOG
    # chains are independent objects
    assert chain is not chain2
    del LOG[:]
    assert chain(request=2).get_data(as_text=True).startswith('user-2|')

    # one middleware in all phases, one in none, list / tuple / empty stacks
    def ep_all(a_req, a_ep):
        return [a_req, a_ep]

    def rn_all(context, a_rn):
        return Response(repr(context + [a_rn]))

    for stack in ([AllMW()], (AllMW(), NoFuncsMW()), [NoFuncsMW(), AllMW()]):
        del LOG[:]
        ch = make_middleware_chain(stack, ep_all, rn_all, set())
        assert ch().get_data(as_text=True) == '[1, 2, 11]'
        assert LOG == ['all-req', 'all-ep', 'all-rn']
    for stack in ([], (), [NoFuncsMW()]):
        ch = make_middleware_chain(stack, lambda x: {'x': x},
                                   lambda context: Response(repr(context)), ['x'])
        assert ch(x=0).get_data(as_text=True) == "{'x': 0}"
        ch = make_middleware_chain(stack, lambda x=5: Response(repr(x)),
                                   lambda context: context, [])
        assert ch().get_data(as_text=True) == '5'

    # 'next' is reserved; the endpoint is checked before render
    def ep_next(next):
        return next

    def rn_next(context, next):
        return next

    def ok_rn(context):
        return context

    expect_name_error(lambda: make_middleware_chain([], ep_next, ok_rn, pre),
                      "argument 'next' reserved for middleware use only (%r)" % ep_next)
    expect_name_error(lambda: make_middleware_chain([], endpoint_direct, rn_next, pre),
                      "argument 'next' reserved for middleware use only (%r)" % rn_next)
    expect_name_error(lambda: make_middleware_chain([ReqMW()], ep_next, rn_next, pre),
                      "argument 'next' reserved for middleware use only (%r)" % ep_next)

    # unresolved arguments, phase by phase, and what got compiled before the
    # failure was noticed (generated code is registered in linecache)
    def ep_uniq1(uniq_one):
        return uniq_one

    def ep_uniq2(uniq_two):
        return {}

    def rn_uniq2(context, uniq_three):
        return context

    def ep_uniq3(uniq_four=None):
        return {}

    def rn_uniq3(context, uniq_five=None):
        return context

    before = generated_files()
    expect_name_error(lambda: make_middleware_chain([], ep_uniq1, rn_uniq2, ['uniq_two']),
                      "unresolved endpoint middleware arguments: ['uniq_one']")
    after_ep = generated_files()
    assert len(after_ep - before) == 1, after_ep - before   # endpoint chain only
    expect_name_error(lambda: make_middleware_chain([], ep_uniq2, rn_uniq2, ['uniq_two']),
                      "unresolved render middleware arguments: ['uniq_three']")
    after_rn = generated_files()
    assert len(after_rn - after_ep) == 2, after_rn - after_ep   # endpoint + render
    def ep_uniq4(uniq_six):
        return {}

    def rn_uniq4(context, uniq_seven):
        return context

    expect_name_error(lambda: make_middleware_chain([NeedsReq()], ep_uniq4, rn_uniq4,
                                                    ('uniq_six', 'uniq_seven')),
                      "unresolved request middleware arguments: ['nowhere_req']")
    after_req = generated_files()
    # endpoint chain, render chain, process_request, request chain
    assert len(after_req - after_rn) == 4, after_req - after_rn

    # precedence: endpoint problems are reported before render, before request
    everything_wrong = [NeedsReq(), NeedsEp(), NeedsRn()]
    expect_name_error(lambda: make_middleware_chain(everything_wrong, ep_uniq3, rn_uniq3, []),
                      "unresolved endpoint middleware arguments: ['nowhere_ep']")
    expect_name_error(lambda: make_middleware_chain(everything_wrong[::2], ep_uniq3, rn_uniq3, []),
                      "unresolved render middleware arguments: ['nowhere_rn']")
    # request provides are visible to endpoint and render phases, endpoint
    # provides are not visible to render, 'context' only to render
    expect_name_error(lambda: make_middleware_chain([EpMW(), ReqMW()],
                                                    lambda session: {},
                                                    lambda context, session: context, pre),
                      "unresolved render middleware arguments: ['session']")
    expect_name_error(lambda: make_middleware_chain([], lambda context: {}, ok_rn, pre),
                      "unresolved endpoint middleware arguments: ['context']")
    # preprovided 'next'/'context' are never available to the request phase
    class WantsContext(Middleware):
        def request(self, next, context):
            return next()
    expect_name_error(lambda: make_middleware_chain([WantsContext()], ep_uniq3, ok_rn, pre),
                      "unresolved request middleware arguments: ['context']")

    # an object lacking one of the phase attributes
    class Partial(object):
        request = None
        endpoint = None
        provides = endpoint_provides = render_provides = ()
    try:
        make_middleware_chain([Partial()], ep_uniq3, rn_uniq3, [])
    except AttributeError as ae:
        assert 'render' in str(ae)
    else:
        raise AssertionError('expected AttributeError')
    # ... is only looked at when its phase is reached
    expect_name_error(lambda: make_middleware_chain([Partial()], ep_uniq1, rn_uniq3, []),
                      "unresolved endpoint middleware arguments: ['uniq_one']")


# --------------------------------------------------------------- applications

def ep_user(user):
    return Response('user=' + user)


def ep_sess(session, label):
    return Response('%s@%s' % (session, label))


def ep_themed(user):
    return {'user': user}


def rn_themed(context, theme, label):
    return Response('%s/%s/%s' % (context['user'], theme, label))


def ep_plain():
    return Response('plain')


def ep_needs_db(db):
    return Response('db')


PATHS = ['/user', '/sess', '/themed', '/plain', '/s/user', '/s/sess', '/s/themed',
         '/s/plain', '/nowhere']


def snapshot(app):
    return (patterns(app), [id(r) for r in app.routes], [text(app, p) for p in PATHS])


def app_checks():
    req_mw, ep_mw, rn_mw = ReqMW(), EpMW(), RenderMW()
    r_user = Route('/user', ep_user)
    r_sess = Route('/sess', ep_sess, middlewares=[ep_mw])
    r_themed = Route('/themed', ep_themed, rn_themed, middlewares=[rn_mw])
    r_plain = Route('/plain', ep_plain)
    routes = [r_user, r_sess, r_themed, r_plain]
    route_vars = [dict(vars(r)) for r in routes]

    a = Application(routes, resources={'label': 'A'}, middlewares=[req_mw])
    b = Application(routes[::-1], resources={'label': 'B'}, middlewares=[req_mw])
    live = [a, b]

    def check(app, label, prefix=''):
        st, body = text(app, prefix + '/user')
        assert st == 200 and body.startswith('user=user-'), (st, body)
        st, body = text(app, prefix + '/sess')
        assert st == 200 and body.startswith('session-of-user-') \
            and body.endswith('@' + label), (st, body)
        st, body = text(app, prefix + '/themed')
        assert st == 200 and '/dark-for-user-' in body and body.endswith('/' + label), body
        assert text(app, prefix + '/plain') == (200, 'plain')

    check(a, 'A')
    check(b, 'B')
    # every binding compiled its own chain
    assert len(set(id(r._execute) for r in a.routes + b.routes)) == 8

    def stable(app):
        # request ids are a process-wide counter, so compare shapes only
        return (patterns(app), [id(r) for r in app.routes],
                [text(app, p)[0] for p in PATHS])

    before = [stable(x) for x in live]

    # failing adds: no request middleware -> 'user' unresolved; nothing changes
    bare = Application([r_plain], resources={'label': 'bare'})
    live.append(bare)
    before.append(stable(bare))
    for entry, phase, missing in ((r_user, 'endpoint', 'user'),
                                  (('/u2', ep_user), 'endpoint', 'user'),
                                  (r_sess, 'endpoint', 'user'),
                                  (r_themed, 'endpoint', 'user'),
                                  (Route('/db', ep_needs_db), 'endpoint', 'db')):
        for index in (0, 1, None):
            expect_name_error(lambda: bare.add(entry, index=index),
                              "unresolved %s middleware arguments: ['%s']" % (phase, missing))
            assert [stable(x) for x in live] == before

    # render-phase failure: a render function asking for something unknown
    def rn_unknown(context, unknown_thing):
        return Response('never')
    expect_name_error(lambda: a.add(Route('/bad-render', ep_themed, rn_unknown), index=0),
                      "unresolved render middleware arguments: ['unknown_thing']")
    # request-phase failure: middleware request function asking for something unknown
    expect_name_error(lambda: a.add(Route('/bad-req', ep_plain, middlewares=[NeedsReq()]), index=2),
                      "unresolved request middleware arguments: ['nowhere_req']")
    expect_name_error(lambda: Application([r_plain, Route('/bad-req', ep_plain)],
                                          middlewares=[NeedsReq()]),
                      "unresolved request middleware arguments: ['nowhere_req']")
    assert [stable(x) for x in live] == before

    # embedding: bound routes carry the embedded application's resources and
    # middlewares along, so an application whose 3rd route needs 'db' can be
    # embedded in one without 'db'
    inner = Application([r_plain, ('/p2', ep_plain), ('/db', ep_needs_db), ('/p4', ep_plain)],
                        resources={'db': 1})
    live.append(inner)
    before.append(stable(inner))
    bare.add(('/s', inner), index=0)
    assert patterns(bare) == ['/s/plain', '/s/p2', '/s/db', '/s/p4', '/plain']
    assert text(bare, '/s/db') == (200, 'db')
    assert stable(inner) == before[-1]
    before = [stable(x) for x in live]
    # failing as the k-th route of an embedded application: the 3rd route's
    # middleware provides 'user', which clashes with a resource of the target;
    # the embedding fails as a whole
    clash_mw_app = Application([r_plain, ('/p2', ep_plain),
                                Route('/u', ep_user, middlewares=[ReqMW()]),
                                ('/p4', ep_plain)])
    live.append(clash_mw_app)
    before.append(stable(clash_mw_app))
    has_user = Application([('/mine', ep_user)], resources={'user': 'resource-user'})
    live.append(has_user)
    before.append(stable(has_user))
    assert text(has_user, '/mine') == (200, 'user=resource-user')
    for index in (0, 1, None):
        expect_name_error(lambda: has_user.add(SubApplication('/s', clash_mw_app), index=index),
                          contains='conflicting provides')
        assert [stable(x) for x in live] == before
    assert text(has_user, '/mine') == (200, 'user=resource-user')

    # successful embedding keeps everything contiguous and the source untouched
    b.add(('/s', a), index=1)
    assert patterns(b) == ['/plain', '/s/user', '/s/sess', '/s/themed', '/s/plain',
                           '/themed', '/sess', '/user']
    check(b, 'B')
    check(b, 'B', prefix='/s')
    check(a, 'A')
    assert stable(a) == before[0]
    assert [dict(vars(r)) for r in routes] == route_vars
    assert (req_mw.provides, ep_mw.endpoint_provides, rn_mw.render_provides) == \
        (('user',), ('session',), ('theme',))


if __name__ == '__main__':
    direct_checks()
    app_checks()
    print('PASS')
