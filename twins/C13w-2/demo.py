# -*- coding: utf-8 -*-
"""demo2: an Application is a conforming WSGI application (C13).

Focus of this demo: Application.dispatch -- what happens with whatever an
endpoint returns or raises (Responses, HTTPExceptions breaking or not,
arbitrary exceptions, RerouteWSGI) and how the result is sent through
(environ, start_response).  Prints PASS and exits 0 when everything holds.
"""
import sys
import json
import warnings
from wsgiref.validate import validator

warnings.simplefilter('ignore')

from werkzeug.test import EnvironBuilder
from werkzeug.wrappers import Response

from clastic import (Application, SubApplication, render_basic, RerouteWSGI,
                     Middleware, GET, POST, Route)
from clastic.application import DispatchState
from clastic.errors import (NotFound, Forbidden, BadRequest, BadGateway,
                            ErrorHandler, ContextualErrorHandler,
                            InternalServerError, MethodNotAllowed,
                            HTTPException)

CHECKS = [0]


def ok(cond, msg=''):
    CHECKS[0] += 1
    if not cond:
        raise AssertionError(msg)


def make_environ(path='/', method='GET', headers=None, data=None, query_string=None):
    builder = EnvironBuilder(path=path, method=method, headers=headers or {},
                             data=data, query_string=query_string)
    environ = builder.get_environ()
    environ.pop('HTTP_CONTENT_LENGTH', None)  # the validator is picky
    environ.pop('HTTP_CONTENT_TYPE', None)
    return environ


def call_wsgi(app, path='/', method='GET', headers=None, data=None,
              validate=True, query_string=None, environ=None):
    """Drive one request through *app* by hand, under wsgiref's validator.

    Returns (status, header_list, body_bytes)."""
    if environ is None:
        environ = make_environ(path, method, headers, data, query_string)
    calls = []
    early = []

    def start_response(status, response_headers, exc_info=None):
        calls.append((status, list(response_headers)))
        return lambda s: None

    target = validator(app) if validate else app
    app_iter = target(environ, start_response)
    body = []
    try:
        for chunk in app_iter:
            if not calls:
                early.append(chunk)
            ok(isinstance(chunk, bytes), 'non-bytes chunk %r' % (chunk,))
            body.append(chunk)
    finally:
        if hasattr(app_iter, 'close'):
            app_iter.close()
    ok(len(calls) == 1, 'start_response called %d times for %s %s'
       % (len(calls), method, path))
    ok(not early, 'body before start_response')
    status, hdrs = calls[0]
    ok(isinstance(status, str) and len(status) >= 4 and status[:3].isdigit()
       and status[3] == ' ', 'bad status line %r' % (status,))
    for pair in hdrs:
        ok(isinstance(pair, tuple) and len(pair) == 2)
        ok(type(pair[0]) is str and type(pair[1]) is str, 'bad header %r' % (pair,))
    body = b''.join(body)
    if environ['REQUEST_METHOD'] == 'HEAD':
        ok(body == b'', 'HEAD sent a body: %r' % body[:40])
    return status, hdrs, body


def hget(hdrs, name):
    for k, v in hdrs:
        if k.lower() == name.lower():
            return v
    return None


class DemoError(Exception):
    pass


def main():
    log = []

    # ---- endpoints
    def plain():
        return 'plain'

    def resp_direct():
        return Response(b'direct', status=201, headers=[('X-Demo', 'yes')])

    def streamed():
        return Response((c for c in [b'st', b'rea', b'med']), mimetype='text/plain')

    def raise_value():
        raise DemoError('kaboom')

    def raise_breaking():
        raise Forbidden('stop right here')

    def return_http_exc():
        return BadGateway('returned, not raised')

    def raise_nonbreaking():
        log.append('nonbreaking-1')
        raise NotFound('first says no', is_breaking=False)

    def raise_nonbreaking_2():
        log.append('nonbreaking-2')
        raise Forbidden('second says no', is_breaking=False)

    def after_nonbreaking(_dispatch_state):
        log.append('after')
        return ','.join([type(e).__name__ + ':' + str(e.detail)
                         for e in _dispatch_state.exceptions])

    def no_render():
        return 'a str, with no render function'

    def none_endpoint():
        return None

    def show_state(_dispatch_state, _route, request):
        ok(isinstance(_dispatch_state, DispatchState))
        return '%s|%s|%s' % (sorted(_dispatch_state.allowed_methods),
                             len(_dispatch_state.exceptions), _route.pattern)

    # ---- reroute targets
    reroute_seen = []

    def raw_wsgi(environ, start_response):
        reroute_seen.append(environ)
        start_response('299 Custom Status', [('X-Raw', 'raw-1'), ('X-Raw', 'raw-2'),
                                             ('Content-Type', 'text/x-raw'),
                                             ('Content-Length', '7')])
        if environ['REQUEST_METHOD'] == 'HEAD':
            return [b'']
        return [b'raw', b'', b'body']

    def raw_wsgi_head_aware(environ, start_response):
        reroute_seen.append(environ)
        start_response('200 OK', [('Content-Type', 'text/plain')])
        return []

    def raising_reroute():
        raise RerouteWSGI(raw_wsgi)

    class RerouteMW(Middleware):
        def request(self, next, request):
            if request.args.get('mw_reroute'):
                raise RerouteWSGI(raw_wsgi)
            return next()

    @__import__('attr').s(frozen=True)
    class SubReroute(RerouteWSGI):
        pass

    def raising_sub_reroute():
        raise SubReroute(raw_wsgi)

    routes = [('/plain', plain, render_basic),
              ('/direct', resp_direct),
              ('/stream', streamed),
              ('/value', raise_value),
              ('/breaking', raise_breaking),
              ('/breaking', plain, render_basic),          # never reached
              ('/returned', return_http_exc),
              ('/returned', plain, render_basic),          # never reached (is_breaking)
              ('/nb/<name>', raise_nonbreaking),
              ('/nb/<name>', raise_nonbreaking_2),
              ('/nb/hit', after_nonbreaking, render_basic),
              ('/norender', no_render),
              ('/none', none_endpoint),
              GET('/only_get', show_state, render_basic),
              POST('/only_post', show_state, render_basic),
              GET('/both', show_state, render_basic),
              POST('/both', show_state, render_basic),
              ('/branch/', plain, render_basic),
              ('/rr/endpoint/<rest*>', RerouteWSGI(raw_wsgi)),
              ('/rr/raised', raising_reroute),
              ('/rr/sub', raising_sub_reroute),
              Route('/rr/mw', plain, render_basic, middlewares=[RerouteMW()]),
              ('/rr/empty', RerouteWSGI(raw_wsgi_head_aware))]

    class RecordingEH(ErrorHandler):
        rendered = []
        uncaught = []

        def render_error(self, request, _error, _route):
            RecordingEH.rendered.append((type(_error).__name__, _error.source_route,
                                         _route))
            return super(RecordingEH, self).render_error(request, _error)

        def uncaught_to_response(self, _application, _route, **kwargs):
            RecordingEH.uncaught.append((sys.exc_info()[1], kwargs.get('_error'),
                                         _route, sorted(kwargs)))
            return super(RecordingEH, self).uncaught_to_response(
                _application=_application, _route=_route, **kwargs)

    apps = {'prod': Application(routes),
            'debug': Application(routes, debug=True),
            'recording': Application(routes, error_handler=RecordingEH()),
            'embedded': Application([('/', Application(routes))])}

    METHODS = ('GET', 'HEAD', 'POST', 'OPTIONS')
    for name, app in sorted(apps.items()):
        for method in METHODS:
            data = b'k=v' if method == 'POST' else None
            st, hd, body = call_wsgi(app, '/plain', method, data=data)
            ok(st == '200 OK' and (method == 'HEAD' or body == b'plain'), (name, st))

            st, hd, body = call_wsgi(app, '/direct', method, data=data)
            ok(st.startswith('201') and hget(hd, 'X-Demo') == 'yes')
            ok(method == 'HEAD' or body == b'direct')

            st, hd, body = call_wsgi(app, '/stream', method, data=data)
            ok(st == '200 OK' and (method == 'HEAD' or body == b'streamed'))

            st, hd, body = call_wsgi(app, '/value', method, data=data)
            ok(st.startswith('500'), (name, method, st))
            if method != 'HEAD' and name == 'debug':
                ok(b'DemoError' in body and b'kaboom' in body)

            st, hd, body = call_wsgi(app, '/breaking', method, data=data)
            ok(st.startswith('403'), (name, st))
            ok(method == 'HEAD' or b'stop right here' in body)

            st, hd, body = call_wsgi(app, '/returned', method, data=data)
            ok(st.startswith('502'), (name, st))
            ok(method == 'HEAD' or b'returned, not raised' in body)

            del log[:]
            st, hd, body = call_wsgi(app, '/nb/hit', method, data=data)
            ok(st == '200 OK', (name, st))
            ok(log == ['nonbreaking-1', 'nonbreaking-2', 'after'], log)
            ok(method == 'HEAD'
               or body == b'NotFound:first says no,Forbidden:second says no', body)

            del log[:]
            st, hd, body = call_wsgi(app, '/nb/miss', method, data=data)
            # nothing else matches: the null route hands back the last
            # non-breaking error
            ok(log == ['nonbreaking-1', 'nonbreaking-2'])
            ok(st.startswith('403'), (name, st))
            ok(method == 'HEAD' or b'second says no' in body)

            st, hd, body = call_wsgi(app, '/norender', method, data=data)
            ok(st.startswith('500'), (name, st))
            st, hd, body = call_wsgi(app, '/none', method, data=data)
            ok(st.startswith('500'), (name, st))
            if method != 'HEAD' and name == 'debug':
                ok(b'expected Response, received' in body)

            st, hd, body = call_wsgi(app, '/nowhere', method, data=data)
            ok(st.startswith('404'), (name, st))

            st, hd, body = call_wsgi(app, '/branch', method, data=data)
            ok(st[:3] in ('301', '302', '307', '308'), st)
            ok(hget(hd, 'Location').endswith('/branch/?') or
               hget(hd, 'Location').endswith('/branch/'), hget(hd, 'Location'))

        # 405 and the methods gathered in the dispatch state
        st, hd, body = call_wsgi(app, '/only_get', 'POST', data=b'a=b')
        ok(st.startswith('405'), (name, st))
        ok(hget(hd, 'Allow') == 'GET, HEAD', hget(hd, 'Allow'))
        st, hd, body = call_wsgi(app, '/only_post', 'GET')
        ok(st.startswith('405') and hget(hd, 'Allow') == 'POST')
        st, hd, body = call_wsgi(app, '/both', 'OPTIONS')
        ok(st.startswith('405') and hget(hd, 'Allow') == 'GET, HEAD, POST')
        st, hd, body = call_wsgi(app, '/both', 'POST', data=b'a=b')
        ok(st == '200 OK' and body == b"['GET', 'HEAD']|0|/both", body)
        st, hd, body = call_wsgi(app, '/both', 'GET')
        ok(st == '200 OK' and body == b"[]|0|/both", body)

        # RerouteWSGI: same environ object, everything relayed verbatim
        for path in ('/rr/endpoint/a/b', '/rr/raised', '/rr/sub', '/rr/mw?mw_reroute=1'):
            for method in METHODS:
                del reroute_seen[:]
                p, _, q = path.partition('?')
                environ = make_environ(p, method, query_string=q or None,
                                       headers={'X-Orig': 'orig-value'},
                                       data=b'k=v' if method == 'POST' else None)
                environ['demo.marker'] = marker = object()
                before = dict(environ)
                # not under the validator: it would hand a copy-ish environ down
                st, hd, body = call_wsgi(app, environ=environ, validate=False)
                ok(len(reroute_seen) == 1, (name, path, method, len(reroute_seen)))
                ok(reroute_seen[0] is environ, 'reroute got another environ')
                for k, v in before.items():
                    ok(k in environ and environ[k] is v, 'environ entry lost: %r' % k)
                ok(environ['demo.marker'] is marker)
                ok(st == '299 Custom Status', st)
                ok(hd == [('X-Raw', 'raw-1'), ('X-Raw', 'raw-2'),
                          ('Content-Type', 'text/x-raw'), ('Content-Length', '7')], hd)
                ok(method == 'HEAD' or body == b'rawbody')
                # and once more under the validator
                st, hd, body = call_wsgi(app, p, method, query_string=q or None,
                                         data=b'k=v' if method == 'POST' else None)
                ok(st == '299 Custom Status')
        st, hd, body = call_wsgi(app, '/rr/mw')
        ok(st == '200 OK' and body == b'plain')
        st, hd, body = call_wsgi(app, '/rr/empty')
        ok(st == '200 OK' and body == b'' and hd == [('Content-Type', 'text/plain')])

    # ---- what the error handler gets to see
    rec_app = apps['recording']
    del RecordingEH.rendered[:]
    del RecordingEH.uncaught[:]
    st, hd, body = call_wsgi(rec_app, '/value')
    ok(st.startswith('500'))
    ok(len(RecordingEH.uncaught) == 1)
    cur_exc, err_kwarg, route, kwarg_names = RecordingEH.uncaught[0]
    ok(isinstance(cur_exc, DemoError) and cur_exc is err_kwarg)
    ok(route.pattern == '/value')
    ok('_error' in kwarg_names and 'request' in kwarg_names
       and '_dispatch_state' in kwarg_names)
    ok(len(RecordingEH.rendered) == 1)
    ok(RecordingEH.rendered[0][0] == 'InternalServerError')
    ok(RecordingEH.rendered[0][1] is route)

    del RecordingEH.rendered[:]
    st, hd, body = call_wsgi(rec_app, '/breaking')
    ok(RecordingEH.rendered[0][0] == 'Forbidden')
    ok(RecordingEH.rendered[0][1].endpoint is raise_breaking)
    del RecordingEH.rendered[:]
    st, hd, body = call_wsgi(rec_app, '/returned')
    ok(RecordingEH.rendered[0][0] == 'BadGateway')
    ok(RecordingEH.rendered[0][1].endpoint is return_http_exc)
    del RecordingEH.rendered[:]
    st, hd, body = call_wsgi(rec_app, '/nb/miss')
    ok([r[0] for r in RecordingEH.rendered] == ['Forbidden'])
    ok(RecordingEH.rendered[0][1].endpoint is raise_nonbreaking_2)
    ok(len(RecordingEH.uncaught) == 1)  # HTTPExceptions never go to uncaught_to_response

    # a pre-set source_route is kept
    other_route = rec_app.routes[0]

    def preset_source():
        raise BadRequest('preset', source_route=other_route)
    preset_app = Application([('/preset', preset_source)], error_handler=RecordingEH())
    del RecordingEH.rendered[:]
    st, hd, body = call_wsgi(preset_app, '/preset')
    ok(st.startswith('400'))

    # ---- reraise_uncaught: the exception leaves the WSGI callable untouched
    class AlwaysReraise(ContextualErrorHandler):
        def uncaught_to_response(self, **kwargs):
            raise

    for eh in (ErrorHandler(reraise_uncaught=True), AlwaysReraise()):
        rr_app = Application(routes, error_handler=eh)
        started = []
        try:
            rr_app(make_environ('/value'), lambda *a, **kw: started.append(a))
        except DemoError as de:
            ok(str(de) == 'kaboom' and not started)
            ok(de.__context__ is None and de.__cause__ is None)
        else:
            ok(False, 'reraise_uncaught swallowed the exception')
        try:
            rr_app(make_environ('/none'), lambda *a, **kw: started.append(a))
        except TypeError as te:
            ok('expected Response, received' in str(te) and not started)
        else:
            ok(False)
        # HTTPExceptions and reroutes are not "uncaught"
        st, hd, body = call_wsgi(rr_app, '/breaking')
        ok(st.startswith('403'))
        st, hd, body = call_wsgi(rr_app, '/rr/raised')
        ok(st == '299 Custom Status')
        st, hd, body = call_wsgi(rr_app, '/nb/hit')
        ok(st == '200 OK')

    # ---- dispatch() itself lets RerouteWSGI through, with the instance intact
    app = apps['prod']
    req = app.request_type(make_environ('/rr/raised'))
    try:
        app.dispatch(req)
    except RerouteWSGI as rr:
        ok(rr.wsgi_app is raw_wsgi and type(rr) is RerouteWSGI)
        ok(rr.__traceback__ is not None)
    else:
        ok(False)
    req = app.request_type(make_environ('/rr/sub'))
    try:
        app.dispatch(req)
    except RerouteWSGI as rr:
        ok(type(rr) is SubReroute)
    else:
        ok(False)
    resp = app.dispatch(app.request_type(make_environ('/value')))
    ok(isinstance(resp, InternalServerError) and resp.source_route.pattern == '/value')
    resp = app.dispatch(app.request_type(make_environ('/nb/miss')))
    ok(isinstance(resp, Forbidden) and resp.source_route.endpoint is raise_nonbreaking_2)
    resp = app.dispatch(app.request_type(make_environ('/nowhere')))
    ok(isinstance(resp, NotFound) and resp.source_route is app._null_route)
    resp = app.dispatch(app.request_type(make_environ('/only_post')))
    ok(isinstance(resp, MethodNotAllowed) and resp.allowed_methods == {'POST'})

    # ---- wsgi wrappers: list order, first outermost, dedupe, embedding
    order = []

    def make_wrapper(tag):
        def wrapper(inner):
            def wrapped(environ, start_response):
                order.append(tag)
                return inner(environ, start_response)
            return wrapped
        return wrapper

    class WA(Middleware):
        wsgi_wrapper = staticmethod(make_wrapper('A'))

    class WB(Middleware):
        wsgi_wrapper = staticmethod(make_wrapper('B'))

    class WC(Middleware):
        wsgi_wrapper = staticmethod(make_wrapper('C'))

    wa = WA()
    inner = Application([('/x', plain, render_basic)], middlewares=[wa, WC()])
    outer = Application([('/in', inner), ('/plain', plain, render_basic)],
                        middlewares=[WB(), wa])
    for path in ('/in/x', '/plain', '/nowhere'):
        del order[:]
        call_wsgi(outer, path)
        ok(order == ['B', 'A', 'C'], order)
    del order[:]
    call_wsgi(inner, '/x')
    ok(order == ['A', 'C'], order)
    del order[:]
    call_wsgi(Application([], middlewares=[WC(), WB()]), '/')
    ok(order == ['C', 'B'], order)

    print('PASS (%d checks)' % CHECKS[0])


if __name__ == '__main__':
    main()
