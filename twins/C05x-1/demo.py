# -*- coding: utf-8 -*-
"""Demo for property C05: URL patterns match exactly the paths their
mini-language describes.  Compares BoundRoute.match_path against an
independent backtracking matcher over enumerated patterns x paths, checks
InvalidPattern rejection, and one end-to-end request.  Prints PASS."""
import itertools
import random
import re
import sys

from clastic import Application, Route, Response
from clastic.route import (InvalidPattern, S_STRICT, S_REWRITE, S_REDIRECT,
                           BoundRoute)
import clastic.route as route_mod

MODES = (S_STRICT, S_REWRITE, S_REDIRECT)
NO_OP = lambda: Response()

TYPE_RE = {'str': r'[^/]+',
           'int': r'[+-]?\ *[0-9]+',
           'float': r'[+-]?\ *(\d+(\.\d*)?|\.\d+)([eE][+-]?\d+)?'}
TYPE_CONV = {'str': str, 'int': int, 'float': float}
OPS = {'': (1, 1), ':': (1, 1), '?': (0, 1), '*': (0, None), '+': (1, None)}


def parse(pattern):
    """-> list of elements: ('lit', text) | ('bind', name, op, type)"""
    elems = []
    for part in pattern.split('/')[1:]:
        m = re.match(r'^<([A-Za-z_]\w*)(\W*)(\w+)?>$', part)
        if m:
            elems.append(('bind', m.group(1), m.group(2), m.group(3) or 'str'))
        else:
            elems.append(('lit', part))
    return elems


def seg_ok(seg, tname):
    return re.match('^(%s)$' % TYPE_RE[tname], seg) is not None


def assign(elems, segs, i=0):
    """greedy-first backtracking assignment; returns {name: (start, n)} or None"""
    if not elems:
        return {} if i == len(segs) else None
    el = elems[0]
    if el[0] == 'lit':
        if i < len(segs) and segs[i] == el[1]:
            return assign(elems[1:], segs, i + 1)
        return None
    _, name, op, tname = el
    lo, hi = OPS[op]
    avail = len(segs) - i
    hi = avail if hi is None else min(hi, avail)
    maxrun = 0
    while maxrun < hi and seg_ok(segs[i + maxrun], tname):
        maxrun += 1
    for n in range(maxrun, lo - 1, -1):
        rest = assign(elems[1:], segs, i + n)
        if rest is not None:
            rest[name] = (i, n)
            return rest
    return None


def ref_match(pattern, mode, path):
    elems = parse(pattern)
    if path and not path.startswith('/'):
        return None
    if mode != S_STRICT:
        path = path.rstrip('/')
        if elems and elems[-1] == ('lit', ''):
            elems = elems[:-1]
        pairs = re.findall('(/+)([^/]+)', path)
        segs = [seg for _, seg in pairs]
        # known quirk: a multi binding sees one '' per surplus slash
        extra = [len(slashes) - 1 for slashes, _ in pairs]
    else:
        segs = path.split('/')[1:]
        extra = [0] * len(segs)
    got = assign(elems, segs)
    if got is None:
        return None
    ret = {}
    try:
        for _, name, op, tname in [e for e in elems if e[0] == 'bind']:
            start, n = got[name]
            if op in ('*', '+'):
                raw = []
                for j in range(start, start + n):
                    raw += [''] * extra[j] + [segs[j]]
                ret[name] = [TYPE_CONV[tname](v) for v in raw]
            else:
                ret[name] = TYPE_CONV[tname](segs[start]) if n else None
    except ValueError:
        return None
    return ret


def same(a, b):
    if a is None or b is None:
        return a is b
    if set(a) != set(b):
        return False
    for k in a:
        if type(a[k]) is not type(b[k]) or a[k] != b[k]:
            return False
        if isinstance(a[k], list):
            if [type(x) for x in a[k]] != [type(x) for x in b[k]]:
                return False
    return True


def bound(pattern, mode):
    return Route(pattern, NO_OP).bind(Application(slash_mode=mode))


def gen_patterns():
    lits = ['a', 'b-1', '_x']
    binds = []
    for i, (op, t) in enumerate(itertools.product(['', ':', '?', '*', '+'],
                                                  ['', 'str', 'int', 'float'])):
        binds.append((op, t))
    pats = ['/', '/a', '/a/', '/a/b-1/_x']
    for op, t in binds:
        pats.append('/<v%s%s>' % (op, t))
        pats.append('/a/<v%s%s>/' % (op, t))
        pats.append('/<v%s%s>/b-1' % (op, t))
    rnd = random.Random(5)
    for _ in range(60):
        n = rnd.randint(2, 4)
        parts = []
        for j in range(n):
            if rnd.random() < 0.35:
                parts.append(rnd.choice(lits))
            else:
                op, t = rnd.choice(binds)
                parts.append('<n%d%s%s>' % (j, op, t))
        pats.append('/' + '/'.join(parts) + rnd.choice(['', '/']))
    pats += ['/<a*int>/<b*>', '/<a*>/<b*int>', '/<a+float>/<b+float>',
             '/<a?int>/<b?float>/<c?>', '/<a*int>/a/<b+>', '/<a?>/a/<b?int>/']
    return pats


def gen_paths():
    alphabet = ['/', 'a', '1', '.', '-', '+', ' ', 'e', u'\xe9']
    paths = ['']
    for n in range(1, 5):
        for tup in itertools.product(alphabet, repeat=n):
            paths.append(''.join(tup))
    rnd = random.Random(7)
    segs = ['a', 'b-1', '_x', '1', '-2', '+ 3', '1.5', '.5', '1e3', '1.e-2',
            '', 'e', '--1', '1e', u'\xe9', u'٣', ' 1', '1 ', '007', '+']
    for _ in range(600):
        k = rnd.randint(1, 7)
        paths.append('/' + '/'.join(rnd.choice(segs) for _ in range(k))
                     + rnd.choice(['', '/', '//']))
    return paths


def main():
    pats, paths = gen_patterns(), gen_paths()
    checked = matched = 0
    for pattern in pats:
        for mode in MODES:
            br = bound(pattern, mode)
            assert isinstance(br, BoundRoute)
            for path in paths:
                got = br.match_path(path)
                exp = ref_match(pattern, mode, path)
                assert same(got, exp), (pattern, mode, path, got, exp)
                checked += 1
                matched += got is not None
    assert matched > 1000, matched

    # fresh result objects on every call (no aliasing)
    br = bound('/<a*int>/<b?>', S_REWRITE)
    r1, r2 = br.match_path('/1/2'), br.match_path('/1/2')
    assert r1 == r2 == {'a': [1, 2], 'b': None} and r1 is not r2
    assert r1['a'] is not r2['a']
    assert br.match_path('') == {'a': [], 'b': None}
    assert list(br.match_path('/x')) == ['a', 'b']        # binding order
    assert list(br.converters) == ['a', 'b']

    # invalid patterns rejected at Route creation, with the same messages
    bad = {'a/b': "URL path patterns must start with a forward slash (got 'a/b')",
           '': "URL path patterns must start with a forward slash (got '')",
           '/a//b': "URL path patterns must not contain multiplecontiguous slashes (got '/a//b')",
           '/<a>/<a>': 'duplicate path binding a',
           '/<a:int>/x/<a*>': 'duplicate path binding a',
           '/<a:bogus>': 'unknown type specifier bogus',
           '/<a:bogus>/<a>': 'unknown type specifier bogus',
           '/<a!int>': "unknown arity operator '!', expected one of "
                       "dict_keys(['', '?', ':', '+', '*'])",
           '/<a**>': "unknown arity operator '**', expected one of "
                     "dict_keys(['', '?', ':', '+', '*'])",
           '/<a!bogus>': 'unknown type specifier bogus',
           '/<a::int>': "unknown arity operator '::', expected one of "
                        "dict_keys(['', '?', ':', '+', '*'])"}
    for pattern, msg in bad.items():
        for mode in MODES:
            try:
                Route(pattern, NO_OP, slash_mode=mode)
            except InvalidPattern as e:
                assert str(e) == msg, (pattern, str(e))
                assert isinstance(e, ValueError)
            else:
                raise AssertionError('accepted %r' % pattern)
    # '<...' that is not a full binding is a literal; trailing junk tolerated
    assert bound('/<a', S_STRICT).match_path('/<a') == {}
    assert bound('/<a>x', S_STRICT).match_path('/1') == {'a': '1'}

    # public import paths / tables stay available from clastic.route
    assert route_mod.BINDING.match('<x+int>').groupdict() == \
        {'name': 'x', 'op': '+', 'type': 'int'}
    assert list(route_mod._OP_ARITY_MAP.items()) == \
        [('', False), ('?', False), (':', False), ('+', True), ('*', True)]
    assert list(route_mod._OP_OPTIONALITY_MAP.items()) == \
        [('', False), ('?', True), (':', False), ('+', False), ('*', True)]
    assert route_mod._SEG_TMPL == '(?P<{name}>({sep}{pattern}){arity})'
    assert list(route_mod.TYPE_CONV_MAP) == ['int', 'float', 'str', 'unicode']
    rx, convs = route_mod._compile_path_pattern('/a/<b?int>/')
    assert rx.pattern == r'^/+a(?P<b>(/+[+-]?\ *[0-9]+)?)/*$', rx.pattern
    rx, convs = route_mod._compile_path_pattern('/a/<b+>/', S_STRICT)
    assert rx.pattern == r'^/a(?P<b>(/[^/]+)+)/$', rx.pattern
    assert route_mod.build_converter(int, multi=True, optional=True)('') == []
    assert route_mod.build_converter(int, optional=True)('') is None
    assert route_mod.build_converter(float)('/1.5') == 1.5

    # end to end: the endpoint receives the converted values
    def ep(num, rest, opt):
        return Response(repr((num, rest, opt)))
    app = Application([('/item/<num:int>/<rest*float>/end/<opt?>', ep)])
    cl = app.get_local_client()
    assert cl.get('/item/7/1.5/2/end').get_data(True) == "(7, [1.5, 2.0], None)"
    assert cl.get('/item/-7/end/z').get_data(True) == "(-7, [], 'z')"
    assert cl.get('/item/x/end').status_code == 404
    assert cl.get('/item/+ 7/end').status_code == 404

    print('checked %d pattern/mode/path triples, %d matches' % (checked, matched))
    print('PASS')
    return 0


if __name__ == '__main__':
    sys.exit(main())
