# -*- coding: utf-8 -*-
"""demo1: sinter.make_chain (the helper through which make_middleware_chain
learns which names stay unresolved) and the construction-time rejections
built on top of it."""
import os
import sys

sys.path.insert(0, os.path.dirname(os.path.abspath(__file__)))

from werkzeug.wrappers import Response

from clastic import Application, Route, Middleware, render_basic
from clastic.sinter import make_chain
from clastic.middleware.core import make_middleware_chain
from clastic.route import RESERVED_ARGS

CHECKS = [0]


def expect(exc_type, func, *fragments):
    CHECKS[0] += 1
    try:
        func()
    except Exception as e:
        assert type(e) is exc_type, 'expected %s, got %r' % (exc_type.__name__, e)
        for frag in fragments:
            assert frag in str(e), (frag, str(e))
        return e
    raise AssertionError('expected %s, nothing raised' % exc_type.__name__)


def ok(cond, msg=''):
    CHECKS[0] += 1
    assert cond, msg


# ---------------------------------------------------------------- make_chain
def outer(next, a):
    return ('outer', next(b=a + 1))


def middle(next, b, d=10):
    return ('middle', next(e=b * d))


def final(b, e, c=3):
    return ('final', b, e, c)


for seq in (list, tuple):
    funcs = seq([outer, middle])
    provides = seq([('b',), ('e',)])
    chain, args, unres = make_chain(funcs, provides, final, set(['a']), 'next')
    ok(args == set(['a']) and unres == set(), (args, unres))
    ok(type(args) is set and type(unres) is set)
    ok(chain(a=1) == ('outer', ('middle', ('final', 2, 20, 3))))
    # inputs untouched
    ok(funcs == seq([outer, middle]) and provides == seq([('b',), ('e',)]))

    # optional names are only taken when someone offers them
    pre = frozenset(['a', 'c', 'd', 'zzz'])
    chain, args, unres = make_chain(funcs, provides, final, pre, 'next')
    ok(args == set(['a', 'c', 'd']) and unres == set(), (args, unres))
    ok(chain(a=1, c=7, d=2) == ('outer', ('middle', ('final', 2, 4, 7))))

    # nothing preprovided: 'a' is unresolved, still reported as an argument
    chain, args, unres = make_chain(funcs, provides, final, (), 'next')
    ok(args == set(['a']) and unres == set(['a']), (args, unres))
    ok(args is not unres)

# no middlewares at all
chain, args, unres = make_chain((), (), final, ['b'], 'next')
ok(args == set(['b', 'e']) and unres == set(['e']), (args, unres))
ok(chain(b=1, e=2) == ('final', 1, 2, 3))

# a name provided too late (by a function further in) does not count
chain, args, unres = make_chain([middle, outer], [('e',), ('b',)], final, ['a'], 'next')
ok(unres == set(['b']) and args == set(['a', 'b']), (args, unres))

# the inner name is never a requirement of the chain, even for the last function
def takes_next(next, a):
    return a
chain, args, unres = make_chain([outer], [('b',)], takes_next, ['a'], 'next')
ok(args == set(['a']) and unres == set(), (args, unres))


# ------------------------------------------ construction-time phase checks
def ep(request):
    return {}


def ep_x(x):
    return {'x': x}


def render(context):
    return Response(repr(sorted(context.items())))


class ReqCtx(Middleware):
    def request(self, next, context):
        return next()


class EpCtx(Middleware):
    def endpoint(self, next, context):
        return next()


class RnCtx(Middleware):
    def render(self, next, context):
        return next()


class ReqMissing(Middleware):
    def request(self, next, nobody_has_this):
        return next()


class EpMissing(Middleware):
    def endpoint(self, next, nobody_has_this):
        return next()


class RnMissing(Middleware):
    def render(self, next, nobody_has_this):
        return next()


class ProvidesX(Middleware):
    provides = ('x',)

    def request(self, next):
        return next(x='ex')


class EpProvidesX(Middleware):
    endpoint_provides = ('x',)

    def endpoint(self, next):
        return next(x='ep-ex')


class RnProvidesX(Middleware):
    render_provides = ('x',)

    def render(self, next):
        return next(x='rn-ex')


class ReqNeedsX(Middleware):
    def request(self, next, x):
        return next()


expect(NameError, lambda: Application([('/', ep, render)], middlewares=[ReqCtx()]),
       'unresolved request middleware arguments', 'context')
expect(NameError, lambda: Application([('/', ep, render)], middlewares=[EpCtx()]),
       'unresolved endpoint middleware arguments', 'context')
Application([('/', ep, render)], middlewares=[RnCtx()])
expect(NameError, lambda: Application([('/', lambda context: {}, render)]),
       'unresolved endpoint middleware arguments', 'context')
expect(NameError, lambda: Application([Route('/', ep, render, middlewares=[ReqCtx()])]),
       'unresolved request')
expect(NameError, lambda: Application([('/', ep, render)], middlewares=[ReqMissing()]),
       "unresolved request middleware arguments: ['nobody_has_this']")
expect(NameError, lambda: Application([('/', ep, render)], middlewares=[EpMissing()]),
       "unresolved endpoint middleware arguments: ['nobody_has_this']")
expect(NameError, lambda: Application([('/', ep, render)], middlewares=[RnMissing()]),
       "unresolved render middleware arguments: ['nobody_has_this']")
expect(NameError, lambda: Application([('/', ep_x, render)]),
       "unresolved endpoint middleware arguments: ['x']")
expect(NameError, lambda: Application([('/', ep, lambda context, x: None)]),
       "unresolved render middleware arguments: ['x']")

# endpoint_provides / render_provides arrive too late for earlier phases
expect(NameError, lambda: Application([('/', ep, render)],
                                      middlewares=[EpProvidesX(), ReqNeedsX()]),
       'unresolved request')
expect(NameError, lambda: Application([('/', ep_x, render)], middlewares=[RnProvidesX()]),
       'unresolved endpoint')
# order matters inside a phase
expect(NameError, lambda: Application([('/', ep, render)],
                                      middlewares=[ReqNeedsX(), ProvidesX()]),
       'unresolved request')
Application([('/', ep, render)], middlewares=[ProvidesX(), ReqNeedsX()])

# next in endpoint / render
expect(NameError, lambda: Application([('/', lambda next: {}, render)]),
       "argument 'next' reserved for middleware use only")
expect(NameError, lambda: Application([('/', ep, lambda next, context: None)]),
       "argument 'next' reserved for middleware use only")
expect(NameError, lambda: Application([('/', lambda request, next=None: {}, render)]),
       "argument 'next' reserved")

# direct use of make_middleware_chain: every builtin except context/next
# is available everywhere
for name in RESERVED_ARGS:
    ns = {}
    exec('def ep_b(%s):\n    return {}' % name, ns)
    ep_b = ns['ep_b']
    if name == 'next':
        expect(NameError, lambda: make_middleware_chain([], ep_b, render, RESERVED_ARGS),
               'reserved for middleware use only')
    elif name == 'context':
        expect(NameError, lambda: make_middleware_chain([], ep_b, render, RESERVED_ARGS),
               'unresolved endpoint')
    else:
        ok(callable(make_middleware_chain([], ep_b, render, RESERVED_ARGS)))

# ---------------------------------------------------------- conflicts
class AlsoProvidesX(Middleware):
    provides = ('x',)

    def request(self, next):
        return next(x='other')


expect(NameError, lambda: Application([('/', ep_x, render)],
                                      middlewares=[ProvidesX(), AlsoProvidesX()]),
       'found conflicting provides')
expect(NameError, lambda: Application([('/', ep_x, render)],
                                      middlewares=[ProvidesX(), EpProvidesX()]),
       'found conflicting provides')
expect(NameError, lambda: Application([('/<x>', ep_x, render)], middlewares=[ProvidesX()]),
       'found conflicting provides')
expect(NameError, lambda: Application([('/', ep_x, render)], resources={'x': 1},
                                      middlewares=[RnProvidesX()]),
       'found conflicting provides')
expect(NameError, lambda: Application([('/<x>', ep_x, render)], resources={'x': 1}),
       'found conflicting provides')
for name in RESERVED_ARGS:
    expect(NameError, lambda: Application([('/', ep, render)], resources={name: 1}),
           'resource names conflict with builtins')
    expect(NameError, lambda: Application([('/<%s>' % name, ep, render)]),
           'found conflicting provides')

# ---------------------------------------------------------- a valid app works
app = Application([('/', ep_x, render_basic),
                   ('/<y>', lambda x, y, z, w=5: {'x': x, 'y': y, 'z': z, 'w': w}, render_basic)],
                  resources={'z': 'zed'}, middlewares=[ProvidesX(), ReqNeedsX(), RnCtx()])
cl = app.get_local_client()
resp = cl.get('/')
ok(resp.status_code == 200 and b'ex' in resp.data, resp.data)
resp = cl.get('/why')
ok(resp.status_code == 200 and b'why' in resp.data and b'zed' in resp.data, resp.data)

print('PASS (%d checks)' % CHECKS[0])
