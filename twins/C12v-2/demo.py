# -*- coding: utf-8 -*-
"""demo2: C12 (concurrent requests on one Application do not interfere),
with emphasis on middleware.core.make_middleware_chain -- the function
that sorts the middlewares' request/endpoint/render functions and their
provides into the three nested chains every request runs through.

Prints PASS and exits 0 on success.
"""
import os
import sys
import threading

sys.path.insert(0, os.path.dirname(os.path.abspath(__file__)))

import clastic
assert os.path.dirname(os.path.abspath(clastic.__file__)).startswith(
    os.path.dirname(os.path.abspath(__file__))), clastic.__file__

from werkzeug.test import Client
from werkzeug.wrappers import Response

from clastic import Application, Middleware, Route, GET, POST
from clastic.errors import NotFound
from clastic.middleware.core import make_middleware_chain


# ---------------------------------------------------------------- part A
# make_middleware_chain called directly

TRACE = []


class ReqOnly(Middleware):
    provides = ('a',)

    def request(self, next, base):
        TRACE.append('ReqOnly.request')
        return next(a=base + ':a')


class EpOnly(Middleware):
    endpoint_provides = ('b',)

    def endpoint(self, next, a):
        TRACE.append('EpOnly.endpoint')
        return next(b=a + ':b')


class RnOnly(Middleware):
    render_provides = ('c',)

    def render(self, next, context, a):
        TRACE.append('RnOnly.render')
        return next(c='c(' + a + ')')


class AllThree(Middleware):
    provides = ('r1',)
    endpoint_provides = ('e1',)
    render_provides = ('n1',)

    def request(self, next, base):
        TRACE.append('AllThree.request')
        return next(r1='r1<' + base + '>')

    def endpoint(self, next, r1):
        TRACE.append('AllThree.endpoint')
        return next(e1='e1<' + r1 + '>')

    def render(self, next, context):
        TRACE.append('AllThree.render')
        return next(n1='n1<' + context + '>')


class Nothing(Middleware):
    pass


class FalsyRequest(Middleware):
    "a falsy request attribute is skipped, and so are its provides"
    request = 0
    provides = ('never',)


class NoEndpointAttr(object):
    "not a Middleware: lacks the endpoint attribute altogether"
    request = None
    provides = ()


def ep_full(base, a, b, r1, e1):
    TRACE.append('endpoint')
    return '|'.join([base, a, b, r1, e1])


def rn_full(context, c, n1, base):
    TRACE.append('render')
    return 'R[%s / %s / %s / %s]' % (context, c, n1, base)


def ep_min(base):
    return 'ctx-' + base


def rn_min(context):
    return 'R[' + context + ']'


def expect_error(exc_type, fragment, *args):
    try:
        make_middleware_chain(*args)
    except exc_type as e:
        assert type(e) is exc_type, type(e)
        assert fragment in str(e), (fragment, str(e))
    else:
        raise AssertionError('expected %s (%s)' % (exc_type.__name__, fragment))


def check_make_middleware_chain():
    mws = (AllThree(), Nothing(), ReqOnly(), EpOnly(), FalsyRequest(), RnOnly())
    for seq in (mws, list(mws)):
        chain = make_middleware_chain(seq, ep_full, rn_full, set(['base']))
        del TRACE[:]
        out = chain(base='B')
        assert out == ('R[B|B:a|B:a:b|r1<B>|e1<r1<B>> / c(B:a) / '
                       'n1<B|B:a|B:a:b|r1<B>|e1<r1<B>>> / B]'), out
        assert TRACE == ['AllThree.request', 'ReqOnly.request',
                         'AllThree.endpoint', 'EpOnly.endpoint', 'endpoint',
                         'AllThree.render', 'RnOnly.render', 'render'], TRACE
        try:
            chain()
        except TypeError:
            pass
        else:
            raise AssertionError('base is required')

    # a Response from the endpoint short-cuts the render chain
    def ep_resp(base):
        return Response('direct-' + base)
    chain = make_middleware_chain(mws, ep_resp, rn_full, ['base'])
    del TRACE[:]
    resp = chain(base='Q')
    assert isinstance(resp, Response) and resp.get_data(as_text=True) == 'direct-Q'
    assert TRACE == ['AllThree.request', 'ReqOnly.request',
                     'AllThree.endpoint', 'EpOnly.endpoint'], TRACE

    # no middlewares at all, or only middlewares without functions
    for seq in ((), [], (Nothing(),), [Nothing(), FalsyRequest()]):
        chain = make_middleware_chain(seq, ep_min, rn_min, ('base', 'unused'))
        assert chain(base='x') == 'R[ctx-x]'

    # one kind only
    chain = make_middleware_chain([ReqOnly()], lambda a: a + '!', rn_min, ['base'])
    assert chain(base='k') == 'R[k:a!]'
    chain = make_middleware_chain([ReqOnly(), EpOnly()], lambda b: b + '!', rn_min, ['base'])
    assert chain(base='k') == 'R[k:a:b!]'
    chain = make_middleware_chain([ReqOnly(), RnOnly()], ep_min,
                                  lambda context, c: context + '+' + c, ['base'])
    assert chain(base='k') == 'ctx-k+c(k:a)'

    # provides are only visible to the phases they are meant for
    expect_error(NameError, 'unresolved endpoint middleware arguments',
                 mws, lambda c: c, rn_min, ['base'])            # render_provides
    expect_error(NameError, 'unresolved render middleware arguments',
                 mws, ep_min, lambda context, b: b, ['base'])   # endpoint_provides
    expect_error(NameError, "['never']",
                 mws, lambda never: never, rn_min, ['base'])    # skipped mw
    expect_error(NameError, 'unresolved request middleware arguments',
                 [ReqOnly()], lambda a: a, rn_min, [])          # base missing
    expect_error(NameError, 'unresolved endpoint middleware arguments',
                 [EpOnly()], ep_min, rn_min, ['base'])          # mw needs a
    expect_error(NameError, "argument 'next' reserved",
                 mws, lambda next: next, rn_min, ['base'])
    expect_error(NameError, "argument 'next' reserved",
                 mws, ep_min, lambda context, next: next, ['base'])
    expect_error(AttributeError, 'endpoint',
                 [NoEndpointAttr()], ep_min, rn_min, ['base'])
    expect_error(TypeError, '', None, ep_min, rn_min, ['base'])


# ---------------------------------------------------------------- part B
# concurrent requests on one application

class TokenMW(Middleware):
    provides = ('token',)

    def request(self, next, request):
        return next(token='tok-' + request.args.get('t', 'none'))


class StampMW(Middleware):
    endpoint_provides = ('stamp',)
    render_provides = ('suffix',)

    def endpoint(self, next, request):
        return next(stamp=request.path.upper())

    def render(self, next, context, request):
        return next(suffix='/' + request.method.lower())


class CallableEndpoint(object):
    def __call__(self, request, name, token, greeting):
        return {'kind': 'callable', 'name': name, 'token': token,
                'greeting': greeting}


class Endpoints(object):
    def echo(self, request, name, num, token, stamp, _route, _dispatch_state):
        assert request.path_params == {'name': name, 'num': num}
        assert not _dispatch_state.exceptions
        return {'kind': 'echo', 'name': name, 'num': num, 'token': token,
                'stamp': stamp, 'pattern': _route.pattern}


def post_ep(request, token):
    return {'kind': 'post', 'body': request.get_data(as_text=True),
            'token': token}


def fall_first(x):
    raise NotFound(is_breaking=False, detail='first:' + x)


def fall_second(x, _dispatch_state, token):
    excs = _dispatch_state.exceptions
    assert len(excs) == 1 and excs[0].detail == 'first:' + x, excs
    return {'kind': 'fall', 'x': x, 'token': token}


def boom(x):
    raise ValueError('boom-' + x)


def direct(x, stamp):
    return Response('direct:%s:%s' % (x, stamp), status=202,
                    mimetype='text/plain')


def branch(token):
    return {'kind': 'branch', 'token': token}


def render_ctx(context, suffix, request):
    body = ';'.join('%s=%s' % kv for kv in sorted(context.items()))
    resp = Response(body + suffix, mimetype='text/plain')
    resp.headers['X-Req-Id'] = str(request.request_id)
    resp.headers['X-Req-Guid'] = request.request_guid
    return resp


def make_app():
    eps = Endpoints()
    routes = [GET('/echo/<name>/<num:int>', eps.echo, render_ctx),
              POST('/post', post_ep, render_ctx),
              Route('/call/<name>', CallableEndpoint(), render_ctx),
              Route('/fall/<x>', fall_first, render_ctx),
              Route('/fall/<x>', fall_second, render_ctx),
              Route('/boom/<x>', boom, render_ctx),
              Route('/direct/<x>', direct, render_ctx),
              Route('/dir/', branch, render_ctx)]
    return Application(routes, resources={'greeting': 'hi'},
                       middlewares=[TokenMW(), StampMW()])


def fetch(client, spec):
    method, path, data = spec
    resp = client.open(path, method=method, data=data)
    headers = dict(resp.headers)
    req_id = headers.pop('X-Req-Id', None)
    guid = headers.pop('X-Req-Guid', None)
    headers.pop('Content-Length', None)
    return (resp.status_code, sorted(headers.items()),
            resp.get_data(as_text=True)), req_id, guid


def specs_for(i):
    n = 'n%d' % i
    return [('GET', '/echo/%s/%d?t=%s' % (n, i, n), None),
            ('POST', '/post?t=p%d' % i, 'payload-%d' % i),
            ('POST', '/echo/%s/%d' % (n, i), None),          # 405
            ('GET', '/call/%s?t=c%d' % (n, i), None),
            ('GET', '/fall/f%d?t=%s' % (i, n), None),        # fallthrough
            ('GET', '/boom/b%d' % i, None),                  # 500
            ('GET', '/direct/d%d' % i, None),
            ('GET', '/dir?t=%d&x=%s' % (i, n), None),        # redirect
            ('GET', '/dir/?t=%d' % i, None),
            ('GET', '/missing/%s' % n, None),                # 404
            ('GET', '/echo/%s/notanint' % n, None)]          # 404


def check_concurrent(n_threads=4, rounds=40):
    app = make_app()
    expected = {}
    seen_ids = []
    for i in range(n_threads):
        for spec in specs_for(i):
            first, rid, guid = fetch(Client(app, Response), spec)
            again, rid2, guid2 = fetch(Client(app, Response), spec)
            assert first == again, (spec, first, again)
            expected[spec] = first
            seen_ids.extend([x for x in (rid, rid2) if x is not None])
            assert (rid is None) == (guid is None)
            if rid is not None:
                assert guid != guid2 and len(guid) == 24

    statuses = sorted(set(v[0] for v in expected.values()))
    assert statuses == [200, 202, 302, 404, 405, 500] or \
        statuses == [200, 202, 301, 404, 405, 500], statuses
    sample = expected[('GET', '/echo/n1/1?t=n1', None)]
    assert sample[2] == ('kind=echo;name=n1;num=1;pattern=/echo/<name>/<num:int>;'
                         'stamp=/ECHO/N1/1;token=tok-n1/get'), sample
    assert expected[('GET', '/call/n2?t=c2', None)][2] == \
        'greeting=hi;kind=callable;name=n2;token=tok-c2/get'
    assert expected[('GET', '/fall/f3?t=n3', None)][2] == \
        'kind=fall;token=tok-n3;x=f3/get'
    assert expected[('POST', '/post?t=p0', 'payload-0')][2] == \
        'body=payload-0;kind=post;token=tok-p0/post'
    assert expected[('GET', '/direct/d0', None)][2] == 'direct:d0:/DIRECT/D0'
    loc = dict(expected[('GET', '/dir?t=1&x=n1', None)][1])['Location']
    assert loc.endswith('/dir/?t=1&x=n1'), loc

    errors = []
    ids = [[] for _ in range(n_threads)]
    barrier = threading.Barrier(n_threads)

    def worker(i):
        try:
            client = Client(app, Response)
            specs = specs_for(i)
            barrier.wait()
            for r in range(rounds):
                for spec in (specs if r % 2 == 0 else reversed(specs)):
                    got, rid, guid = fetch(client, spec)
                    if got != expected[spec]:
                        errors.append((spec, got, expected[spec]))
                    if rid is not None:
                        ids[i].append(rid)
        except Exception as e:  # pragma: no cover
            errors.append(('exception', i, repr(e)))

    old = sys.getswitchinterval()
    sys.setswitchinterval(1e-6)
    try:
        threads = [threading.Thread(target=worker, args=(i,))
                   for i in range(n_threads)]
        for t in threads:
            t.start()
        for t in threads:
            t.join()
    finally:
        sys.setswitchinterval(old)

    assert not errors, errors[:3]
    all_ids = seen_ids + [x for per in ids for x in per]
    assert len(all_ids) == len(set(all_ids)), 'duplicate request ids'
    # five of the eleven specs reach render_ctx and report their id
    assert all(len(per) == rounds * 5 for per in ids), [len(p) for p in ids]
    return len(all_ids)


if __name__ == '__main__':
    check_make_middleware_chain()
    n = check_concurrent()
    assert n > 0
    print('PASS')
