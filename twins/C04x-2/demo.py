# -*- coding: utf-8 -*-
"""Demo for property C04: name conflicts / reserved-name misuse are rejected
at construction time (Application(...) / Route.bind(...)), with NameError
(or TypeError for malformed middleware functions)."""
import os
import sys

sys.path.insert(0, os.path.dirname(os.path.abspath(__file__)))

import clastic
from clastic import Application, Route, SubApplication, Middleware, RESERVED_ARGS
from clastic.route import RESERVED_ARGS as ROUTE_RESERVED
from clastic.route import _REQUEST_BUILTINS, _RENDER_BUILTINS
from clastic.application import RESERVED_ARGS as APP_RESERVED
from clastic.middleware import (check_middlewares, merge_middlewares,
                                make_middleware_chain)
from clastic.middleware.core import check_middleware, _INNER_NAME

assert os.path.dirname(clastic.__file__).startswith(
    os.path.dirname(os.path.abspath(__file__)))

CHECKS = [0]


def raises(exc_type, func, *a, **kw):
    CHECKS[0] += 1
    try:
        func(*a, **kw)
    except Exception as e:
        assert type(e) is exc_type, (type(e), exc_type, e)
        return str(e)
    raise AssertionError('expected %s from %r %r' % (exc_type.__name__, a, kw))


def ok(func, *a, **kw):
    CHECKS[0] += 1
    return func(*a, **kw)


def render_basic(context):
    return clastic.Response(repr(context))


def ep():
    return {}


def mk_mw(name='MW', provides=(), endpoint_provides=(), render_provides=(),
          request=None, endpoint=None, render=None, **attrs):
    ns = dict(provides=provides, endpoint_provides=endpoint_provides,
              render_provides=render_provides)
    if request:
        ns['request'] = request
    if endpoint:
        ns['endpoint'] = endpoint
    if render:
        ns['render'] = render
    ns.update(attrs)
    return type(name, (Middleware,), ns)()


def req_a(self, next):
    return next(a=1)


def req_b(self, next):
    return next(b=2)


def ep_a(self, next):
    return next(a=1)


def rn_a(self, next, context):
    return next(a=1)


# --- constants ------------------------------------------------------------
assert RESERVED_ARGS is ROUTE_RESERVED is APP_RESERVED
assert RESERVED_ARGS == ('request', '_application', '_route',
                         '_dispatch_state', 'context', 'next')
assert type(RESERVED_ARGS) is tuple
assert _REQUEST_BUILTINS == ('request', '_application', '_route', '_dispatch_state')
assert _RENDER_BUILTINS == _REQUEST_BUILTINS + ('context',)
assert _INNER_NAME == 'next'

# --- reserved names as resources (application level) -----------------------
for name in RESERVED_ARGS:
    msg = raises(NameError, Application, [], {name: 1})
    assert msg == 'resource names conflict with builtins: %r' % [name], msg
msg = raises(NameError, Application, [], {'next': 0, 'x': 1, 'request': None, 'context': ''})
assert msg == "resource names conflict with builtins: ['request', 'context', 'next']", msg
all_reserved = dict.fromkeys(reversed(RESERVED_ARGS), 0)
msg = raises(NameError, Application, [], all_reserved)
assert msg == 'resource names conflict with builtins: %r' % list(RESERVED_ARGS), msg
ok(Application, [], {'Request': 1, 'nexts': 2, '_routes': 3, '': 4})
ok(Application, [], None)
ok(Application, [], {})

# --- reserved names as route-level resources / url bindings ----------------
for name in RESERVED_ARGS:
    rt = Route('/', ep, render_basic, resources={name: 1})
    msg = raises(NameError, Application, [rt])
    assert msg.startswith('found conflicting provides: '), msg
    assert repr(name) in msg and "'builtins'" in msg and "'resources'" in msg
    msg = raises(NameError, Application, [('/<%s>' % name, ep, render_basic)])
    assert msg.startswith('found conflicting provides: '), msg
    assert repr(name) in msg and "'builtins'" in msg and "'url'" in msg

# --- url vs resource --------------------------------------------------------
msg = raises(NameError, Application, [('/<thing>', ep, render_basic)], {'thing': 1})
assert "'thing'" in msg and "'url'" in msg and "'resources'" in msg
rt = Route('/<thing>', ep, render_basic, resources={'thing': 1})
raises(NameError, Application, [rt])
ok(Application, [('/<thing>', ep, render_basic)], {'other': 1})

# --- middleware vs everything ------------------------------------------------
for kw in ({'provides': ('a',), 'request': req_a},
           {'endpoint_provides': ('a',), 'endpoint': ep_a},
           {'render_provides': ('a',), 'render': rn_a}):
    mw = mk_mw('MWA', **kw)
    ok(Application, [('/', ep, render_basic)], {}, [mw])
    # vs resource (app-level passes the app check, fails at bind time)
    raises(NameError, Application, [('/', ep, render_basic)], {'a': 1}, [mw])
    raises(NameError, Application, [], {'a': 1}, [mw])  # the null route alone catches it
    # vs url
    raises(NameError, Application, [('/<a>', ep, render_basic)], {}, [mw])
    # vs itself in another phase
    for kw2 in ({'provides': ('a',), 'request': req_a},
                {'endpoint_provides': ('a',), 'endpoint': ep_a},
                {'render_provides': ('a',), 'render': rn_a}):
        mw2 = mk_mw('MWB', **kw2)
        msg = raises(NameError, Application, [], {}, [mw, mw2])
        assert msg.startswith("found conflicting provides: [('a', ("), msg
        raises(NameError, Application, [], {}, [mw2, mw])
        # route level vs application level
        rt = Route('/', ep, render_basic, middlewares=[mw2])
        raises(NameError, Application, [rt], {}, [mw])
        # embedded
        sub = SubApplication('/sub', Application([('/', ep, render_basic)], {}, [mw2]))
        raises(NameError, Application, [sub], {}, [mw])
    # vs builtin
    for name in RESERVED_ARGS:
        kwb = dict((k, ((name,) if k.endswith('provides') else v)) for k, v in kw.items())
        mwb = mk_mw('MWR', **kwb)
        # application-level check alone does not know builtins ...
        assert check_middlewares([mwb]) is True
        # ... but the null route bound in Application.__init__ does
        msg = raises(NameError, Application, [], {}, [mwb])
        assert "'builtins'" in msg and repr(name) in msg, msg

# same name twice inside one middleware (within and across phases)
raises(NameError, check_middlewares, [mk_mw('Dup', provides=('a', 'a'), request=req_a)])
raises(NameError, check_middlewares,
       [mk_mw('Dup2', provides=('a',), render_provides=('a',), request=req_a)])

# --- check_middlewares direct: structure of the conflict report -------------
m1 = mk_mw('M1', provides=('x', 'y'), endpoint_provides=('z',), render_provides=('w',))
m2 = mk_mw('M2', provides=('y',), endpoint_provides=('x',), render_provides=('q',))
try:
    check_middlewares([m1, m2], {'url': ['z', 'u'], 'builtins': ('u',), 'resources': set()})
except NameError as e:
    expected = [('z', ('url', m1)), ('u', ('url', 'builtins')),
                ('x', (m1, m2)), ('y', (m1, m2))]
    assert str(e) == 'found conflicting provides: %r' % expected, str(e)
else:
    raise AssertionError('no conflict reported')
CHECKS[0] += 1
assert check_middlewares([]) is True
assert check_middlewares([], None) is True
assert check_middlewares([], {}) is True
assert check_middlewares([m1], {'url': ['k']}) is True
assert check_middlewares((m for m in [m1]), {'url': iter(['k'])}) is True
raises(NameError, check_middlewares, [], {'a': ['n'], 'b': ['n']})
raises(TypeError, check_middlewares, [mk_mw('Unhash', provides=(['l'],))])
raises(TypeError, check_middlewares, [mk_mw('NoIter', provides=None)])
raises(TypeError, check_middlewares, [mk_mw('NoIter2', endpoint_provides=5)])

# lazy attribute access order: provides is iterated before endpoint_provides
# is even looked up


class Touchy(Middleware):
    log = []

    @property
    def provides(self):
        self.log.append('provides')
        return ('p',)

    @property
    def endpoint_provides(self):
        self.log.append('endpoint_provides')
        raise RuntimeError('boom')


raises(RuntimeError, check_middlewares, [Touchy()])
assert Touchy.log == ['provides', 'endpoint_provides'], Touchy.log

# --- check_middleware: first parameter must be next -------------------------
for phase in ('request', 'endpoint', 'render'):
    bad = mk_mw('Bad', **{phase: lambda self, request, next: next()})
    msg = raises(TypeError, Application, [], {}, [bad])
    assert msg == ("middleware functions must take argument 'next' as the"
                   " first parameter (Bad.%s)" % phase), msg
    raises(TypeError, check_middleware, bad)
    noargs = mk_mw('NoArgs', **{phase: lambda self: None})
    raises(IndexError, check_middleware, noargs)
    notfunc = mk_mw('NotFunc', **{phase: 'a string'})
    msg = raises(TypeError, check_middleware, notfunc)
    assert msg == 'expected NotFunc.%s to be a function' % phase, msg
    for falsy in (None, 0, '', ()):
        assert check_middleware(mk_mw('Falsy', **{phase: None, 'x' + phase: 1})) is None
        mwf = mk_mw('Falsy2')
        setattr(mwf, phase, falsy)
        assert check_middleware(mwf) is None
    good = mk_mw('Good', **{phase: lambda self, next: next()})
    assert check_middleware(good) is None
    ok(Application, [('/', ep, render_basic)], {}, [good])
# order of evaluation: request is checked before endpoint before render
both = mk_mw('Both', request='nope', render=lambda self, nxt: None)
assert raises(TypeError, check_middleware, both) == 'expected Both.request to be a function'
both = mk_mw('Both', endpoint=lambda self, nxt: None, render='nope')
assert 'Both.endpoint' in raises(TypeError, check_middleware, both)

# --- next in endpoint / render ----------------------------------------------


def ep_next(next):
    return {}


def ep_next_default(request, next=None):
    return {}


def rn_next(context, next):
    return clastic.Response('x')


for bad_ep in (ep_next, ep_next_default):
    msg = raises(NameError, Application, [('/', bad_ep, render_basic)])
    assert msg == "argument 'next' reserved for middleware use only (%r)" % bad_ep, msg
msg = raises(NameError, Application, [('/', ep, rn_next)])
assert msg == "argument 'next' reserved for middleware use only (%r)" % rn_next, msg
# endpoint is reported before render
msg = raises(NameError, Application, [('/', ep_next, rn_next)])
assert msg == "argument 'next' reserved for middleware use only (%r)" % ep_next, msg
msg = raises(NameError, make_middleware_chain, [], ep_next, rn_next, set())
assert repr(ep_next) in msg
msg = raises(NameError, Route('/', ep_next, render_basic).bind, Application())
assert repr(ep_next) in msg

# --- context only in the render phase ---------------------------------------
mw_req_ctx = mk_mw('ReqCtx', request=lambda self, next, context: next())
mw_ep_ctx = mk_mw('EpCtx', endpoint=lambda self, next, context: next())
mw_rn_ctx = mk_mw('RnCtx', render=lambda self, next, context: next())
msg = raises(NameError, Application, [('/', ep, render_basic)], {}, [mw_req_ctx])
assert msg == "unresolved request middleware arguments: ['context']", msg
msg = raises(NameError, Application, [('/', ep, render_basic)], {}, [mw_ep_ctx])
assert msg == "unresolved endpoint middleware arguments: ['context']", msg
ok(Application, [('/', ep, render_basic)], {}, [mw_rn_ctx])
msg = raises(NameError, Application, [('/', lambda context: {}, render_basic)])
assert msg == "unresolved endpoint middleware arguments: ['context']", msg
msg = raises(NameError, Application, [('/', lambda nobody: {}, render_basic)])
assert msg == "unresolved endpoint middleware arguments: ['nobody']", msg
msg = raises(NameError, Application, [('/', ep, lambda context, nobody: None)])
assert msg == "unresolved render middleware arguments: ['nobody']", msg

# --- merge + uniqueness interplay, valid mixed configurations ---------------
same1 = mk_mw('Same', provides=('a',), request=req_a)
app = ok(Application, [Route('/<x>', lambda x, a, r: {}, render_basic, middlewares=[same1])],
         {'r': 1}, [same1])
assert len(app.routes[0].middlewares) == 1
mw_b = mk_mw('MWB2', provides=('b',), request=req_b)
app = ok(Application, [('/<x>/<y?int>', lambda x, y, a, b, res, request, _route: {'v': [x, y, a, b, res]},
                        render_basic)], {'res': 7}, [same1, mw_b, mw_rn_ctx])
from werkzeug.test import Client
resp = Client(app, clastic.Response).get('/q/3')
assert resp.status_code == 200 and resp.data == b"{'v': ['q', 3, 1, 2, 7]}", resp.data

# --- the generated process_request: kwargs hand-over and render bypass -------
from clastic.middleware.core import _create_request_inner
seen = []


def chain_ep(a, b):
    seen.append(('ep', a, b))
    return clastic.Response('direct') if a == 'resp' else {'a': a, 'b': b}


def chain_rn(context, b):
    seen.append(('rn', context, b))
    return 'rendered'


inner = _create_request_inner(chain_ep, chain_rn, ['a', 'b'], ['a', 'b'], ['context', 'b'])
assert inner.__name__ == 'process_request'
assert inner(1, 2) == 'rendered' and inner(b=4, a=3) == 'rendered'
assert inner('resp', 0).data == b'direct'
assert seen == [('ep', 1, 2), ('rn', {'a': 1, 'b': 2}, 2),
                ('ep', 3, 4), ('rn', {'a': 3, 'b': 4}, 4), ('ep', 'resp', 0)], seen
inner0 = _create_request_inner(lambda: 5, lambda context: context + 1, [], [], ['context'])
assert inner0() == 6
CHECKS[0] += 6

# full stack with middlewares in all three phases, provides flowing forward
order = []


class Full(Middleware):
    provides = ('from_req',)
    endpoint_provides = ('from_ep',)
    render_provides = ('from_rn',)

    def request(self, next, request, res):
        order.append('request')
        return next(from_req=res + 1)

    def endpoint(self, next, from_req):
        order.append('endpoint')
        return next(from_ep=from_req + 1)

    def render(self, next, context, from_req):
        order.append('render')
        return next(from_rn=from_req + 2)


def full_ep(from_req, from_ep, x):
    return {'x': x, 'vals': [from_req, from_ep]}


def full_rn(context, from_rn, from_req):
    return clastic.Response(repr((context, from_rn, from_req)))


app = ok(Application, [('/<x>', full_ep, full_rn)], {'res': 10}, [Full()])
resp = Client(app, clastic.Response).get('/k')
assert resp.data == b"({'x': 'k', 'vals': [11, 12]}, 13, 11)", resp.data
assert order == ['request', 'endpoint', 'render'], order
# from_rn is not available before the render phase, from_ep not in request
raises(NameError, Application, [('/', lambda from_rn: {}, full_rn)], {'res': 1}, [Full()])
ep_in_rn = mk_mw('EpInRn', endpoint_provides=('from_ep',), endpoint=lambda self, next: next(from_ep=1),
                 render=lambda self, next, from_ep: next())
msg = raises(NameError, Application, [('/', ep, render_basic)], {}, [ep_in_rn])
assert msg == "unresolved render middleware arguments: ['from_ep']", msg
bad_req = mk_mw('BadReq', provides=('q',), endpoint_provides=('from_ep',),
                request=lambda self, next, from_ep: next(q=1),
                endpoint=lambda self, next: next(from_ep=1))
msg = raises(NameError, Application, [('/', ep, render_basic)], {}, [bad_req])
assert msg == "unresolved request middleware arguments: ['from_ep']", msg

assert CHECKS[0] > 100, CHECKS[0]
print('checks:', CHECKS[0])
print('PASS')
