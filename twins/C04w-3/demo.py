# -*- coding: utf-8 -*-
"""demo3: name conflicts / reserved-name misuse are rejected at construction.

Emphasis of this demo: check_middleware / check_middlewares themselves --
reachable through every import path that worked before, called directly
with edge-case arguments (empty / None / generator inputs, falsy and
non-callable phase attributes, bound methods, callable objects), and
exercised through Application / Route.bind / SubApplication.
"""
import sys
import warnings

warnings.simplefilter('ignore')

from clastic import Application, Route, SubApplication, Middleware
from clastic.route import RESERVED_ARGS, BoundRoute
from clastic.middleware import check_middlewares

ALL_RESERVED = ('request', '_application', '_route', '_dispatch_state',
                'context', 'next')
assert tuple(RESERVED_ARGS) == ALL_RESERVED, RESERVED_ARGS


def expect(exc_type, func, *a, **kw):
    try:
        func(*a, **kw)
    except Exception as e:
        assert type(e) is exc_type, ('expected %r, got %r'
                                     % (exc_type, e))
        return str(e)
    raise AssertionError('expected %s, nothing raised' % exc_type.__name__)


def ok_ep():
    return {}


def ok_render(context):
    from werkzeug.wrappers import Response
    return Response(repr(sorted(context.items())))


def mw_of(**attrs):
    return type('GenMW', (Middleware,), attrs)()


def req_next(self, next):
    return next()


# ---------------------------------------------------------------- valid
class ProvMW(Middleware):
    provides = ('a',)
    endpoint_provides = ('b',)
    render_provides = ('c',)

    def request(self, next):
        return next(a=1)

    def endpoint(self, next, a):
        return next(b=a + 1)

    def render(self, next, context, a):
        return next(c=a + 2)


def ep_abc(a, b, x, res, request, _route, _application, _dispatch_state):
    return {'a': a, 'b': b, 'x': x, 'res': res}


def rn_abc(context, c):
    from werkzeug.wrappers import Response
    return Response('%r|%r' % (sorted(context.items()), c))


app = Application([('/<x>', ep_abc, rn_abc)], resources={'res': 'R'},
                  middlewares=[ProvMW()])
resp = app.get_local_client().get('/xv')
assert resp.status_code == 200, resp.status_code
assert resp.get_data(True) == \
    "[('a', 1), ('b', 2), ('res', 'R'), ('x', 'xv')]|3", resp.get_data(True)
br = app.routes[0]
assert isinstance(br, BoundRoute)
assert br.get_required_args() == ['a', 'b', 'x', 'res'], br.get_required_args()

# ------------------------------------------------ url / resource / builtin
msg = expect(NameError, Application, [('/<a>', ok_ep, ok_render)],
             resources={'a': 1})
assert msg == "found conflicting provides: [('a', ('url', 'resources'))]", msg

msg = expect(NameError, Application,
             [Route('/<a>', ok_ep, ok_render, resources={'a': 1})])
assert msg == "found conflicting provides: [('a', ('url', 'resources'))]", msg

for name in ALL_RESERVED:
    # reserved name as URL binding
    msg = expect(NameError, Application, [('/<%s>' % name, ok_ep, ok_render)])
    assert msg == ("found conflicting provides: [(%r, ('url', 'builtins'))]"
                   % name), msg
    # reserved name as application resource
    msg = expect(NameError, Application, [('/', ok_ep, ok_render)],
                 resources={name: 1})
    assert msg == 'resource names conflict with builtins: %r' % [name], msg
    msg = expect(NameError, Application, [], resources={name: 1})
    # reserved name as route-level resource
    msg = expect(NameError, Application,
                 [Route('/', ok_ep, ok_render, resources={name: 1})])
    assert msg == ("found conflicting provides: "
                   "[(%r, ('builtins', 'resources'))]" % name), msg
    # ... also when embedded
    sub = Application([])
    sub.routes.append(Route('/', ok_ep, ok_render, resources={name: 1}))
    expect(NameError, Application, [SubApplication('/sub', sub)])

# all three at once: one name from url + builtins + (route) resources
msg = expect(NameError, Application,
             [Route('/<request>', ok_ep, ok_render, resources={'request': 1})])
assert msg == ("found conflicting provides: "
               "[('request', ('url', 'builtins', 'resources'))]"), msg

# ------------------------------------------ middleware against each source
for attr in ('provides', 'endpoint_provides', 'render_provides'):
    # mw / url
    mw = mw_of(**{attr: ('x',), 'request': req_next})
    msg = expect(NameError, Application, [('/<x>', ok_ep, ok_render)],
                 middlewares=[mw])
    assert msg == ("found conflicting provides: [('x', ('url', %r))]"
                   % mw), msg
    expect(NameError, Application,
           [Route('/<x>', ok_ep, ok_render, middlewares=[mw])])
    # mw / resource (app level and route level)
    expect(NameError, Application, [('/', ok_ep, ok_render)],
           middlewares=[mw], resources={'x': 1})
    expect(NameError, Application,
           [Route('/', ok_ep, ok_render, middlewares=[mw],
                  resources={'x': 1})])
    # but no conflict -> fine, even without routes
    Application([('/', ok_ep, ok_render)], middlewares=[mw])
    msg = expect(NameError, Application, [], middlewares=[mw],
                 resources={'x': 1})  # caught when the null route is bound
    assert msg == ("found conflicting provides: [('x', ('resources', %r))]"
                   % mw), msg
    # mw / builtin
    for name in ALL_RESERVED:
        mwb = mw_of(**{attr: (name,), 'request': req_next})
        msg = expect(NameError, Application, [('/', ok_ep, ok_render)],
                     middlewares=[mwb])
        assert msg == ("found conflicting provides: [(%r, ('builtins', %r))]"
                       % (name, mwb)), msg
    # mw / mw, across all phase pairs, app-level vs route-level
    for attr2 in ('provides', 'endpoint_provides', 'render_provides'):
        mw1 = type('MW1', (Middleware,), {attr: ('z',), 'request': req_next})()
        mw2 = type('MW2', (Middleware,), {attr2: ('z',), 'request': req_next})()
        expect(NameError, Application, [('/', ok_ep, ok_render)],
               middlewares=[mw1, mw2])
        expect(NameError, Application, [], middlewares=[mw1, mw2])
        expect(NameError, Application,
               [Route('/', ok_ep, ok_render, middlewares=[mw2])],
               middlewares=[mw1])
        sub = Application([Route('/', ok_ep, ok_render, middlewares=[mw2])])
        expect(NameError, Application, [SubApplication('/s', sub)],
               middlewares=[mw1])
        if attr != attr2:
            # within one middleware, two phases
            mw3 = mw_of(**{attr: ('z',), attr2: ('z',), 'request': req_next})
            expect(NameError, Application, [], middlewares=[mw3])
    # within one provides tuple
    mw4 = mw_of(**{attr: ('z', 'z'), 'request': req_next})
    expect(NameError, Application, [], middlewares=[mw4])

# ------------------------------------------------ misplaced next / context
for phase in ('request', 'endpoint', 'render'):
    bad_first = mw_of(**{phase: lambda self, request, next: next()})
    expect(TypeError, Application, [], middlewares=[bad_first])
    expect(TypeError, Application,
           [Route('/', ok_ep, ok_render, middlewares=[bad_first])])
    no_args = mw_of(**{phase: lambda self: None})
    expect(IndexError, Application, [], middlewares=[no_args])
    not_callable = mw_of(**{phase: 'nope'})
    expect(TypeError, Application, [], middlewares=[not_callable])
    falsy = mw_of(**{phase: 0})
    Application([('/', ok_ep, ok_render)], middlewares=[falsy])

expect(NameError, Application, [('/', lambda next: {}, ok_render)])
expect(NameError, Application, [('/', lambda request, next=None: {}, ok_render)])
expect(NameError, Application, [('/', ok_ep, lambda context, next: context)])
expect(NameError, Application, [('/', ok_ep, lambda next: None)])
# context outside the render phase
expect(NameError, Application, [('/', lambda context: {}, ok_render)])
expect(NameError, Application, [('/', ok_ep, ok_render)],
       middlewares=[mw_of(request=lambda self, next, context: next())])
expect(NameError, Application, [('/', ok_ep, ok_render)],
       middlewares=[mw_of(endpoint=lambda self, next, context: next())])
Application([('/', ok_ep, ok_render)],
            middlewares=[mw_of(render=lambda self, next, context: next())])
# unknown names
expect(NameError, Application, [('/', lambda nobody: {}, ok_render)])
expect(NameError, Application, [('/', ok_ep, lambda context, nobody: None)])
# defaulted 'context' in an endpoint is optional, thus fine
Application([('/', lambda context=None: {}, ok_render)])

# ---------------------------------------- check_middlewares called directly
assert check_middlewares([]) is True
assert check_middlewares([], None) is True
assert check_middlewares(iter([ProvMW()]), {'url': ['q'], 'r': ('s',)}) is True
msg = expect(NameError, check_middlewares, [],
             {'one': ['k', 'k2'], 'two': ('k',)})
assert msg == "found conflicting provides: [('k', ('one', 'two'))]", msg
msg = expect(NameError, check_middlewares, [], {'one': ['k', 'k']})
assert msg == "found conflicting provides: [('k', ('one', 'one'))]", msg

# public import paths
from clastic.route import RESERVED_ARGS as R1, _REQUEST_BUILTINS, _RENDER_BUILTINS
from clastic.application import RESERVED_ARGS as R2
from clastic import RESERVED_ARGS as R3
from clastic.meta import RESERVED_ARGS as R4
assert R1 is R2 is R3 is R4
assert _RENDER_BUILTINS == _REQUEST_BUILTINS + ('context',)
from clastic.middleware.core import (check_middleware, check_middlewares as cm2,
                                     merge_middlewares, make_middleware_chain,
                                     _INNER_NAME)
assert cm2 is check_middlewares and _INNER_NAME == 'next'
assert check_middleware(ProvMW()) is None

# ----------------------------------------------- import paths and identity
import clastic.middleware as mw_pkg
import clastic.middleware.core as mw_core
import clastic.route as route_mod
import clastic.application as app_mod

assert mw_pkg.check_middlewares is mw_core.check_middlewares
assert route_mod.check_middlewares is mw_core.check_middlewares
assert app_mod.check_middlewares is mw_core.check_middlewares
assert callable(mw_core.check_middleware)
assert callable(mw_core.merge_middlewares) and callable(mw_core.Middleware)
assert not hasattr(mw_pkg, 'check_middleware') or \
    mw_pkg.check_middleware is mw_core.check_middleware
try:
    from clastic.middleware import _checks
except ImportError:
    _checks = None
if _checks is not None:
    assert _checks.check_middleware is mw_core.check_middleware
    assert _checks.check_middlewares is mw_core.check_middlewares

# ------------------------------------------------- check_middleware directly
cm = mw_core.check_middleware


class Plain(Middleware):
    pass


assert cm(Plain()) is None            # no phase functions at all


class CallableObj(object):
    def __call__(self, next, request):
        return next()


class BadCallableObj(object):
    def __call__(self, request, next):
        return next()


class ObjMW(Middleware):
    request = CallableObj()
    endpoint = staticmethod(lambda next: next())


assert cm(ObjMW()) is None


class BadObjMW(Middleware):
    render = BadCallableObj()


msg = expect(TypeError, cm, BadObjMW())
assert msg == ("middleware functions must take argument 'next' as the first"
               " parameter (BadObjMW.render)"), msg
msg = expect(TypeError, cm, mw_of(endpoint=42))
assert msg == 'expected GenMW.endpoint to be a function', msg
# the first offending phase (request, endpoint, render order) is reported
msg = expect(TypeError, cm, mw_of(render='x', request=lambda self, nxt: 1))
assert msg.endswith('(GenMW.request)'), msg
# 'next' must be first, being present is not enough; defaulted next is fine
expect(TypeError, cm, mw_of(request=lambda self, request, next: 1))
assert cm(mw_of(request=lambda self, next=None: 1)) is None
# *args-only functions have no named first parameter
expect(IndexError, cm, mw_of(request=lambda self, *a, **kw: 1))
# anything without a .name still fails with the attribute lookup
class NotAMW(object):
    request = 5
expect(AttributeError, cm, NotAMW())

# ------------------------------------------------ check_middlewares directly
cms = mw_core.check_middlewares
assert cms(()) is True and cms([], {}) is True and cms([], {'url': ()}) is True
assert cms(iter([Plain(), ObjMW()]), {'a': iter(['n1']), 'b': 'xy'}) is True
# a string source offers one name per character
msg = expect(NameError, cms, [], {'a': 'xy', 'b': ['y']})
assert msg == "found conflicting provides: [('y', ('a', 'b'))]", msg
# several conflicts are reported together, in first-offered order
m1 = type('A', (Middleware,), {'provides': ('n2', 'n1')})()
m2 = type('B', (Middleware,), {'render_provides': ('n1',),
                               'endpoint_provides': ('n2',)})()
msg = expect(NameError, cms, [m1, m2], {'url': ['n1']})
assert msg == ("found conflicting provides: [('n1', ('url', %r, %r)), "
               "('n2', (%r, %r))]" % (m1, m2, m1, m2)), msg
# the shape check of a middleware wins over conflicts found so far
bad = mw_of(request=lambda self, request: 1, provides=('n1',))
expect(TypeError, cms, [m1, bad], {'url': ['n1']})
expect(TypeError, Application, [('/<n1>', ok_ep, ok_render)],
       middlewares=[m1, bad])
# provides that is not iterable
expect(TypeError, cms, [mw_of(provides=None)])
# a missing provides attribute on a non-Middleware object
class Duck(object):
    name = 'Duck'
expect(AttributeError, cms, [Duck()])

print('PASS')
sys.exit(0)
