# -*- coding: utf-8 -*-
"""demo2: name conflicts / reserved-name misuse are rejected at construction.

Emphasis of this demo: make_middleware_chain -- which names are available
in the request / endpoint / render phases ('next' and 'context' handling,
request-phase provides flowing on to later phases) and the NameErrors for
unresolved arguments, also when it is called directly.
"""
import sys
import warnings

warnings.simplefilter('ignore')

from clastic import Application, Route, SubApplication, Middleware
from clastic.route import RESERVED_ARGS, BoundRoute
from clastic.middleware import check_middlewares

ALL_RESERVED = ('request', '_application', '_route', '_dispatch_state',
                'context', 'next')
assert tuple(RESERVED_ARGS) == ALL_RESERVED, RESERVED_ARGS


def expect(exc_type, func, *a, **kw):
    try:
        func(*a, **kw)
    except Exception as e:
        assert type(e) is exc_type, ('expected %r, got %r'
                                     % (exc_type, e))
        return str(e)
    raise AssertionError('expected %s, nothing raised' % exc_type.__name__)


def ok_ep():
    return {}


def ok_render(context):
    from werkzeug.wrappers import Response
    return Response(repr(sorted(context.items())))


def mw_of(**attrs):
    return type('GenMW', (Middleware,), attrs)()


def req_next(self, next):
    return next()


# ---------------------------------------------------------------- valid
class ProvMW(Middleware):
    provides = ('a',)
    endpoint_provides = ('b',)
    render_provides = ('c',)

    def request(self, next):
        return next(a=1)

    def endpoint(self, next, a):
        return next(b=a + 1)

    def render(self, next, context, a):
        return next(c=a + 2)


def ep_abc(a, b, x, res, request, _route, _application, _dispatch_state):
    return {'a': a, 'b': b, 'x': x, 'res': res}


def rn_abc(context, c):
    from werkzeug.wrappers import Response
    return Response('%r|%r' % (sorted(context.items()), c))


app = Application([('/<x>', ep_abc, rn_abc)], resources={'res': 'R'},
                  middlewares=[ProvMW()])
resp = app.get_local_client().get('/xv')
assert resp.status_code == 200, resp.status_code
assert resp.get_data(True) == \
    "[('a', 1), ('b', 2), ('res', 'R'), ('x', 'xv')]|3", resp.get_data(True)
br = app.routes[0]
assert isinstance(br, BoundRoute)
assert br.get_required_args() == ['a', 'b', 'x', 'res'], br.get_required_args()

# ------------------------------------------------ url / resource / builtin
msg = expect(NameError, Application, [('/<a>', ok_ep, ok_render)],
             resources={'a': 1})
assert msg == "found conflicting provides: [('a', ('url', 'resources'))]", msg

msg = expect(NameError, Application,
             [Route('/<a>', ok_ep, ok_render, resources={'a': 1})])
assert msg == "found conflicting provides: [('a', ('url', 'resources'))]", msg

for name in ALL_RESERVED:
    # reserved name as URL binding
    msg = expect(NameError, Application, [('/<%s>' % name, ok_ep, ok_render)])
    assert msg == ("found conflicting provides: [(%r, ('url', 'builtins'))]"
                   % name), msg
    # reserved name as application resource
    msg = expect(NameError, Application, [('/', ok_ep, ok_render)],
                 resources={name: 1})
    assert msg == 'resource names conflict with builtins: %r' % [name], msg
    msg = expect(NameError, Application, [], resources={name: 1})
    # reserved name as route-level resource
    msg = expect(NameError, Application,
                 [Route('/', ok_ep, ok_render, resources={name: 1})])
    assert msg == ("found conflicting provides: "
                   "[(%r, ('builtins', 'resources'))]" % name), msg
    # ... also when embedded
    sub = Application([])
    sub.routes.append(Route('/', ok_ep, ok_render, resources={name: 1}))
    expect(NameError, Application, [SubApplication('/sub', sub)])

# all three at once: one name from url + builtins + (route) resources
msg = expect(NameError, Application,
             [Route('/<request>', ok_ep, ok_render, resources={'request': 1})])
assert msg == ("found conflicting provides: "
               "[('request', ('url', 'builtins', 'resources'))]"), msg

# ------------------------------------------ middleware against each source
for attr in ('provides', 'endpoint_provides', 'render_provides'):
    # mw / url
    mw = mw_of(**{attr: ('x',), 'request': req_next})
    msg = expect(NameError, Application, [('/<x>', ok_ep, ok_render)],
                 middlewares=[mw])
    assert msg == ("found conflicting provides: [('x', ('url', %r))]"
                   % mw), msg
    expect(NameError, Application,
           [Route('/<x>', ok_ep, ok_render, middlewares=[mw])])
    # mw / resource (app level and route level)
    expect(NameError, Application, [('/', ok_ep, ok_render)],
           middlewares=[mw], resources={'x': 1})
    expect(NameError, Application,
           [Route('/', ok_ep, ok_render, middlewares=[mw],
                  resources={'x': 1})])
    # but no conflict -> fine, even without routes
    Application([('/', ok_ep, ok_render)], middlewares=[mw])
    msg = expect(NameError, Application, [], middlewares=[mw],
                 resources={'x': 1})  # caught when the null route is bound
    assert msg == ("found conflicting provides: [('x', ('resources', %r))]"
                   % mw), msg
    # mw / builtin
    for name in ALL_RESERVED:
        mwb = mw_of(**{attr: (name,), 'request': req_next})
        msg = expect(NameError, Application, [('/', ok_ep, ok_render)],
                     middlewares=[mwb])
        assert msg == ("found conflicting provides: [(%r, ('builtins', %r))]"
                       % (name, mwb)), msg
    # mw / mw, across all phase pairs, app-level vs route-level
    for attr2 in ('provides', 'endpoint_provides', 'render_provides'):
        mw1 = type('MW1', (Middleware,), {attr: ('z',), 'request': req_next})()
        mw2 = type('MW2', (Middleware,), {attr2: ('z',), 'request': req_next})()
        expect(NameError, Application, [('/', ok_ep, ok_render)],
               middlewares=[mw1, mw2])
        expect(NameError, Application, [], middlewares=[mw1, mw2])
        expect(NameError, Application,
               [Route('/', ok_ep, ok_render, middlewares=[mw2])],
               middlewares=[mw1])
        sub = Application([Route('/', ok_ep, ok_render, middlewares=[mw2])])
        expect(NameError, Application, [SubApplication('/s', sub)],
               middlewares=[mw1])
        if attr != attr2:
            # within one middleware, two phases
            mw3 = mw_of(**{attr: ('z',), attr2: ('z',), 'request': req_next})
            expect(NameError, Application, [], middlewares=[mw3])
    # within one provides tuple
    mw4 = mw_of(**{attr: ('z', 'z'), 'request': req_next})
    expect(NameError, Application, [], middlewares=[mw4])

# ------------------------------------------------ misplaced next / context
for phase in ('request', 'endpoint', 'render'):
    bad_first = mw_of(**{phase: lambda self, request, next: next()})
    expect(TypeError, Application, [], middlewares=[bad_first])
    expect(TypeError, Application,
           [Route('/', ok_ep, ok_render, middlewares=[bad_first])])
    no_args = mw_of(**{phase: lambda self: None})
    expect(IndexError, Application, [], middlewares=[no_args])
    not_callable = mw_of(**{phase: 'nope'})
    expect(TypeError, Application, [], middlewares=[not_callable])
    falsy = mw_of(**{phase: 0})
    Application([('/', ok_ep, ok_render)], middlewares=[falsy])

expect(NameError, Application, [('/', lambda next: {}, ok_render)])
expect(NameError, Application, [('/', lambda request, next=None: {}, ok_render)])
expect(NameError, Application, [('/', ok_ep, lambda context, next: context)])
expect(NameError, Application, [('/', ok_ep, lambda next: None)])
# context outside the render phase
expect(NameError, Application, [('/', lambda context: {}, ok_render)])
expect(NameError, Application, [('/', ok_ep, ok_render)],
       middlewares=[mw_of(request=lambda self, next, context: next())])
expect(NameError, Application, [('/', ok_ep, ok_render)],
       middlewares=[mw_of(endpoint=lambda self, next, context: next())])
Application([('/', ok_ep, ok_render)],
            middlewares=[mw_of(render=lambda self, next, context: next())])
# unknown names
expect(NameError, Application, [('/', lambda nobody: {}, ok_render)])
expect(NameError, Application, [('/', ok_ep, lambda context, nobody: None)])
# defaulted 'context' in an endpoint is optional, thus fine
Application([('/', lambda context=None: {}, ok_render)])

# ---------------------------------------- check_middlewares called directly
assert check_middlewares([]) is True
assert check_middlewares([], None) is True
assert check_middlewares(iter([ProvMW()]), {'url': ['q'], 'r': ('s',)}) is True
msg = expect(NameError, check_middlewares, [],
             {'one': ['k', 'k2'], 'two': ('k',)})
assert msg == "found conflicting provides: [('k', ('one', 'two'))]", msg
msg = expect(NameError, check_middlewares, [], {'one': ['k', 'k']})
assert msg == "found conflicting provides: [('k', ('one', 'one'))]", msg

# public import paths
from clastic.route import RESERVED_ARGS as R1, _REQUEST_BUILTINS, _RENDER_BUILTINS
from clastic.application import RESERVED_ARGS as R2
from clastic import RESERVED_ARGS as R3
from clastic.meta import RESERVED_ARGS as R4
assert R1 is R2 is R3 is R4
assert _RENDER_BUILTINS == _REQUEST_BUILTINS + ('context',)
from clastic.middleware.core import (check_middleware, check_middlewares as cm2,
                                     merge_middlewares, make_middleware_chain,
                                     _INNER_NAME)
assert cm2 is check_middlewares and _INNER_NAME == 'next'
assert check_middleware(ProvMW()) is None

# ------------------------------------- make_middleware_chain called directly
from werkzeug.wrappers import Response


class M1(Middleware):
    provides = ('p1',)

    def request(self, next, pre):
        return next(p1=pre + '>p1')


class M2(Middleware):
    provides = 'qr'   # a string: one provided name per character
    endpoint_provides = ['e2']

    def request(self, next, p1):
        return next(q=p1 + '>q', r='r')

    def endpoint(self, next, q, r):
        return next(e2=q + r)


class M3(Middleware):
    render_provides = ('r3',)

    def render(self, next, context, p1, opt='dflt'):
        return next(r3=(p1, opt, sorted(context)))


def ep_direct(e2, p1, pre):
    return {'e2': e2}


def rn_direct(context, r3, q):
    return Response(repr((context, r3, q)))


chain = make_middleware_chain([M1(), M2(), M3()], ep_direct, rn_direct,
                              ['pre', 'next', 'context'])
out = chain(pre='PRE').get_data(True)
assert out == repr(({'e2': 'PRE>p1>qr'}, ('PRE>p1', 'dflt', ['e2']),
                    'PRE>p1>q')), out
# preprovided may be any iterable; 'opt' is picked up when it is available
chain = make_middleware_chain((M1(), M2(), M3()), ep_direct, rn_direct,
                              iter(['pre', 'opt']))
out = chain(pre='P', opt='O').get_data(True)
assert out == repr(({'e2': 'P>p1>qr'}, ('P>p1', 'O', ['e2']), 'P>p1>q')), out
# no middlewares at all
chain = make_middleware_chain([], lambda: {'k': 1},
                              lambda context: Response(repr(context)), set())
assert chain().get_data(True) == "{'k': 1}"
# endpoint returning a response skips render
chain = make_middleware_chain([], lambda: Response('direct'),
                              lambda context: 1 / 0, ())
assert chain().get_data(True) == 'direct'

# 'next' / 'context' among preprovided are never request/endpoint-available
msg = expect(NameError, make_middleware_chain, [], lambda context: {},
             ok_render, ['context', 'next'])
assert msg == "unresolved endpoint middleware arguments: ['context']", msg
msg = expect(NameError, make_middleware_chain, [], lambda next: {},
             ok_render, ['context', 'next'])
assert msg.startswith("argument 'next' reserved for middleware use only"), msg
msg = expect(NameError, make_middleware_chain, [], ok_ep,
             lambda context, next: 1, ['context', 'next'])
assert msg.startswith("argument 'next' reserved for middleware use only"), msg
msg = expect(NameError, make_middleware_chain,
             [mw_of(request=lambda self, next, context: next())],
             ok_ep, ok_render, ['context'])
assert msg == "unresolved request middleware arguments: ['context']", msg
msg = expect(NameError, make_middleware_chain,
             [mw_of(endpoint=lambda self, next, context: next())],
             ok_ep, ok_render, ['context'])
assert msg == "unresolved endpoint middleware arguments: ['context']", msg
# endpoint_provides are not available to render, render_provides not to endpoint
msg = expect(NameError, make_middleware_chain, [M1(), M2()], ok_ep,
             lambda context, e2: 1, ['pre'])
assert msg == "unresolved render middleware arguments: ['e2']", msg
msg = expect(NameError, make_middleware_chain, [M1(), M3()],
             lambda r3: {}, ok_render, ['pre'])
assert msg == "unresolved endpoint middleware arguments: ['r3']", msg
# request provides of a later middleware are not available to an earlier one
msg = expect(NameError, make_middleware_chain, [M2(), M1()], ok_ep,
             ok_render, ['pre'])
assert msg == "unresolved request middleware arguments: ['p1']", msg
msg = expect(NameError, make_middleware_chain, [M1()], ok_ep, ok_render, [])
assert msg == "unresolved request middleware arguments: ['pre']", msg
# a provides that is not iterable / not hashable is a TypeError
expect(TypeError, make_middleware_chain,
       [mw_of(request=req_next, provides=None)], ok_ep, ok_render, [])
expect(TypeError, make_middleware_chain,
       [mw_of(request=req_next, provides=(['l'],))], ok_ep, ok_render, [])
# a middleware without a request function contributes no request provides
msg = expect(NameError, make_middleware_chain,
             [mw_of(provides=('ghost',))], lambda ghost: {}, ok_render, [])
assert msg == "unresolved endpoint middleware arguments: ['ghost']", msg

print('PASS')
sys.exit(0)
