# -*- coding: utf-8 -*-
"""demo3: concurrent requests on one Application do not interfere.

Focus: the per-request DispatchState (allowed methods, collected non-breaking
errors) and the process-wide request id counter `_REQ_ID_ITER`, reached through
their public home `clastic.application`.  Prints PASS and exits 0.
"""
import os
import sys
import itertools
import threading

sys.path.insert(0, os.path.dirname(os.path.abspath(__file__)))

from werkzeug.test import Client
from werkzeug.wrappers import Request, Response

import clastic
import clastic.application as application_mod
from clastic import Application, Route, GET, POST, PUT, DELETE, Middleware
from clastic.application import DispatchState, _REQ_ID_ITER
from clastic.errors import ErrorHandler, NotFound, Forbidden
from clastic.utils import int2hexguid

assert os.path.dirname(os.path.abspath(clastic.__file__)).startswith(
    os.path.dirname(os.path.abspath(__file__))), clastic.__file__


# ---------------------------------------------------------------- unit level

def check_units():
    assert application_mod.DispatchState is DispatchState
    assert application_mod._REQ_ID_ITER is _REQ_ID_ITER
    assert type(_REQ_ID_ITER) is itertools.count
    assert DispatchState.__name__ == 'DispatchState'
    assert DispatchState.__doc__.startswith('The every request handled by an')
    assert DispatchState.__mro__ == (DispatchState, object)

    ds, ds2 = DispatchState(), DispatchState()
    assert vars(ds) == {'exceptions': [], 'allowed_methods': set(), 'attempted_routes': []}
    assert ds.exceptions is not ds2.exceptions
    assert ds.allowed_methods is not ds2.allowed_methods
    assert ds.attempted_routes is not ds2.attempted_routes
    assert repr(ds) == '<DispatchState exceptions=[] allowed_methods=set()>'
    for falsy in (None, (), [], set(), '', 0):
        assert ds.update_methods(falsy) is None
        assert ds.allowed_methods == set()
    ds.update_methods(['GET'])
    ds.update_methods(set(['HEAD', 'GET']))
    ds.update_methods(iter(['PUT']))
    assert ds.allowed_methods == set(['GET', 'HEAD', 'PUT'])
    marker = object()
    assert ds.add_exception(marker) is None and ds.exceptions == [marker]
    assert ds.add_route(marker) is None and ds.attempted_routes == [marker]
    assert ds2.exceptions == [] and ds2.allowed_methods == set() and ds2.attempted_routes == []
    assert ds != ds2 and ds == ds and hash(ds) == hash(ds)   # identity semantics

    class Sub(DispatchState):
        pass
    assert repr(Sub()).startswith('<Sub exceptions=[]')


# ----------------------------------------------------------- application level

class TagMiddleware(Middleware):
    provides = ('tag',)

    def request(self, next, request):
        return next(tag=request.args.get('t', '-'))


def state_view(label):
    def ep(request, tag, _dispatch_state, _route):
        assert type(_dispatch_state) is DispatchState
        return Response('%s %s methods=%r excs=%r attempted=%r rid=%s' % (
            label, tag, sorted(_dispatch_state.allowed_methods),
            [e.detail for e in _dispatch_state.exceptions],
            _dispatch_state.attempted_routes,
            hasattr(request, 'request_id') and
            request.request_guid == int2hexguid(request.request_id)))
    return ep


def soft_404(tag):
    raise NotFound(detail='soft404 ' + tag, is_breaking=False)


def soft_403(tag):
    return Forbidden(detail='soft403 ' + tag, is_breaking=False)


def rid(request):
    return Response('%d %s' % (request.request_id, request.request_guid))


class StateErrorHandler(ErrorHandler):
    def render_error(self, request, _error, _dispatch_state):
        _error.adapt('text/plain')
        extra = '\n[%s methods=%r excs=%r]' % (
            request.path, sorted(_dispatch_state.allowed_methods),
            [e.detail for e in _dispatch_state.exceptions])
        _error.data = _error.data + extra.encode('utf8')
        return _error


def build_app(request_type=None):
    routes = [POST('/thing', state_view('post-thing')),
              PUT('/thing', state_view('put-thing')),
              DELETE('/thing/<x>', state_view('delete-thing-x')),
              GET('/multi', soft_404),
              GET('/multi', soft_403),
              POST('/multi', state_view('post-multi')),
              GET('/multi', state_view('get-multi')),
              GET('/soft', soft_404),
              PUT('/soft', state_view('put-soft')),
              GET('/soft', soft_403),
              Route('/any', state_view('any')),
              GET('/rid', rid)]
    cls = Application
    if request_type is not None:
        cls = type('CustomApp', (Application,), {'request_type': request_type})
    app = cls(routes, middlewares=[TagMiddleware()], error_handler=StateErrorHandler())
    return app


REQUESTS = [
    ('POST', '/thing', 't=1'), ('PUT', '/thing', 't=2'),
    ('GET', '/thing', 't=3'),            # 405: POST, PUT
    ('PATCH', '/thing', 't=4'),          # 405
    ('GET', '/thing/7', 't=5'),          # 405: DELETE
    ('DELETE', '/thing/7', 't=6'),
    ('GET', '/multi', 't=7'),            # two soft errors, then 200
    ('POST', '/multi', 't=8'),           # skips the GET routes (collects their methods)
    ('PUT', '/multi', 't=9'),            # 405 with GET, HEAD, POST
    ('GET', '/soft', 't=10'),            # soft errors only -> last one (403) wins
    ('PUT', '/soft', 't=11'),
    ('DELETE', '/soft', 't=12'),         # 405
    ('GET', '/any', 't=13'), ('OPTIONS', '/any', 't=14'),
    ('GET', '/missing', 't=15'),         # 404
    ('POST', '/missing', 't=16'),        # 404
]


def send(app, req):
    method, path, query = req
    client = Client(app, Response)
    resp = client.open(path=path, query_string=query, method=method)
    return (resp.status_code, resp.headers.get('Allow'), resp.get_data())


def get_rid(app):
    status, _, body = send(app, ('GET', '/rid', ''))
    assert status == 200, (status, body)
    num_s, guid = body.decode('ascii').split()
    assert guid == int2hexguid(int(num_s))
    return int(num_s)


def check_sequential(expected):
    exp = dict(zip(REQUESTS, expected))
    assert exp[('POST', '/thing', 't=1')][2] == (
        b"post-thing 1 methods=[] excs=[] attempted=[] rid=True")
    assert exp[('PUT', '/thing', 't=2')][2] == (
        b"put-thing 2 methods=['POST'] excs=[] attempted=[] rid=True")
    st, allow, body = exp[('GET', '/thing', 't=3')]
    assert st == 405 and allow == 'POST, PUT', (st, allow)
    assert body.endswith(b"[/thing methods=['POST', 'PUT'] excs=[]]"), body
    assert exp[('PATCH', '/thing', 't=4')][:2] == (405, 'POST, PUT')
    assert exp[('GET', '/thing/7', 't=5')][:2] == (405, 'DELETE')
    assert exp[('DELETE', '/thing/7', 't=6')][2].startswith(b'delete-thing-x 6 methods=[]')
    assert exp[('GET', '/multi', 't=7')][2] == (
        b"get-multi 7 methods=['POST'] excs=['soft404 7', 'soft403 7'] attempted=[] rid=True")
    assert exp[('POST', '/multi', 't=8')][2] == (
        b"post-multi 8 methods=['GET', 'HEAD'] excs=[] attempted=[] rid=True")
    st, allow, body = exp[('PUT', '/multi', 't=9')]
    assert st == 405 and allow == 'GET, HEAD, POST'
    st, allow, body = exp[('GET', '/soft', 't=10')]
    assert st == 403 and b'soft403 10' in body, (st, body)
    assert b"methods=['PUT']" in body
    # both soft errors, plus the last one again when the sentinel route returns it
    assert body.endswith(b"excs=['soft404 10', 'soft403 10', 'soft403 10']]"), body
    assert exp[('PUT', '/soft', 't=11')][2].startswith(
        b"put-soft 11 methods=['GET', 'HEAD'] excs=[]")
    assert exp[('DELETE', '/soft', 't=12')][:2] == (405, 'GET, HEAD, PUT')
    assert exp[('GET', '/any', 't=13')][0] == 200 and exp[('OPTIONS', '/any', 't=14')][0] == 200
    st, allow, body = exp[('GET', '/missing', 't=15')]
    assert st == 404 and body.endswith(b"[/missing methods=[] excs=[]]"), body
    assert exp[('POST', '/missing', 't=16')][0] == 404


def check_request_ids():
    app_a, app_b = build_app(), build_app()
    # one counter for every application of the process
    ids = [get_rid(app_a), get_rid(app_b), get_rid(app_a), get_rid(app_b)]
    assert ids == list(range(ids[0], ids[0] + 4)), ids
    # every request draws an id, also 404s
    send(app_a, ('GET', '/missing', ''))
    assert get_rid(app_b) == ids[-1] + 2
    # the counter object reachable as clastic.application._REQ_ID_ITER is the live one
    assert next(application_mod._REQ_ID_ITER) == ids[-1] + 3
    assert get_rid(app_a) == ids[-1] + 4
    # and dispatch looks the name up in clastic.application at request time
    saved = application_mod._REQ_ID_ITER
    application_mod._REQ_ID_ITER = itertools.count(10 ** 9)
    try:
        assert get_rid(app_a) == 10 ** 9 and get_rid(app_b) == 10 ** 9 + 1
    finally:
        application_mod._REQ_ID_ITER = saved
    assert get_rid(app_a) == ids[-1] + 5

    # request objects that refuse attribute assignment are served without an id
    class FrozenRequest(Request):
        def __setattr__(self, name, value):
            if name.startswith('request_'):
                raise AttributeError('read-only: ' + name)
            return super(FrozenRequest, self).__setattr__(name, value)

    frozen_app = build_app(request_type=FrozenRequest)
    st, _, body = send(frozen_app, ('POST', '/thing', 't=f'))
    assert st == 200 and body.endswith(b'rid=False'), body
    st, _, body = send(frozen_app, ('GET', '/rid', ''))
    assert st == 500, (st, body)      # endpoint reads request.request_id -> AttributeError
    # ... but the ids were drawn all the same
    assert get_rid(app_a) == ids[-1] + 8


def main():
    check_units()
    check_request_ids()

    app = build_app()
    expected = [send(app, r) for r in REQUESTS]
    check_sequential(expected)

    old_interval = sys.getswitchinterval()
    sys.setswitchinterval(1e-6)
    errors = []
    rids = []
    n_threads, rounds = 4, 15
    other_app = build_app()
    barrier = threading.Barrier(n_threads)

    def worker(idx):
        try:
            order = REQUESTS[idx * 3:] + REQUESTS[:idx * 3]
            if idx % 2:
                order = order[::-1]
            barrier.wait()
            for _ in range(rounds):
                for req in order:
                    got = send(app, req)
                    want = expected[REQUESTS.index(req)]
                    if got != want:
                        errors.append((idx, req, got, want))
                    rids.append(get_rid(app if idx < 2 else other_app))
        except Exception:  # pragma: no cover
            import traceback
            errors.append((idx, 'crash', traceback.format_exc()))

    threads = [threading.Thread(target=worker, args=(i,)) for i in range(n_threads)]
    for t in threads:
        t.start()
    for t in threads:
        t.join()
    sys.setswitchinterval(old_interval)

    assert not errors, errors[:3]
    assert len(rids) == n_threads * rounds * len(REQUESTS)
    assert len(set(rids)) == len(rids), 'request ids repeat'
    # nothing else drew from the counter: ids are exactly one block
    total = 2 * len(rids)
    assert max(rids) - min(rids) < total, (min(rids), max(rids), total)
    print('PASS')


if __name__ == '__main__':
    main()
