# -*- coding: utf-8 -*-
"""demo1: built-in middlewares never change what the client receives.

Focus: GzipMiddleware (lossless, Content-Length/Vary bookkeeping, pass-through
of everything it must not touch), plus the whole-stack with/without comparison.
Prints PASS and exits 0 when the property holds.
"""
import gzip
import io
import random
import re
import sys

from werkzeug.test import EnvironBuilder
from werkzeug.wrappers import Request

from clastic import Application, GET, Response, redirect, render_basic
from clastic.errors import NotFound, Forbidden, BadRequest, HTTPException
from clastic.middleware import (client_cache, compress, context, cookie,
                                form, profile, stats, url)


# -- scenario application ----------------------------------------------------

def _text(n):
    return ('lorem ipsum dolor sit amet ' * (n // 27 + 1))[:n]


def _rand(n):
    rng = random.Random(n)
    return bytes(bytearray(rng.getrandbits(8) for _ in range(n)))


def ep_text(size):
    return Response(_text(int(size)), mimetype='text/plain')


def ep_rand(size):
    return Response(_rand(int(size)), mimetype='application/octet-stream')


def ep_js(size):
    return Response(_text(int(size)), mimetype='application/javascript')


def ep_ctx():
    return {'greeting': 'hello', 'items': list(range(50)), 'pad': _text(600)}


def ep_redirect():
    return redirect('/text/10')


def ep_raise_404():
    raise NotFound()


def ep_return_403():
    return Forbidden()


def ep_raise_400_detail():
    raise BadRequest('please do not ' + 'x' * 900)


def ep_nonbreaking():
    raise NotFound(is_breaking=False)


def ep_boom():
    raise ValueError('uncaught on purpose')


def ep_empty():
    return Response('', mimetype='text/plain')


def ep_preencoded():
    resp = Response(_text(3000), mimetype='text/plain')
    resp.content_encoding = 'x-custom'
    return resp


def ep_stream():
    return Response((chunk for chunk in [_text(1500), _text(1500)]),
                    mimetype='text/plain')


def make_routes():
    return [GET('/text/<size>', ep_text),
            GET('/rand/<size>', ep_rand),
            GET('/js/<size>', ep_js),
            GET('/ctx', ep_ctx, render_basic),
            GET('/redir', ep_redirect),
            GET('/raise404', ep_raise_404),
            GET('/ret403', ep_return_403),
            GET('/raise400', ep_raise_400_detail),
            GET('/nonbreaking', ep_nonbreaking),
            GET('/boom', ep_boom),
            GET('/empty', ep_empty),
            GET('/preenc', ep_preencoded),
            GET('/stream', ep_stream)]


MW_FACTORIES = {
    'gzip': lambda: compress.GzipMiddleware(),
    'gzip9': lambda: compress.GzipMiddleware(compress_level=9),
    'cache': lambda: client_cache.HTTPCacheMiddleware(),
    'stats': lambda: stats.StatsMiddleware(),
    'profile': lambda: profile.SimpleProfileMiddleware(),
    'cookie': lambda: cookie.SignedCookieMiddleware(),
    'ctxproc': lambda: context.ContextProcessor(),
    'simplectx': lambda: context.SimpleContextProcessor(),
    'getparam': lambda: url.GetParamMiddleware({}),
    'postdata': lambda: form.PostDataMiddleware({'lol': str}),
    'scriptroot': lambda: url.ScriptRootMiddleware(),
}

PATHS = ['/text/0', '/text/1', '/text/20', '/text/200', '/text/5000',
         '/text/70000', '/rand/1', '/rand/64', '/rand/5000', '/js/4000',
         '/ctx', '/redir', '/raise404', '/ret403', '/raise400',
         '/nonbreaking', '/boom', '/empty', '/preenc', '/stream',
         '/no/such/url', '/text']

ACCEPT_ENCODINGS = [None, 'gzip', 'gzip;q=0', '*', 'identity', '',
                    'deflate, gzip;q=0.5', 'br', 'GZIP', 'identity;q=0, gzip']

MSIE_UA = 'Mozilla/4.0 (compatible; MSIE 8.0; Windows NT 6.1; Trident/4.0)'


def gunzip(data):
    return gzip.GzipFile(fileobj=io.BytesIO(data)).read()


def fetch(client, method, path, accept_encoding=None, user_agent=None):
    headers = {}
    if accept_encoding is not None:
        headers['Accept-Encoding'] = accept_encoding
    if user_agent is not None:
        headers['User-Agent'] = user_agent
    resp = client.open(path, method=method, headers=headers)
    raw = resp.get_data()
    return resp, raw


_FRAME_COUNT_RE = re.compile(br'\(\d+ frames, ')


def decoded(resp, raw):
    if resp.headers.get('Content-Encoding') == 'gzip':
        raw = gunzip(raw)
    if resp.status_code == 500:
        # the default 500 page mentions the depth of the call stack, which
        # naturally grows by one frame per installed middleware
        raw = _FRAME_COUNT_RE.sub(b'(N frames, ', raw)
    return raw


checked = [0]


def compare(mw_names, rng=None):
    plain = Application(make_routes()).get_local_client()
    mws = [MW_FACTORIES[n]() for n in mw_names]
    wrapped = Application(make_routes(), middlewares=mws).get_local_client()
    has_gzip = any(n.startswith('gzip') for n in mw_names)
    for path in PATHS:
        for method in ('GET', 'HEAD', 'POST'):
            encs = ACCEPT_ENCODINGS
            if rng is not None:
                encs = rng.sample(ACCEPT_ENCODINGS, 3)
            for enc in encs:
                for ua in (None, MSIE_UA):
                    if ua and method != 'GET':
                        continue
                    base_resp, base_raw = fetch(plain, method, path, None, ua)
                    resp, raw = fetch(wrapped, method, path, enc, ua)
                    label = (mw_names, method, path, enc, bool(ua))
                    assert resp.status_code == base_resp.status_code, label
                    assert decoded(resp, raw) == decoded(base_resp, base_raw), label
                    cenc = resp.headers.get('Content-Encoding')
                    if cenc == 'gzip':
                        assert has_gzip, label
                        assert enc is not None, label
                        assert int(resp.headers['Content-Length']) == len(raw) or method == 'HEAD', label
                        assert 'accept-encoding' in resp.headers.get('Vary', '').lower(), label
                        assert len(raw) < len(gunzip(raw)) or method == 'HEAD', label
                    elif resp.status_code != 500:
                        assert raw == base_raw, label
                    if not has_gzip:
                        assert cenc == base_resp.headers.get('Content-Encoding'), label
                    if enc in (None, 'gzip;q=0', 'identity', '', 'br'):
                        assert cenc != 'gzip', label
                    checked[0] += 1


# -- direct checks on GzipMiddleware.request ---------------------------------

def make_request(accept_encoding=None, user_agent=None):
    headers = {}
    if accept_encoding is not None:
        headers['Accept-Encoding'] = accept_encoding
    if user_agent is not None:
        headers['User-Agent'] = user_agent
    return Request(EnvironBuilder(path='/', headers=headers).get_environ())


def direct_gzip_checks():
    mw = compress.GzipMiddleware()
    big = _text(4000).encode('utf-8')

    # compressible + accepted -> gzipped, bookkeeping right, same object returned
    resp = Response(big, mimetype='text/plain')
    out = mw.request(lambda: resp, make_request('gzip'))
    assert out is resp
    assert out.content_encoding == 'gzip'
    assert gunzip(out.get_data()) == big
    assert out.content_length == len(out.get_data()) < len(big)
    assert 'Accept-Encoding' in out.vary
    assert isinstance(out.response, list) and len(out.response) == 1

    # not accepted -> untouched but Vary still announced
    for enc in (None, 'gzip;q=0', 'identity', ''):
        resp = Response(big, mimetype='text/plain')
        out = mw.request(lambda: resp, make_request(enc))
        assert out is resp and out.content_encoding is None
        assert out.get_data() == big
        assert 'Accept-Encoding' in out.vary

    # incompressible (random / tiny / empty) -> untouched
    for body in (_rand(3000), b'a', b''):
        resp = Response(body, mimetype='application/octet-stream')
        out = mw.request(lambda: resp, make_request('gzip'))
        assert out is resp and out.content_encoding is None
        assert out.get_data() == body
        assert 'Accept-Encoding' in out.vary

    # already encoded -> untouched
    resp = Response(big, mimetype='text/plain')
    resp.content_encoding = 'deflate'
    out = mw.request(lambda: resp, make_request('gzip'))
    assert out.content_encoding == 'deflate' and out.get_data() == big

    # streamed -> untouched, not consumed
    consumed = []

    def gen():
        consumed.append(1)
        yield big
    resp = Response(gen(), mimetype='text/plain')
    out = mw.request(lambda: resp, make_request('gzip'))
    assert out is resp and out.content_encoding is None and not consumed
    assert 'Accept-Encoding' in out.vary

    # tuple bodies and text bodies are fine too
    resp = Response((_text(2000), _text(2000)), mimetype='text/plain')
    out = mw.request(lambda: resp, make_request('*'))
    assert out.content_encoding == 'gzip'
    assert gunzip(out.get_data()) == (_text(2000) * 2).encode('utf-8')
    assert out.content_length == len(out.get_data())

    # MSIE: only textual / javascript content gets compressed
    for mimetype, expect in (('text/html', 'gzip'),
                             ('application/javascript', 'gzip'),
                             ('application/octet-stream', None),
                             ('application/json', None)):
        resp = Response(big, mimetype=mimetype)
        out = mw.request(lambda: resp, make_request('gzip', MSIE_UA))
        assert out.content_encoding == expect, mimetype
        assert decoded(out, out.get_data()) == big
    # MSIE without a content type: not textual, handed back uncompressed (was an AttributeError before fix bb56267)
    resp = Response(big)
    del resp.headers['Content-Type']
    out = mw.request(lambda: resp, make_request('gzip', MSIE_UA))
    assert out is resp and out.content_encoding is None and out.get_data() == big
    # ... but not if gzip is not accepted in the first place
    out = mw.request(lambda: resp, make_request(None, MSIE_UA))
    assert out is resp and out.get_data() == big

    # HTTPExceptions and arbitrary objects are handed back untouched
    for obj in (NotFound(), Forbidden('nope' * 500), HTTPException(code=418),
                {'a': 1}, None, 'a string', 0):
        before = obj.get_data() if isinstance(obj, HTTPException) else None
        out = mw.request(lambda: obj, make_request('gzip'))
        assert out is obj
        if isinstance(obj, HTTPException):
            assert obj.get_data() == before
            assert 'Content-Encoding' not in obj.headers
            assert 'Vary' not in obj.headers

    # exceptions from next() propagate unchanged
    def raiser():
        raise NotFound()
    try:
        mw.request(raiser, make_request('gzip'))
    except NotFound:
        pass
    else:
        raise AssertionError('expected NotFound')

    # compress_level is honoured (0 = stored, never smaller than the original)
    resp = Response(big, mimetype='text/plain')
    out = compress.GzipMiddleware(0).request(lambda: resp, make_request('gzip'))
    assert out.content_encoding is None and out.get_data() == big


def main():
    direct_gzip_checks()
    for name in sorted(MW_FACTORIES):
        compare((name,))
    rng = random.Random(15)
    names = sorted(n for n in MW_FACTORIES if n != 'gzip9')
    for _ in range(12):
        stack = tuple(rng.sample(names, rng.randint(2, len(names))))
        compare(stack, rng)
    compare(tuple(names), rng)
    assert checked[0] > 5000, checked[0]
    print('PASS (%d comparisons)' % checked[0])


if __name__ == '__main__':
    main()
    sys.exit(0)
