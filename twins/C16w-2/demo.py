# -*- coding: utf-8 -*-
"""demo2: signed cookies -- same scenarios as demo1 plus a close look at
SignedCookieMiddleware.request: which '_expires' ends up in the signed data
and in the Set-Cookie header for every combination of middleware expiry
setting and endpoint-chosen expiry (incl. None / 0 / past / float).

Prints PASS and exits 0 on clean code and with patch2.diff applied.
"""
import os
import sys
import json
import hmac
import time
import base64
import hashlib
import warnings

warnings.simplefilter('ignore')
sys.path.insert(0, os.path.dirname(os.path.abspath(__file__)))

import secure_cookie.cookie as sc
from secure_cookie.cookie import SecureCookie, UnquoteError
from werkzeug.http import parse_cookie, dump_cookie, cookie_date
from werkzeug.test import Client
from werkzeug.wrappers import Response
from werkzeug.urls import url_quote_plus

from clastic import Application
from clastic.middleware.cookie import (SignedCookieMiddleware, JSONCookie,
                                       NEVER, SESSION, NOW, DEFAULT_EXPIRY)

KEY = b'demo-secret-key-0123'
OTHER_KEY = b'some-other-secret!!!'


class Clock(object):
    def __init__(self, now):
        self.now = now

    def __call__(self):
        return self.now


CLOCK = Clock(1700000000.25)
time.time = CLOCK
sc.time = CLOCK


# ---------------------------------------------------------------- reference
def ref_quote(value):
    text = json.dumps(value)
    return base64.b64encode(text.encode('utf8'))


def ref_serialize(data, key=KEY):
    parts = []
    mac = hmac.new(key, None, hashlib.sha1)
    for k, v in sorted(data.items()):
        part = ('%s=%s' % (url_quote_plus(k), ref_quote(v).decode('ascii'))
                ).encode('ascii')
        parts.append(part)
        mac.update(b'|' + part)
    return (base64.b64encode(mac.digest()).strip() + b'?' + b'&'.join(parts)
            ).decode('ascii')


# ---------------------------------------------------------------- the app
def _json_resp(cookie):
    return Response(json.dumps({'seen': dict(cookie)}, sort_keys=True),
                    mimetype='application/json')


def ep_read(cookie):
    return _json_resp(cookie)


def ep_set(cookie, request, key):
    cookie[key] = json.loads(request.args['v'])
    return _json_resp(cookie)


def ep_del(cookie, key):
    cookie.pop(key, None)
    return _json_resp(cookie)


def ep_clear(cookie):
    cookie.clear()
    return _json_resp(cookie)


def ep_expire(cookie, request):
    if 't' in request.args:
        cookie.set_expires(json.loads(request.args['t']))
    else:
        cookie.set_expires()
    return _json_resp(cookie)


ROUTES = [('/read', ep_read), ('/set/<key>', ep_set), ('/del/<key>', ep_del),
          ('/clear', ep_clear), ('/expire', ep_expire)]


def make_app(**mw_kwargs):
    mw_kwargs.setdefault('secret_key', KEY)
    mw = SignedCookieMiddleware(**mw_kwargs)
    return Application(ROUTES, middlewares=[mw]), mw


class Browser(object):
    """One client; keeps the raw cookie value by hand (no cookie jar, so
    the client never drops or rewrites anything behind our back)."""

    def __init__(self, app, cookie_name='clastic_cookie'):
        self.client = Client(app, Response, use_cookies=False)
        self.cookie_name = cookie_name
        self.raw = None          # raw cookie value we will send (str)
        self.last_set_cookie = None

    def go(self, path, raw_header=None, **kw):
        headers = {}
        if raw_header is not None:
            headers['Cookie'] = raw_header
        elif self.raw is not None:
            headers['Cookie'] = dump_cookie(self.cookie_name,
                                            self.raw).split(';')[0]
        resp = self.client.get(path, headers=headers, **kw)
        set_cookies = resp.headers.getlist('Set-Cookie')
        assert len(set_cookies) <= 1, set_cookies
        self.last_set_cookie = set_cookies[0] if set_cookies else None
        if set_cookies:
            parsed = parse_cookie(set_cookies[0])
            assert self.cookie_name in parsed, set_cookies
            self.raw = parsed[self.cookie_name]
        return resp

    def seen(self, path, **kw):
        resp = self.go(path, **kw)
        assert resp.status_code == 200, (path, resp.status_code, resp.data)
        return json.loads(resp.data.decode('utf8'))['seen']


VALUES = [
    'plain', u'', u'unicod\xe9 ☃ \U0001f36a', 0, 1, -17, 3.5, 1e100, True, False,
    None, [], {}, [1, [2, [3, [None, 'x']]]], {'a': {'b': {'c': [1, 2, {}]}}},
    'x' * 500, '"quoted"', 'a=b&c=d?e', ' lead/trail ', '\n\r\t', '?&=|"',
]


def check_codec_direct():
    # quote: exact bytes, single line, stripped
    for v in VALUES:
        q = JSONCookie.quote(v)
        assert type(q) is bytes, (v, q)
        assert q == ref_quote(v), (v, q)
        assert b'\n' not in q and q == q.strip()
        back = JSONCookie.unquote(q)
        assert back == v and type(back) is type(v), (v, back)
        # str input for unquote is accepted by b64decode as well
        assert JSONCookie.unquote(q.decode('ascii')) == v
    # non-serializable values: the json error escapes quote unchanged
    for bad, exc in [(set([1]), TypeError), (object(), TypeError),
                     (b'bytes', TypeError)]:
        try:
            JSONCookie.quote(bad)
        except exc:
            pass
        else:
            raise AssertionError('quote(%r) did not raise' % (bad,))
    # unquote: everything that goes wrong is an UnquoteError, nothing else
    bads = [b'!!!', b'abc', b'', b'=', base64.b64encode(b'\xff\xfe'),
            base64.b64encode(b'{not json'), base64.b64encode(b''),
            None, 12, 3.5, [], u'☃', base64.b64encode(b'[1,') + b'\n']
    for bad in bads:
        try:
            JSONCookie.unquote(bad)
        except UnquoteError as e:
            assert type(e) is UnquoteError and e.args == ()
        else:
            raise AssertionError('unquote(%r) did not raise' % (bad,))
    # lenient base64 (garbage chars dropped by b64decode) still decodes
    assert JSONCookie.unquote(b'!' + ref_quote([1, 2])) == [1, 2]
    assert JSONCookie.serialization_method is json
    assert issubclass(JSONCookie, SecureCookie)

    # unserialize: intact, quoted, tampered
    data = dict(('k%d' % i, v) for i, v in enumerate(VALUES))
    wire = ref_serialize(data)
    c = JSONCookie(data, KEY)
    assert c.serialize().decode('ascii') == wire
    for s in (wire, '"%s"' % wire, '""%s"' % wire, '"%s' % wire):
        got = JSONCookie.unserialize(s, KEY)
        assert type(got) is JSONCookie and dict(got) == data
        assert got.new is False and got.modified is False
        assert got.secret_key == KEY
    for s in ('', '"', '""', '?', '=', 'abc', wire[1:], wire[:-1], wire + 'A',
              wire.replace('?', '', 1), wire.replace('?', '??', 1),
              '\xff\xfe\xfd', u'☃?k0=InBsYWluIg==', '!!!?' + wire.split('?')[1],
              'a?b', 'a?b=', '?=', 'AAAA?%ZZ=AAAA', wire.swapcase(),
              'A' + wire):
        got = JSONCookie.unserialize(s, KEY)
        assert type(got) is JSONCookie and dict(got) == {}, (s, got)
        assert got.new is False and got.modified is False
        assert got.secret_key == KEY
    assert dict(JSONCookie.unserialize(wire, OTHER_KEY)) == {}
    # expiry inside the signed data
    for delta, alive in [(-1000, False), (-1, False), (0, True), (1, True),
                         (1e6, True)]:
        d = {'a': 1, '_expires': CLOCK.now + delta}
        got = JSONCookie.unserialize(ref_serialize(d), KEY)
        assert dict(got) == ({'a': 1} if alive else {}), (delta, got)
    # signed but a value is not decodable -> empty
    parts = [b'a=' + base64.b64encode(b'{oops')]
    mac = hmac.new(KEY, None, hashlib.sha1)
    mac.update(b'|' + parts[0])
    forged = (base64.b64encode(mac.digest()) + b'?' + parts[0]).decode('ascii')
    assert dict(JSONCookie.unserialize(forged, KEY)) == {}

    # set_expires
    c = JSONCookie({}, KEY)
    c.set_expires()
    assert c['_expires'] == 123456 and c.modified
    c.set_expires(NOW)
    assert c['_expires'] == 123456
    for t in (0, 1, 5.5, -3, 'later', None):
        c.set_expires(t)
        assert c['_expires'] is t or c['_expires'] == t
    assert (SESSION, NEVER, NOW, DEFAULT_EXPIRY) == (0, 'never', 'now', 0)


def check_roundtrip(expiry):
    app, mw = make_app(expiry=expiry)
    b = Browser(app)
    model = {}
    assert b.seen('/read') == {}
    for i, v in enumerate(VALUES):
        key = 'k%d' % (i % 7)
        model[key] = v
        assert b.seen('/set/' + key, query_string={'v': json.dumps(v)}) == model
        assert b.last_set_cookie is not None
        assert dict(JSONCookie.unserialize(b.raw, KEY)) == model
        if expiry in (NEVER, SESSION):
            assert b.raw == ref_serialize(model), (b.raw, model)
        else:
            stamped = dict(model, _expires=int(CLOCK.now + expiry))
            assert b.raw == ref_serialize(stamped), (b.raw, stamped)
            assert ('Expires=%s' % cookie_date(CLOCK.now + expiry)
                    ) in b.last_set_cookie
        assert b.seen('/read') == model
        if expiry in (NEVER, SESSION):
            assert b.last_set_cookie is None      # nothing changed
        if i % 5 == 4:
            model.pop(key)
            assert b.seen('/del/' + key) == model
        CLOCK.now += 0.5
    assert b.seen('/read') == model
    good = b.raw

    # a second client has its own cookie
    b2 = Browser(app)
    assert b2.seen('/read') == {}
    assert b2.seen('/set/mine', query_string={'v': '"b2"'}) == {'mine': 'b2'}
    other = b2.raw

    # tampering
    sig, payload = good.split('?', 1)
    osig, opayload = other.split('?', 1)
    flipped = [good[:i] + ('A' if good[i] != 'A' else 'B') + good[i + 1:]
               for i in (0, 5, len(sig) - 3, len(sig) + 1, len(sig) + 4,
                         len(good) // 2, len(good) - 3)]
    tampered = flipped + [
        good[:-1], good[:-5], good[:len(sig)], good[:len(sig) + 1], good[1:],
        good + 'A', good + '&x=MQ==', good + '&', 'x=MQ==&' + good,
        osig + '?' + payload, sig + '?' + opayload,
        ref_serialize(model, OTHER_KEY), ref_serialize({'admin': True}, OTHER_KEY),
        base64.b64encode(os.urandom(20)).decode('ascii') + '?' + payload,
        'random-bytes', 'AAAA', '?', '??', '&', '=', '?=', 'a?b', 'a?b=c',
        '!!!?' + payload, sig.rstrip('=') + '?' + payload, sig + payload,
        sig + '&' + payload, 'e30=', '{}', 'null', '%00', 'x' * 5000,
    ]
    for t in tampered:
        bt = Browser(app)
        bt.raw = t
        assert bt.seen('/read') == {}, t
        # and the client can start over from an empty cookie
        bt.raw = t
        assert bt.seen('/set/fresh', query_string={'v': '1'}) == {'fresh': 1}, t
        assert bt.seen('/read') == {'fresh': 1}
    raw_headers = [
        'clastic_cookie=\xff\xfe\xfd', 'clastic_cookie="\xe2\x98\x83?a=b"',
        'clastic_cookie=caf\xe9?k=InYi', 'clastic_cookie="', 'clastic_cookie=""',
        'clastic_cookie=', 'clastic_cookie', 'clastic_cookie="%s' % good[:30],
        'other=1; clastic_cookie=zzz?k=v; third=3', 'clastic_cookie=\\"?a=b\\"',
        'clastic_cookie="\\377\\376?a=b"',
    ]
    for h in raw_headers:
        bt = Browser(app)
        resp = bt.go('/read', raw_header=h)
        assert resp.status_code == 200, (h, resp.status_code)
        assert json.loads(resp.data.decode('utf8'))['seen'] == {}, h
    # the untampered cookie is still fine (quoted or not)
    for h in ('clastic_cookie=%s' % good, 'clastic_cookie="%s"' % good,
              'a=1; clastic_cookie="%s"; b=2' % good):
        bt = Browser(app)
        resp = bt.go('/read', raw_header=h)
        assert resp.status_code == 200
        assert json.loads(resp.data.decode('utf8'))['seen'] == model, h

    # clear
    assert b.seen('/clear') == {}
    assert b.seen('/read') == {}
    return good, model


def check_expiry_clock():
    app, mw = make_app(expiry=100)
    b = Browser(app)
    t0 = CLOCK.now
    assert b.seen('/set/a', query_string={'v': '[1, 2]'}) == {'a': [1, 2]}
    cookie0 = b.raw
    assert cookie0 == ref_serialize({'a': [1, 2], '_expires': int(t0 + 100)})
    CLOCK.now = t0 + 50
    assert b.seen('/read') == {'a': [1, 2]}
    # sliding: re-stamped relative to the new now
    assert b.raw == ref_serialize({'a': [1, 2], '_expires': int(t0 + 150)})
    # replaying the first cookie right up to its expiry second works ...
    b.raw = cookie0
    CLOCK.now = float(int(t0 + 100))
    assert b.seen('/read') == {'a': [1, 2]}
    # ... and after it, it does not
    b.raw = cookie0
    CLOCK.now = int(t0 + 100) + 0.001
    assert b.seen('/read') == {}
    assert b.last_set_cookie is not None   # fresh, stamped, empty cookie
    assert b.raw == ref_serialize({'_expires': int(CLOCK.now + 100)})
    # explicit expiry chosen by the endpoint overrides the default lifetime
    assert b.seen('/set/z', query_string={'v': '"zz"'}) == {'z': 'zz'}
    seen = b.seen('/expire', query_string={'t': json.dumps(CLOCK.now + 7)})
    assert seen == {'z': 'zz', '_expires': CLOCK.now + 7}
    assert b.raw == ref_serialize({'z': 'zz', '_expires': int(CLOCK.now + 7)})
    assert 'Expires=%s' % cookie_date(CLOCK.now + 7) in b.last_set_cookie
    keep = b.raw
    CLOCK.now += 8
    assert b.seen('/read') == {}
    # set_expires() == "now" == long ago
    assert b.seen('/set/q', query_string={'v': '1'}) == {'q': 1}
    assert b.seen('/expire') == {'q': 1, '_expires': 123456}
    assert b.raw == ref_serialize({'q': 1, '_expires': 123456})
    assert 'Expires=%s' % cookie_date(123456) in b.last_set_cookie
    assert b.seen('/read') == {}
    b.raw = keep
    assert b.seen('/read') == {}

    for exp in (NEVER, SESSION):
        app, mw = make_app(expiry=exp)
        b = Browser(app)
        assert b.seen('/set/a', query_string={'v': '1'}) == {'a': 1}
        assert 'Expires' not in b.last_set_cookie
        assert b.raw == ref_serialize({'a': 1})
        CLOCK.now += 10 ** 9
        assert b.seen('/read') == {'a': 1}
        assert b.last_set_cookie is None
        # endpoint-chosen expiry works here, too
        t = CLOCK.now + 3
        assert b.seen('/expire', query_string={'t': json.dumps(t)}
                      ) == {'a': 1, '_expires': t}
        assert b.raw == ref_serialize({'a': 1, '_expires': int(t)})
        assert 'Expires=%s' % cookie_date(t) in b.last_set_cookie
        CLOCK.now += 2
        assert b.seen('/read') == {'a': 1}
        assert b.last_set_cookie is None
        CLOCK.now += 2
        assert b.seen('/read') == {}


def check_custom_names():
    def ep(jar):
        jar['n'] = jar.get('n', 0) + 1
        return Response(str(jar['n']))
    mw = SignedCookieMiddleware(arg_name='jar', cookie_name='sess-x',
                                secret_key=KEY, path='/p', domain='example.com',
                                secure=True, http_only=True, expiry=NEVER)
    assert mw.provides == ('jar',) and mw.cookie_name == 'sess-x'
    assert repr(mw) == "SignedCookieMiddleware(arg_name='jar', cookie_name='sess-x')"
    app = Application([('/p', ep)], middlewares=[mw])
    b = Browser(app, cookie_name='sess-x')
    for n in (1, 2, 3):
        assert b.go('/p').data == str(n).encode('ascii')
        sc_header = b.last_set_cookie
        for frag in ('Domain=example.com', 'Secure', 'HttpOnly', 'Path=/p'):
            assert frag in sc_header, sc_header
        assert b.raw == ref_serialize({'n': n})
    # a cookie under the default name is ignored
    resp = b.go('/p', raw_header='clastic_jar=%s' % b.raw)
    assert resp.data == b'1'
    mw2 = SignedCookieMiddleware(arg_name='jar')
    assert mw2.cookie_name == 'clastic_jar'
    assert type(mw2.secret_key) is bytes and len(mw2.secret_key) == 20
    assert mw2.expiry == SESSION == DEFAULT_EXPIRY
    assert SignedCookieMiddleware._cookie_type is JSONCookie


def ep_raw_expires(cookie, request):
    """Endpoint that manipulates '_expires' directly (op = set/pop/setpop)."""
    op = request.args['op']
    cookie['v'] = cookie.get('v', 0) + 1 if 'touch' in request.args \
        else cookie.get('v', 0)
    if op in ('set', 'setpop'):
        cookie['_expires'] = json.loads(request.args['t'])
    if op in ('pop', 'setpop'):
        cookie.pop('_expires', None)
    return _json_resp(cookie)


def expected_set_cookie(data, name='clastic_cookie'):
    """What the middleware must emit for a modified cookie holding *data*
    (mirrors SecureCookie.save_cookie/serialize, written independently)."""
    data = dict(data)
    kw = {}
    if '_expires' in data:
        kw['expires'] = data['_expires']
        if data['_expires']:
            data['_expires'] = int(data['_expires'])
    return dump_cookie(name, ref_serialize(data), path='/', **kw), data


def check_endpoint_chosen_expiry():
    routes = ROUTES + [('/rawexp', ep_raw_expires)]
    for expiry in (NEVER, SESSION, 0.0, 40, 2.5, -5, 1e9):
        has_lifetime = expiry not in (NEVER, SESSION)   # 0.0 == SESSION
        mw = SignedCookieMiddleware(secret_key=KEY, expiry=expiry)
        app = Application(routes, middlewares=[mw])
        now = CLOCK.now
        cands = [None, 0, 0.0, 1, 123456, now - 1, now, now + 0.5, now + 30,
                 int(now) + 30, now + 1e7, -1, 1.9]
        for t in cands:
            # --- endpoint sets '_expires' itself: that value wins, always
            b = Browser(app)
            seen = b.seen('/rawexp', query_string={'op': 'set', 'touch': '1',
                                                   't': json.dumps(t)})
            assert seen == {'v': 1, '_expires': t}, (expiry, t, seen)
            header, stored = expected_set_cookie({'v': 1, '_expires': t})
            assert b.last_set_cookie == header, (expiry, t, b.last_set_cookie,
                                                 header)
            # what the next request sees follows from the stored '_expires'
            nxt = b.seen('/rawexp', query_string={'op': 'pop'})
            if t is None:
                alive = False        # time() > None blows up -> invalid cookie
            else:
                alive = not (CLOCK.now > stored['_expires'])
            assert nxt == {'v': 1 if alive else 0}, (expiry, t, nxt)
            # --- endpoint sets and removes it again: default lifetime or none
            b = Browser(app)
            seen = b.seen('/rawexp', query_string={'op': 'setpop',
                                                   't': json.dumps(t)})
            assert seen == {'v': 0}
            if has_lifetime:
                header, _ = expected_set_cookie(
                    {'v': 0, '_expires': CLOCK.now + expiry})
            else:
                header, _ = expected_set_cookie({'v': 0})
                assert 'Expires' not in header
            assert b.last_set_cookie == header, (expiry, t, b.last_set_cookie)
        # --- untouched cookie on a later request
        b = Browser(app)
        assert b.seen('/set/v', query_string={'v': '7'}) == {'v': 7}
        first = b.raw
        assert b.seen('/read') == ({'v': 7} if expiry != -5 else {})
        if has_lifetime:
            # always re-stamped => always re-sent
            want = {'v': 7} if expiry != -5 else {}
            header, _ = expected_set_cookie(
                dict(want, _expires=CLOCK.now + expiry))
            assert b.last_set_cookie == header
        else:
            assert b.last_set_cookie is None and b.raw == first
    # the stamp is taken *after* the endpoint ran
    def ep_slow(cookie):
        cookie['x'] = 1
        CLOCK.now += 1000
        return _json_resp(cookie)
    mw = SignedCookieMiddleware(secret_key=KEY, expiry=10)
    app = Application([('/slow', ep_slow)], middlewares=[mw])
    b = Browser(app)
    before = CLOCK.now
    assert b.seen('/slow') == {'x': 1}
    header, _ = expected_set_cookie({'x': 1, '_expires': before + 1000 + 10})
    assert b.last_set_cookie == header
    # a lifetime that cannot be added to a timestamp is an error on both
    # versions, but only when a stamp is actually needed
    mw = SignedCookieMiddleware(secret_key=KEY, expiry='forever')
    app = Application(routes, middlewares=[mw])
    app.debug = False
    b = Browser(app)
    resp = b.go('/read')
    assert resp.status_code == 500
    assert not resp.headers.getlist('Set-Cookie')
    t = CLOCK.now + 5
    assert b.seen('/rawexp', query_string={'op': 'set', 't': json.dumps(t)}
                  ) == {'v': 0, '_expires': t}
    assert b.last_set_cookie == expected_set_cookie({'v': 0, '_expires': t})[0]


def main():
    check_codec_direct()
    for expiry in (NEVER, SESSION, 3600, 2.5):
        check_roundtrip(expiry)
    check_expiry_clock()
    check_custom_names()
    check_endpoint_chosen_expiry()
    print('PASS')


if __name__ == '__main__':
    main()
