# -*- coding: utf-8 -*-
"""demo1: the per-application sentinel route (NullRoute) and isolation of
applications.  Every Application binds its own NullRoute; 404 / 405 /
"last non-breaking exception" answers must come from the application that
received the request, embedding must not copy the sentinel, and binding the
same NullRoute (or a subclass of it) several times must not change it.
"""
import os
import sys

sys.path.insert(0, os.path.dirname(os.path.abspath(__file__)))

from clastic import Application, Route, GET, POST, SubApplication, Response
from clastic.application import DispatchState
from clastic.errors import (ErrorHandler, NotFound, MethodNotAllowed,
                            Forbidden, BadRequest)
from clastic.route import NullRoute, BoundRoute, S_REWRITE, S_STRICT, S_REDIRECT


def ep(name):
    def endpoint():
        return Response(name)
    endpoint.__name__ = 'ep_' + name
    return endpoint


def get(app, path, method='GET'):
    resp = app.get_local_client().open(path, method=method)
    return resp.status_code, resp.get_data(True)


def patterns(app):
    return [r.pattern for r in app.routes]


class TeapotNotFound(NotFound):
    code = 418


class TeapotHandler(ErrorHandler):
    not_found_type = TeapotNotFound


class GoneMNA(MethodNotAllowed):
    code = 410


class GoneHandler(ErrorHandler):
    method_not_allowed_type = GoneMNA


def main():
    # --- 1. each application owns a separately bound sentinel ------------
    app_a = Application([('/a', ep('a'))])
    app_b = Application([('/b', ep('b'))], error_handler=TeapotHandler())
    app_c = Application([POST('/c', ep('c'))], error_handler=GoneHandler())

    for app in (app_a, app_b, app_c):
        nr = app._null_route
        assert isinstance(nr, BoundRoute)
        assert type(nr.unbound_route) is NullRoute
        assert nr.bound_apps == [app]
        assert nr.pattern == '/<_ignored*>'
        # NullRoute.bind forces inherit_slashes=False -> keeps S_REWRITE
        assert nr.slash_mode == S_REWRITE, nr.slash_mode
        assert nr not in app.routes
    assert app_a._null_route is not app_b._null_route
    assert app_a._null_route.unbound_route is not app_b._null_route.unbound_route

    assert get(app_a, '/a') == (200, 'a')
    assert get(app_a, '/b')[0] == 404
    assert get(app_b, '/b') == (200, 'b')
    assert get(app_b, '/a')[0] == 418          # b's own not_found_type
    assert get(app_a, '/nope')[0] == 404       # a unaffected by b's handler
    assert get(app_c, '/c', 'POST') == (200, 'c')
    assert get(app_c, '/c', 'GET')[0] == 410   # c's own method_not_allowed_type
    assert get(app_c, '/zzz')[0] == 404
    assert get(app_a, '/a', 'POST')[0] == 200  # no methods restriction

    # --- 2. 405 vs 404 vs non-breaking exception priority -----------------
    def nonbreaking_forbidden():
        return Forbidden(is_breaking=False)

    def nonbreaking_bad():
        return BadRequest(is_breaking=False)

    app_d = Application([POST('/x', ep('x')),
                         GET('/y', nonbreaking_forbidden),
                         GET('/y', nonbreaking_bad),
                         GET('/z', nonbreaking_bad),
                         POST('/z', ep('z'))])
    assert get(app_d, '/x', 'GET')[0] == 405
    resp = app_d.get_local_client().get('/x')
    assert sorted(a.strip() for a in resp.headers['Allow'].split(',')) == ['POST']
    assert get(app_d, '/y')[0] == 400          # last non-breaking exception wins
    assert get(app_d, '/z', 'GET')[0] == 400   # exceptions outrank allowed_methods
    assert get(app_d, '/z', 'PUT')[0] == 405
    assert get(app_d, '/q')[0] == 404

    # direct calls of the sentinel endpoint, all three branches
    nr = NullRoute()
    ds = DispatchState()
    ret = nr.handle_sentinel_condition(request=None, _application=app_b,
                                       _route=None, _dispatch_state=ds)
    assert type(ret) is TeapotNotFound and ret.code == 418
    ds.update_methods(set(['PUT']))
    ret = nr.handle_sentinel_condition(request=None, _application=app_c,
                                       _route=None, _dispatch_state=ds)
    assert type(ret) is GoneMNA and ret.allowed_methods == set(['PUT'])
    marker = Forbidden(is_breaking=False)
    ds.add_exception(BadRequest())
    ds.add_exception(marker)
    ret = nr.handle_sentinel_condition(request=None, _application=app_c,
                                       _route=None, _dispatch_state=ds)
    assert ret is marker

    # --- 3. embedding never copies the sentinel, never edits the child ---
    child = Application([('/one', ep('one')), ('/two/', ep('two'))],
                        error_handler=TeapotHandler())
    child_before = patterns(child)
    child_null = child._null_route
    parent = Application([('/p', ep('p')), ('/sub', child)])
    parent2 = Application([SubApplication('/other/', child), ('/', child)])
    assert patterns(parent) == ['/p', '/sub/one', '/sub/two/']
    assert patterns(parent2) == ['/other/one', '/other/two/', '/one', '/two/']
    assert patterns(child) == child_before
    assert child._null_route is child_null
    assert child_null.bound_apps == [child]
    for app in (parent, parent2):
        assert not any(isinstance(r.unbound_route, NullRoute) for r in app.routes)
        assert list(SubApplication('/s', app).iter_routes()) == app.routes
    assert get(parent, '/sub/one') == (200, 'one')
    assert get(parent, '/sub/zzz')[0] == 404      # parent's handler, not 418
    assert get(parent2, '/zzz')[0] == 404
    assert get(child, '/zzz')[0] == 418           # child still its own
    assert get(child, '/one') == (200, 'one')

    # --- 4. one NullRoute object bound several times ----------------------
    shared = NullRoute()
    state = dict(vars(shared))
    strict_app = Application(slash_mode=S_STRICT, error_handler=TeapotHandler())
    b1 = shared.bind(app_a)
    b2 = shared.bind(strict_app, inherit_slashes=True)   # overridden to False
    b3 = b2.bind(app_c, prefix='/deep')
    assert vars(shared) == state
    assert shared.slash_mode == S_REWRITE and shared.pattern == '/<_ignored*>'
    assert (b1.slash_mode, b2.slash_mode) == (S_REWRITE, S_REWRITE)
    # re-binding a BoundRoute goes through BoundRoute.bind -> inherits again
    assert b3.slash_mode == S_REDIRECT
    assert b1.bound_apps == [app_a]
    assert b2.bound_apps == [strict_app]
    assert b3.bound_apps == [strict_app, app_c]
    assert b3.pattern == '/deep/<_ignored*>'
    assert b1.unbound_route is b2.unbound_route is b3.unbound_route is shared
    assert b1.match_path('/any/thing//') == {'_ignored': ['any', 'thing']}
    assert b2.match_path('/') == {'_ignored': []}
    # positional / unexpected arguments behave as before
    assert NullRoute('/ignored', 'args', are='dropped').pattern == '/<_ignored*>'
    try:
        shared.bind(app_a, bogus=1)
    except TypeError as te:
        assert 'unexpected keyword args' in str(te)
    else:
        raise AssertionError('expected TypeError')
    try:
        shared.bind()
    except TypeError:
        pass
    else:
        raise AssertionError('expected TypeError')

    # a NullRoute added explicitly is an ordinary catch-all of that app only
    app_e = Application([('/e', ep('e'))])
    app_e.add(shared, index=0)
    assert patterns(app_e) == ['/<_ignored*>', '/e']
    assert get(app_e, '/e')[0] == 404      # sentinel first -> NotFound (breaking)
    assert get(app_a, '/a') == (200, 'a')
    # embedding app_e skips NullRoute-derived bound routes?  (BoundRoute is
    # not a NullRoute instance, so it is carried over like any other route)
    app_f = Application([('/f', app_e)])
    assert patterns(app_f) == ['/f/<_ignored*>', '/f/e']
    assert patterns(app_e) == ['/<_ignored*>', '/e']

    # --- 5. subclass of NullRoute: cooperative super() chain --------------
    calls = []

    class LoudNull(NullRoute):
        def __init__(self, *a, **kw):
            calls.append('init')
            super(LoudNull, self).__init__(*a, **kw)

        def bind(self, *a, **kw):
            calls.append(('bind', kw.get('inherit_slashes')))
            return super(LoudNull, self).bind(*a, **kw)

    ln = LoudNull()
    lb = ln.bind(strict_app, inherit_slashes=True)
    assert calls == ['init', ('bind', True)]
    assert lb.slash_mode == S_REWRITE and type(lb) is BoundRoute
    assert ln.endpoint == ln.handle_sentinel_condition
    assert ln.methods is None and ln.slash_mode == S_REWRITE

    # --- 6. a failing add leaves sentinel and table alone -----------------
    before = (patterns(app_a), app_a._null_route)

    def needs_missing(missing_thing):
        return Response('never')

    for bad in (('/bad', needs_missing), ('no-slash', ep('n')), ('/dup/<a>/<a>', ep('d')),
                ('/<a>', Application([('/ok', ep('ok')), ('/x/<a>', ep('x'))])), 42):
        try:
            app_a.add(bad)
        except (NameError, ValueError, TypeError):
            pass
        else:
            raise AssertionError('expected failure for %r' % (bad,))
        assert (patterns(app_a), app_a._null_route) == before
    assert get(app_a, '/a') == (200, 'a')
    assert get(app_a, '/bad')[0] == 404

    # redirect branch untouched
    app_g = Application([('/g/', ep('g'))])
    assert get(app_g, '/g')[0] in (301, 302, 308)
    assert get(app_g, '/g/') == (200, 'g')

    print('PASS')


if __name__ == '__main__':
    main()
