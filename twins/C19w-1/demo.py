# -*- coding: utf-8 -*-
"""demo1: the sample store (Reservoir / RouteStatReservoir) stays bounded, counts
exactly, never raises and only contains added values -- before and after patch1."""
import os
import random
import sys

sys.path.insert(0, os.path.dirname(os.path.abspath(__file__)))

from clastic.middleware import stats
from clastic.middleware.stats import Reservoir, RouteStatReservoir, Hit


def check_reservoir(seed, cap, n_ops):
    rng = random.Random(seed)
    random.seed(seed)
    res = Reservoir(cap=cap)
    added = set()
    total = 0
    cur_cap = cap
    for i in range(n_ops):
        op = rng.random()
        if op < 0.85:
            val = (seed, i)
            res.add(val)
            added.add(val)
            total += 1
        elif op < 0.95:
            cur_cap = rng.randint(1, 12)
            res.resize(cur_cap)
        contents = list(res)
        assert contents == res.to_list()
        assert len(contents) <= cur_cap, (seed, cap, len(contents), cur_cap)
        assert res.total_count == total
        assert all(v in added for v in contents)
        assert len(set(contents)) == len(contents)  # every added value is distinct here
        assert len(contents) == min(len(contents), total)
        expected_repr = ('<Reservoir cap=%r, data_count=%r, total_count=%r>'
                         % (cur_cap, len(contents), total))
        assert repr(res) == expected_repr, (repr(res), expected_repr)
    return res


def main():
    for seed in range(60):
        for cap in (1, 2, 3, 5, 8):
            check_reservoir(seed, cap, 150)

    # below capacity everything is kept, in order
    res = Reservoir(cap=10, data=range(7))
    assert list(res) == list(range(7)) and res.total_count == 7
    # exactly at capacity, then one past it
    for v in (7, 8, 9):
        res.add(v)
    assert list(res) == list(range(10)) and res.total_count == 10
    res.add(10)
    assert len(list(res)) == 10 and res.total_count == 11
    assert set(res) <= set(range(11))

    # shrinking truncates (a new list), enlarging keeps and makes room again
    backing = []
    res = Reservoir(cap=6, container=backing)
    for v in 'abcdef':
        res.add(v)
    assert backing == list('abcdef')        # the container is aliased, not copied
    res.resize(6)
    assert res._data is backing             # a non-shrinking resize keeps the same list
    res.resize(3)
    assert list(res) == list('abc') and backing == list('abcdef')
    res.resize(5)
    res.add('g')
    res.add('h')
    assert list(res) == list('abcgh') and res.total_count == 8
    res.add('i')
    assert len(list(res)) == 5 and res.total_count == 9
    assert repr(res) == '<Reservoir cap=5, data_count=5, total_count=9>'

    # cap decoding
    assert Reservoir()._cap == 2 ** 14 and Reservoir(cap=True)._cap == 2 ** 14
    assert Reservoir(cap=False)._cap == float('inf')
    assert Reservoir(cap='7')._cap == 7
    unbounded = Reservoir(cap=False, data=range(500))
    assert list(unbounded) == list(range(500))
    assert repr(unbounded) == '<Reservoir cap=inf, data_count=500, total_count=500>'
    try:
        Reservoir(cap=2, container=[1, 2])
    except AssertionError as ae:
        assert str(ae) == 'initial count 2 must be lower than cap 2'
    else:
        raise SystemExit('expected AssertionError')
    pre = Reservoir(cap=3, container=[1, 2], data=[3, 4, 5])
    assert pre.total_count == 5 and len(list(pre)) == 3 and set(pre) <= {1, 2, 3, 4, 5}

    # deterministic replacement: force the drawn index through the global generator
    orig = random.random
    try:
        res = Reservoir(cap=2, data=['x', 'y'])
        random.random = lambda: 0.25     # int(0.25 * 4) == 1
        res.add('z')
        assert list(res) == ['x', 'z'] and res.total_count == 3
        random.random = lambda: 0.4      # int(0.4 * 5) == 2 == cap -> dropped
        res.add('w')
        assert list(res) == ['x', 'z'] and res.total_count == 4
        random.random = lambda: 0.0      # idx 0
        res.add('v')
        assert list(res) == ['v', 'z'] and res.total_count == 5
    finally:
        random.random = orig
    for _ in range(2000):
        assert 3 <= stats.fast_randint(3, 5) <= 5

    # RouteStatReservoir: last_hit / total_duration follow the adds, also past capacity
    rsr = RouteStatReservoir()
    assert rsr.last_hit is None and rsr.total_duration == 0.0 and rsr.total_count == 0
    assert repr(rsr) == '<RouteStatReservoir cap=16384, data_count=0, total_count=0>'
    rsr.resize(4)
    exp_dur = 0.0
    for i in range(50):
        hit = Hit(1000.0 + i, '/u', '/u', '200', 0.25 * i, 'text/plain')
        rsr.add(hit)
        exp_dur += 0.25 * i
        assert rsr.last_hit == 1000.0 + i and rsr.total_duration == exp_dur
        assert rsr.total_count == i + 1 and len(list(rsr)) == min(i + 1, 4)
        assert all(isinstance(h, Hit) for h in rsr)
    # a value without the Hit attributes is counted and stored, then the AttributeError surfaces
    try:
        rsr.add('not-a-hit')
    except AttributeError:
        pass
    else:
        raise SystemExit('expected AttributeError')
    assert rsr.total_count == 51 and rsr.last_hit == 1049.0

    print('PASS')


if __name__ == '__main__':
    main()
