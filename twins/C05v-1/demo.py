# -*- coding: utf-8 -*-
"""demo1: BoundRoute.match_path agrees with an independent, regex-free matcher.

Exercises C05 (URL patterns match exactly the paths their mini-language
describes) through BoundRoute.match_path: which paths match, what the
handler would receive, and that conversion failures mean "no match"
(None) instead of an exception.
"""
import itertools
import random
import sys

from clastic import Application, Response
from clastic.route import Route, BoundRoute, S_STRICT, S_REWRITE, S_REDIRECT

MODES = (S_STRICT, S_REWRITE, S_REDIRECT)
NO_OP = lambda: Response()
DIGITS = '0123456789'


# ---------------------------------------------------------------- reference
def _take_digits(s, i):
    j = i
    while j < len(s) and s[j] in DIGITS:
        j += 1
    return j


def lex_int(s):
    i = 0
    if i < len(s) and s[i] in '+-':
        i += 1
    while i < len(s) and s[i] == ' ':
        i += 1
    j = _take_digits(s, i)
    return j > i and j == len(s)


def lex_float(s):
    i = 0
    if i < len(s) and s[i] in '+-':
        i += 1
    while i < len(s) and s[i] == ' ':
        i += 1
    j = _take_digits(s, i)
    if j > i:
        i = j
        if i < len(s) and s[i] == '.':
            i = _take_digits(s, i + 1)
    elif i < len(s) and s[i] == '.':
        j = _take_digits(s, i + 1)
        if j == i + 1:
            return False
        i = j
    else:
        return False
    if i < len(s) and s[i] in 'eE':
        k = i + 1
        if k < len(s) and s[k] in '+-':
            k += 1
        j = _take_digits(s, k)
        if j == k:
            return False
        i = j
    return i == len(s)


LEX = {'str': lambda s: True, 'unicode': lambda s: True, None: lambda s: True,
       'int': lex_int, 'float': lex_float}
CONV = {'str': str, 'unicode': str, None: str, 'int': int, 'float': float}


def parse_pattern(pattern):
    """-> (elements, trailing_slash); element = ('lit', text) or
    ('bind', name, op, type)"""
    assert pattern.startswith('/')
    parts = pattern.split('/')[1:]
    trailing = parts[-1] == ''
    if trailing:
        parts = parts[:-1]
    elems = []
    for part in parts:
        if part.startswith('<'):
            body = part[1:-1]
            n = 0
            while n < len(body) and (body[n].isalnum() or body[n] == '_'):
                n += 1
            name, rest = body[:n], body[n:]
            op = ''
            if rest and rest[0] in ':?*+':
                op, rest = rest[0], rest[1:]
            if op == ':':
                op = ''
            elems.append(('bind', name, op, rest or None))
        else:
            elems.append(('lit', part))
    return elems, trailing


def tokenize(path, strict, trailing):
    """Split the path into (slash_run, segment) pieces, or None if the
    path's slashes are not acceptable in this mode."""
    if strict and trailing:
        if not path.endswith('/'):
            return None
        path = path[:-1]
    pieces = []
    i = 0
    while i < len(path):
        j = i
        while j < len(path) and path[j] == '/':
            j += 1
        if j == i:
            return None  # a segment without a leading slash
        k = j
        while k < len(path) and path[k] != '/':
            k += 1
        if k == j:
            # trailing run of slashes
            if strict:
                return None
            break
        if strict and j - i != 1:
            return None
        pieces.append((path[i:j], path[j:k]))
        i = k
    return pieces


def assignments(elems, pieces):
    """Yield assignments (dict name -> list of pieces) in the order a
    greedy backtracking matcher tries them."""
    if not elems:
        if not pieces:
            yield {}
        return
    el, rest = elems[0], elems[1:]
    if el[0] == 'lit':
        if pieces and pieces[0][1] == el[1]:
            for a in assignments(rest, pieces[1:]):
                yield a
        return
    _, name, op, type_name = el
    lex = LEX[type_name]
    avail = 0
    while avail < len(pieces) and lex(pieces[avail][1]):
        avail += 1
    lo, hi = {'': (1, 1), '?': (0, 1), '*': (0, None), '+': (1, None)}[op]
    hi = avail if hi is None else min(hi, avail)
    for n in range(hi, lo - 1, -1):
        for a in assignments(rest, pieces[n:]):
            a = dict(a)
            a[name] = pieces[:n]
            yield a


def ref_match(pattern, mode, path):
    elems, trailing = parse_pattern(pattern)
    pieces = tokenize(path, mode == S_STRICT, trailing)
    if pieces is None:
        return None
    first = next(assignments(elems, pieces), None)
    if first is None:
        return None
    ret = {}
    for el in elems:
        if el[0] != 'bind':
            continue
        _, name, op, type_name = el
        conv = CONV[type_name]
        taken = first[name]
        try:
            if op in ('*', '+'):
                # every extra slash of a repeated separator contributes an
                # empty item (that is what the implementation does)
                raw = []
                for slashes, seg in taken:
                    raw.extend([''] * (len(slashes) - 1))
                    raw.append(seg)
                ret[name] = [conv(r) for r in raw]
            elif not taken:
                ret[name] = None
            else:
                ret[name] = conv(taken[0][1])
        except ValueError:
            return None
    return ret


# ------------------------------------------------------------------ harness
def bind(pattern, mode):
    route = Route(pattern, NO_OP, slash_mode=mode)
    br = route.bind(Application(slash_mode=mode))
    assert isinstance(br, BoundRoute) and br.slash_mode == mode
    return br


def same(a, b):
    """== plus identical types (1 vs 1.0 vs '1')."""
    if a is None or b is None:
        return a is b
    if set(a) != set(b):
        return False
    for k in a:
        x, y = a[k], b[k]
        if type(x) is not type(y) or x != y:
            return False
        if isinstance(x, list) and [type(i) for i in x] != [type(i) for i in y]:
            return False
    return True


ALPHABET = ['/', 'a', '1', '.', '-', '+', ' ', 'e', u'\xe9']


def all_paths(max_len):
    for n in range(max_len + 1):
        for tup in itertools.product(ALPHABET, repeat=n):
            yield ''.join(tup)


PATTERNS = [
    '/', '/a', '/a/', '/a/1', '/a-b/c_d/',
    '/<x>', '/<x:>', '/<x:str>', '/<x:unicode>', '/<x:int>', '/<x:float>',
    '/<x?>', '/<x?str>', '/<x?int>', '/<x?float>',
    '/<x*>', '/<x*str>', '/<x*int>', '/<x*float>',
    '/<x+>', '/<x+str>', '/<x+int>', '/<x+float>',
    '/<x>/', '/<x?int>/', '/<x*float>/', '/<x+>/',
    '/a/<x?>/1', '/<x?int>/<y>', '/<x?int>/<y?int>', '/<x*>/<y*int>',
    '/<x+int>/<y+>', '/<x*int>/<y*float>', '/<x*>/a/<y*>', '/<x+>/<y+>/',
    '/a/<x:int>/<y*>/1', '/<x?>/<y?>/<z?>', '/<x*int>/<y?float>/<z+>/a',
    '/<x:float>/e/<y+int>/',
]

EXPLICIT = [
    # (pattern, mode, path, expected)
    ('/a/b/<t:int>/thing/<das+int>', S_REDIRECT, '/a/b/1/thing/1/2/3/4',
     {'t': 1, 'das': [1, 2, 3, 4]}),
    ('/a/b/<t:int>/thing/<das+int>', S_REDIRECT, '/a/b/1/thing/hi/', None),
    ('/a/b/<t:int>/thing/<das*int>', S_REDIRECT, '/a/b/1/thing', {'t': 1, 'das': []}),
    ('/<x:int>', S_REWRITE, '/+ 5', None),       # lexically fine, int() refuses
    ('/<x:int>', S_REWRITE, '/ 5', {'x': 5}),    # int() strips the blank
    ('/<x:int>', S_REWRITE, '/-5', {'x': -5}),
    ('/<x:int>', S_REWRITE, '/007', {'x': 7}),
    ('/<x:float>', S_STRICT, '/1.', {'x': 1.0}),
    ('/<x:float>', S_STRICT, '/.5e1', {'x': 5.0}),
    ('/<x:float>', S_STRICT, '/1e', None),
    ('/<x:float>', S_STRICT, '/- 1', None),      # float('- 1') refuses
    ('/<x?int>', S_STRICT, '', {'x': None}),
    ('/<x?int>', S_STRICT, '/', None),
    ('/<x?int>', S_REDIRECT, '//', {'x': None}),
    ('/<x*int>', S_REDIRECT, '/', {'x': []}),
    ('/<x*int>', S_REDIRECT, '/1/2/', {'x': [1, 2]}),
    ('/<x*int>', S_REDIRECT, '/1//2', None),     # '' between the slashes
    ('/<x*>', S_REDIRECT, '/1//2', {'x': ['1', '', '2']}),
    ('/<x:int>', S_REDIRECT, '//7//', {'x': 7}),
    ('/<x:int>', S_STRICT, '//7', None),
    ('/<x*>/<y*int>', S_REWRITE, '/a/1/2', {'x': ['a', '1', '2'], 'y': []}),
    ('/<x*int>/<y*>', S_REWRITE, '/1/2/a', {'x': [1, 2], 'y': ['a']}),
    ('/<x*int>/<y*>', S_REWRITE, '/1/+ 2/a', None),  # greedy pick, then int() fails
    ('/<x?>/<y>', S_REWRITE, '/q', {'x': None, 'y': 'q'}),
    ('/<x>', S_REWRITE, u'/\xe9 +', {'x': u'\xe9 +'}),
    ('/a/', S_STRICT, '/a', None),
    ('/a/', S_STRICT, '/a/', {}),
    ('/a', S_STRICT, '/a/', None),
    ('/a', S_REDIRECT, '/a///', {}),
    ('/a', S_REDIRECT, 'a', None),
]


def main():
    checked = matched = 0
    for pattern, mode, path, expected in EXPLICIT:
        got = bind(pattern, mode).match_path(path)
        assert same(got, expected), (pattern, mode, path, got, expected)
        assert same(ref_match(pattern, mode, path), expected), \
            ('reference', pattern, mode, path, ref_match(pattern, mode, path))
        checked += 1

    paths = list(all_paths(4))
    rng = random.Random(20261002)
    for _ in range(600):
        n = rng.randint(5, 40)
        paths.append(''.join(rng.choice(ALPHABET + ['/', '/', '1', '1'])
                             for _ in range(n)))

    for pattern in PATTERNS:
        for mode in MODES:
            br = bind(pattern, mode)
            for path in paths:
                try:
                    got = br.match_path(path)
                except Exception as e:  # the property: never raises
                    raise AssertionError('%r %r %r raised %r'
                                         % (pattern, mode, path, e))
                want = ref_match(pattern, mode, path)
                assert same(got, want), (pattern, mode, path, got, want)
                checked += 1
                matched += got is not None

    # every call hands out a fresh result (dicts and lists are not shared)
    br = bind('/<x*int>/<y?>', S_REWRITE)
    r1, r2 = br.match_path('/1/2'), br.match_path('/1/2')
    assert r1 == r2 == {'x': [1, 2], 'y': None}
    assert r1 is not r2 and r1['x'] is not r2['x']
    r1['x'].append(3)
    r1['z'] = 1
    assert br.match_path('/1/2') == {'x': [1, 2], 'y': None}
    e1, e2 = br.match_path(''), br.match_path('')
    assert e1 == {'x': [], 'y': None} and e1['x'] is not e2['x']
    # key order follows the pattern
    assert list(bind('/<b>/<a>/<c*>', S_STRICT).match_path('/1/2')) == ['b', 'a', 'c']
    # a route without bindings yields an empty (but not None) dict
    assert bind('/a', S_STRICT).match_path('/a') == {}
    assert bind('/a', S_STRICT).match_path('/b') is None

    assert matched > 20000, matched
    print('checked %d pattern/path pairs (%d matching)' % (checked, matched))
    print('PASS')
    return 0


if __name__ == '__main__':
    sys.exit(main())
