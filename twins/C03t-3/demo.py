# -*- coding: utf-8 -*-
"""demo3: C03 -- middlewares nest in the documented M-shaped order.

Focus: the code generator in clastic/sinter.py (build_chain_str, compile_chain,
make_chain): exact generated source for fixed inputs, argument availability per
nesting level, and the enter/leave/raise traces of chains built from it.

Standalone: run with /venv/bin/python demo3.py from the worktree; prints PASS.
"""
import os
import sys

sys.path.insert(0, os.path.dirname(os.path.abspath(__file__)))

from werkzeug.test import EnvironBuilder

from clastic import Application, Route, Middleware, Response, BaseResponse
from clastic.middleware.core import merge_middlewares

# --------------------------------------------------------------------------
# harness: tracing middlewares / endpoint / render, plus an independent model
# --------------------------------------------------------------------------

TRACE = []
PRODUCED = []  # every value object created by a layer / endpoint / render


class Boom(Exception):
    def __init__(self, tag):
        Exception.__init__(self, tag)
        self.tag = tag


def _produce(obj):
    PRODUCED.append(obj)
    return obj


def _run_layer(tag, mode, next):
    TRACE.append('>' + tag)
    if mode == 'raise_before':
        TRACE.append('!' + tag)
        raise Boom(tag)
    if mode == 'short':
        TRACE.append('<' + tag + ':short')
        return _produce(Response('short:' + tag))
    if mode == 'short_ctx':
        TRACE.append('<' + tag + ':short_ctx')
        return _produce({'ctx': 'short:' + tag})
    try:
        ret = next()
    except Boom as e:
        if mode == 'swallow':
            TRACE.append('~' + tag)
            return _produce(Response('swallowed:%s@%s' % (e.tag, tag)))
        TRACE.append('x' + tag)
        raise
    if mode == 'raise_after':
        TRACE.append('!' + tag)
        raise Boom(tag)
    TRACE.append('<' + tag)
    return ret


def mw_class(name, kinds='qer', unique=True, reorderable=True):
    ns = {'unique': unique, 'reorderable': reorderable}

    def __init__(self, label=None, **modes):
        self.label = label or name
        self.modes = modes
    ns['__init__'] = __init__
    ns['__repr__'] = lambda self: '<mw %s>' % self.label

    if 'q' in kinds:
        def request(self, next):
            return _run_layer(self.label + '.request',
                              self.modes.get('request', 'pass'), next)
        ns['request'] = request
    if 'e' in kinds:
        def endpoint(self, next):
            return _run_layer(self.label + '.endpoint',
                              self.modes.get('endpoint', 'pass'), next)
        ns['endpoint'] = endpoint
    if 'r' in kinds:
        def render(self, next, context):
            return _run_layer(self.label + '.render',
                              self.modes.get('render', 'pass'), next)
        ns['render'] = render
    return type(name, (Middleware,), ns)


class Core(object):
    """endpoint + render pair with switchable behaviour."""
    def __init__(self):
        self.ep_mode = 'ctx'
        self.rn_mode = 'ok'
        core = self

        def endpoint():
            TRACE.append('>endpoint')
            if core.ep_mode == 'raise':
                TRACE.append('!endpoint')
                raise Boom('endpoint')
            TRACE.append('<endpoint')
            if core.ep_mode == 'resp':
                return _produce(Response('ep-resp'))
            return _produce({'ctx': 'from-endpoint'})

        def render(context):
            TRACE.append('>render')
            if core.rn_mode == 'raise':
                TRACE.append('!render')
                raise Boom('render')
            TRACE.append('<render')
            return _produce(Response('rendered:' + context['ctx']))

        self.endpoint = endpoint
        self.render = render


def tokenise(obj):
    if isinstance(obj, BaseResponse):
        return ('resp', obj.get_data(as_text=True))
    return ('ctx', obj['ctx'])


def run_real(func, **kwargs):
    del TRACE[:]
    del PRODUCED[:]
    try:
        ret = func(**kwargs)
    except Boom as e:
        result = ('raised', e.tag)
    else:
        result = tokenise(ret)
        # what comes out of the chain IS the object some layer produced
        assert any(ret is p for p in PRODUCED), ret
    return list(TRACE), result


def layers(mws, kind):
    return [(mw.label + '.' + kind, mw.modes.get(kind, 'pass'))
            for mw in mws if getattr(mw, kind)]


def model(mws, ep_mode, rn_mode):
    """Independent reference semantics of the documented onion."""
    trace = []

    def chain(stack, final, i=0):
        if i == len(stack):
            return final()
        tag, mode = stack[i]
        trace.append('>' + tag)
        if mode == 'raise_before':
            trace.append('!' + tag)
            raise Boom(tag)
        if mode == 'short':
            trace.append('<' + tag + ':short')
            return ('resp', 'short:' + tag)
        if mode == 'short_ctx':
            trace.append('<' + tag + ':short_ctx')
            return ('ctx', 'short:' + tag)
        try:
            ret = chain(stack, final, i + 1)
        except Boom as e:
            if mode == 'swallow':
                trace.append('~' + tag)
                return ('resp', 'swallowed:%s@%s' % (e.tag, tag))
            trace.append('x' + tag)
            raise
        if mode == 'raise_after':
            trace.append('!' + tag)
            raise Boom(tag)
        trace.append('<' + tag)
        return ret

    def ep_final():
        trace.append('>endpoint')
        if ep_mode == 'raise':
            trace.append('!endpoint')
            raise Boom('endpoint')
        trace.append('<endpoint')
        return ('resp', 'ep-resp') if ep_mode == 'resp' else ('ctx', 'from-endpoint')

    def process_request():
        context = chain(layers(mws, 'endpoint'), ep_final)
        if context[0] == 'resp':
            return context

        def rn_final():
            trace.append('>render')
            if rn_mode == 'raise':
                trace.append('!render')
                raise Boom('render')
            trace.append('<render')
            return ('resp', 'rendered:' + context[1])
        return chain(layers(mws, 'render'), rn_final)

    try:
        result = chain(layers(mws, 'request'), process_request)
    except Boom as e:
        result = ('raised', e.tag)
    return trace, result


def model_merge(levels):
    """levels: outermost first.  Unique type appears once, outermost position."""
    out = []
    for level in levels:
        for mw in level:
            if mw.unique and any(type(o) is type(mw) for o in out):
                if not mw.reorderable:
                    raise ValueError('multiple inclusion of unique '
                                     'middleware %r' % mw.name)
                continue
            out.append(mw)
    return out


FAULTS = ('raise_before', 'raise_after', 'short', 'short_ctx', 'swallow')
CHECKS = [0]


def check_stack(execute, mws, core, full=True):
    """Cross every single / double fault with endpoint + render behaviours."""
    def one():
        got = run_real(execute)
        want = model(mws, core.ep_mode, core.rn_mode)
        assert got == want, '\n got %r\nwant %r' % (got, want)
        CHECKS[0] += 1

    def reset():
        for mw in mws:
            mw.modes.clear()

    slots = [(mw, kind) for mw in mws for kind in ('request', 'endpoint', 'render')
             if getattr(mw, kind)]
    for core.ep_mode in ('ctx', 'resp', 'raise'):
        for core.rn_mode in ('ok', 'raise'):
            reset()
            one()
            for mw, kind in slots:
                for fault in FAULTS:
                    reset()
                    mw.modes[kind] = fault
                    one()
    if full:
        # swallow at X crossed with a raise at Y
        core.ep_mode, core.rn_mode = 'ctx', 'ok'
        for smw, skind in slots:
            for rmw, rkind in slots:
                if smw is rmw and skind == rkind:
                    continue
                for fault in ('raise_before', 'raise_after'):
                    reset()
                    smw.modes[skind] = 'swallow'
                    rmw.modes[rkind] = fault
                    one()
    reset()
    core.ep_mode, core.rn_mode = 'ctx', 'ok'


def make_request(app, path='/'):
    return app.request_type(EnvironBuilder(path=path).get_environ())


def find_route(app, pattern):
    found = [rt for rt in app.routes if rt.pattern == pattern]
    assert len(found) == 1, (pattern, [rt.pattern for rt in app.routes])
    return found[0]


def same_objects(a, b):
    return len(a) == len(b) and all(x is y for x, y in zip(a, b))


# --------------------------------------------------------------------------
# demo 3 proper: sinter.build_chain_str / compile_chain / make_chain
# --------------------------------------------------------------------------
from clastic.sinter import build_chain_str, compile_chain, make_chain
from clastic.middleware.core import make_middleware_chain


def f0(next, a, b=2):
    return ('f0', a, b, next(c=a + 1))


def f1(next, c):
    return ('f1', c, next(d=c * 10))


def f2(a, c, d=4):
    return ('f2', a, c, d)


GOLDEN_3 = '''\
def next(a, z):
    def next(c):
        def next(d):
            __traceback_hide__ = True
            return funcs[2](a=a, c=c, d=d)
        __traceback_hide__ = True
        return funcs[1](c=c, next=next)
    __traceback_hide__ = True
    return funcs[0](a=a, next=next)
'''


def test_chain_str():
    assert build_chain_str([], [], 'next') == ''
    assert build_chain_str((), [['ignored']], 'next') == ''
    got = build_chain_str([f0, f1, f2], [['a', 'z'], ['c'], ['d']], 'next')
    assert got == GOLDEN_3, got
    # tuples work as well as lists; extra params entries are ignored
    got = build_chain_str((f0, f1, f2), (('a', 'z'), ('c',), ('d',), ('extra',)), 'next')
    assert got == GOLDEN_3, got

    # an argument only becomes available from the level that provides it on:
    # g0 defaults d although a deeper level provides d
    def g0(next, d=0):
        return next(d=5)

    def g1(d, e=1):
        return d, e
    got = build_chain_str([g0, g1], [[], ['d']], 'inner')
    assert got == ('def inner():\n'
                   '    def inner(d):\n'
                   '        __traceback_hide__ = True\n'
                   '        return funcs[1](d=d)\n'
                   '    __traceback_hide__ = True\n'
                   '    return funcs[0]()\n'), got
    # inner_name itself is always passable
    got = build_chain_str([g0, g1], [[], ['d']], 'next')
    assert got.endswith('    return funcs[0](next=next)\n'), got

    # explicit params_sofar is used (and extended) in place, level offsets
    # both indentation and the funcs index
    sofar = set(['e'])
    got = build_chain_str([g1], [['d']], 'next', sofar, 2)
    assert got == ('        def next(d):\n'
                   '            __traceback_hide__ = True\n'
                   '            return funcs[2](d=d, e=e)\n'), got
    assert sofar == set(['e', 'd']), sofar
    sofar = set()
    got = build_chain_str([g0, g1], [['q'], ['d']], 'next', params_sofar=sofar, level=0)
    assert sofar == set(['q', 'd'])   # inner_name is not added to a given set
    assert '    return funcs[0]()\n' in got
    # an empty set passed explicitly is still used (not replaced by a default)
    empty = set()
    build_chain_str([g1], [['d']], 'next', empty)
    assert empty == set(['d'])
    # not touched at all when there is nothing to do
    untouched = set(['k'])
    assert build_chain_str([], [], 'next', untouched) == ''
    assert untouched == set(['k'])

    # params shorter than funcs -> IndexError (at the level where they run out)
    for funcs, params in (([g0, g1], [[]]), ([g1], [])):
        try:
            build_chain_str(funcs, params, 'next')
        except IndexError:
            pass
        else:
            raise AssertionError('expected IndexError')
    # unsupported callables surface get_fb's error
    try:
        build_chain_str([42], [[]], 'next')
    except Exception as e:
        first_err = (type(e), str(e))
    else:
        raise AssertionError('expected an error')
    sofar = set()
    try:
        build_chain_str([g0, 42], [['p'], ['q']], 'next', sofar)
    except Exception as e:
        assert (type(e), str(e)) == first_err
    else:
        raise AssertionError('expected an error')
    assert sofar == set(['p', 'q'])   # params are registered before the func is inspected

    # one-shot iterables as params entries: consumed by the bookkeeping, the
    # def line then sees nothing (kept as is)
    got = build_chain_str([g1], [iter(['d'])], 'next')
    assert got == ('def next():\n'
                   '    __traceback_hide__ = True\n'
                   '    return funcs[0](d=d)\n'), got
    CHECKS[0] += 1


def test_compile_and_make_chain():
    chain = compile_chain([f0, f1, f2], [['a', 'z'], ['c'], ['d']], 'next')
    assert chain.__name__ == 'next'
    assert chain(a=1, z=None) == ('f0', 1, 2, ('f1', 2, ('f2', 1, 2, 20)))
    assert chain(7, 'z') == ('f0', 7, 2, ('f1', 8, ('f2', 7, 8, 80)))

    chain, args, unres = make_chain([f0, f1], [['c'], ['d']], f2, ['a', 'b', 'x'], 'next')
    assert type(args) is set and type(unres) is set
    assert args == set(['a', 'b']) and unres == set()
    assert chain(a=1, b=5) == ('f0', 1, 5, ('f1', 2, ('f2', 1, 2, 20)))
    # unresolved requirement is still a chain argument
    chain, args, unres = make_chain([f0, f1], [['c'], ['d']], f2, ['b'], 'next')
    assert args == set(['a', 'b']) and unres == set(['a'])
    assert chain(a=3, b=0) == ('f0', 3, 0, ('f1', 4, ('f2', 3, 4, 40)))
    # optional and not preprovided: left to the default
    chain, args, unres = make_chain((f0, f1), (['c'], ['d']), f2, iter(['a']), 'next')
    assert args == set(['a']) and unres == set()
    assert chain(a=3) == ('f0', 3, 2, ('f1', 4, ('f2', 3, 4, 40)))
    # no middleware funcs: just the final function
    chain, args, unres = make_chain([], [], f2, ['a', 'c', 'd'], 'next')
    assert args == set(['a', 'c', 'd']) and unres == set()
    assert chain(a=1, c=2, d=3) == ('f2', 1, 2, 3)
    # caller's lists are not modified
    funcs, provides = [f0, f1], [['c'], ['d']]
    make_chain(funcs, provides, f2, ['a'], 'next')
    assert funcs == [f0, f1] and provides == [['c'], ['d']]
    # returned sets are independent copies
    chain, args, unres = make_chain([], [], f2, ['a', 'c'], 'next')
    args.add('junk')
    assert chain(a=1, c=2) == ('f2', 1, 2, 4)

    # nesting / unwinding order and exception transparency
    log = []

    def outer(next):
        log.append('>outer')
        try:
            return next(v=1)
        finally:
            log.append('<outer')

    def middle(next, v):
        log.append('>middle')
        try:
            return next()
        except KeyError as ke:
            log.append('middle saw %r' % (ke,))
            raise
        finally:
            log.append('<middle')

    def last(v, boom=False):
        log.append('last')
        if boom:
            raise KeyError(v)
        return v

    chain, args, unres = make_chain([outer, middle], [['v'], []], last, ['boom'], 'next')
    assert args == set(['boom'])
    assert chain(boom=False) == 1
    assert log == ['>outer', '>middle', 'last', '<middle', '<outer']
    del log[:]
    err = None
    try:
        chain(boom=True)
    except KeyError as ke:
        err = ke
    assert err is not None and err.args == (1,)
    assert log == ['>outer', '>middle', 'last', 'middle saw KeyError(1,)', '<middle', '<outer'] \
        or log == ['>outer', '>middle', 'last', 'middle saw KeyError(1)', '<middle', '<outer'], log
    CHECKS[0] += 1


A = mw_class('A')
B = mw_class('B')
C = mw_class('C', kinds='qe')
D = mw_class('D', kinds='er')
N = mw_class('N', unique=False)


def test_middleware_stacks():
    for mws in ([], [A('a')], [A('a'), B('b'), C('c')],
                [D('d'), C('c'), N('n1'), A('a'), N('n2')]):
        core = Core()
        chain = make_middleware_chain(mws, core.endpoint, core.render, [])
        check_stack(chain, mws, core, full=(len(mws) <= 3))

    # and once through an application with sub-application and route levels
    core = Core()
    route_mws = [B('B@rt'), D('D@rt')]
    inner = Application([Route('/x', core.endpoint, core.render, middlewares=route_mws)],
                        middlewares=[A('A@in'), C('C@in')])
    outer_mws = [B('B@out'), N('N@out')]
    outer = Application([('/sub', inner)], middlewares=outer_mws)
    bound = find_route(outer, '/sub/x')
    expected = model_merge([outer_mws, inner.middlewares, route_mws])
    assert same_objects(bound.middlewares, expected)
    request = make_request(outer, '/sub/x')
    check_stack(lambda: bound.execute(request=request), expected, core, full=False)


if __name__ == '__main__':
    test_chain_str()
    test_compile_and_make_chain()
    test_middleware_stacks()
    assert CHECKS[0] > 1000, CHECKS[0]
    print('PASS (%d checks)' % CHECKS[0])
