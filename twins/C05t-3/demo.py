# -*- coding: utf-8 -*-
"""demo3: URL patterns match exactly the paths their mini-language describes.

Focus: the tables the mechanism is driven by -- the BINDING regex, the
operator tables (_OP_ARITY_MAP / _OP_OPTIONALITY_MAP), the per-type segment
patterns (_INT_PATTERN / _FLOAT_PATTERN / _STR_PATTERN), DEFAULT_CONVS and the
TYPE_CONV_MAP / TYPE_PATT_MAP registries -- and what they imply for every
type x operator combination and for the int / float lexical forms
(exhaustively over short strings, against independent oracles).

Prints PASS and exits 0 when every assertion holds.
"""
from __future__ import print_function

import re
import sys
import random
import itertools

from clastic import Application, Route
from clastic import route as route_mod
from clastic.route import (InvalidPattern, S_STRICT, S_REDIRECT, S_REWRITE,
                           BINDING, _compile_path_pattern)

MODES = (S_STRICT, S_REDIRECT, S_REWRITE)

# --------------------------------------------------------------------------
# frozen reference values
# --------------------------------------------------------------------------
REF_BINDING_SRC = r'<(?P<name>[A-Za-z_]\w*)(?P<op>\W*)(?P<type>\w+)*>'
REF_BINDING = re.compile(REF_BINDING_SRC)
REF_FLOAT = r'[+-]?\ *(\d+(\.\d*)?|\.\d+)([eE][+-]?\d+)?'
REF_INT = r'[+-]?\ *[0-9]+'
REF_STR = r'[^/]+'
REF_CONV = {'int': int, 'float': float, 'str': str, 'unicode': str}
REF_PATT = {'int': REF_INT, 'float': REF_FLOAT, 'str': REF_STR,
            'unicode': REF_STR}
REF_MULTI = {'': False, '?': False, ':': False, '+': True, '*': True}
REF_OPT = {'': False, '?': True, ':': False, '+': False, '*': True}

APP = Application()


def endpoint():
    return None


def live_route(pattern, mode):
    rt = Route(pattern, endpoint, slash_mode=mode)
    return rt.bind(APP, inherit_slashes=False)


def canon(result):
    if result is None:
        return None
    return repr(list(result.items()))


# --------------------------------------------------------------------------
# 1. the constants themselves
# --------------------------------------------------------------------------
def check_constants():
    m = route_mod
    assert BINDING.pattern == REF_BINDING_SRC
    assert BINDING.flags == REF_BINDING.flags
    assert BINDING.groupindex == {'name': 1, 'op': 2, 'type': 3}
    assert BINDING.groups == 3
    assert m._FLOAT_PATTERN == REF_FLOAT and type(m._FLOAT_PATTERN) is str
    assert m._INT_PATTERN == REF_INT and type(m._INT_PATTERN) is str
    assert m._STR_PATTERN == REF_STR
    assert m._SEG_TMPL == '(?P<{name}>({sep}{pattern}){arity})'

    # operator tables: same content, same key order (it shows in messages)
    assert type(m._OP_ARITY_MAP) is dict and type(m._OP_OPTIONALITY_MAP) is dict
    assert m._OP_ARITY_MAP == REF_MULTI
    assert m._OP_OPTIONALITY_MAP == REF_OPT
    assert list(m._OP_ARITY_MAP) == ['', '?', ':', '+', '*']
    assert list(m._OP_OPTIONALITY_MAP) == ['', '?', ':', '+', '*']
    assert m._OP_ARITY_MAP is not m._OP_OPTIONALITY_MAP
    for table in (m._OP_ARITY_MAP, m._OP_OPTIONALITY_MAP):
        assert all(type(v) is bool for v in table.values())
    assert repr(m._OP_ARITY_MAP.keys()) == \
        "dict_keys(['', '?', ':', '+', '*'])"

    # type tables
    assert type(m.DEFAULT_CONVS) is list
    assert m.DEFAULT_CONVS == [('int', int, REF_INT),
                               ('float', float, REF_FLOAT),
                               ('str', str, REF_STR),
                               ('unicode', str, REF_STR)]
    assert all(type(row) is tuple for row in m.DEFAULT_CONVS)
    assert type(m.TYPE_CONV_MAP) is dict and type(m.TYPE_PATT_MAP) is dict
    assert m.TYPE_CONV_MAP is not m.TYPE_PATT_MAP
    assert m.TYPE_CONV_MAP == REF_CONV
    assert m.TYPE_PATT_MAP == REF_PATT
    assert list(m.TYPE_CONV_MAP) == ['int', 'float', 'str', 'unicode']
    assert list(m.TYPE_PATT_MAP) == ['int', 'float', 'str', 'unicode']
    assert m.TYPE_CONV_MAP['int'] is int and m.TYPE_CONV_MAP['float'] is float
    assert m.TYPE_CONV_MAP['str'] is str and m.TYPE_CONV_MAP['unicode'] is str
    assert m.unicode is str
    # the registration loop's variables stay behind in the module namespace
    assert (m.name, m.func, m.pattern) == ('unicode', str, REF_STR)


# --------------------------------------------------------------------------
# 2. registering a converter mutates the shared registries in place
# --------------------------------------------------------------------------
def check_registration():
    m = route_mod
    conv_map, patt_map = m.TYPE_CONV_MAP, m.TYPE_PATT_MAP

    def hexint(text):
        return int(text, 16)
    try:
        assert m._register_converter('hex', hexint, r'[0-9a-f]+') is None
        assert m.TYPE_CONV_MAP is conv_map and m.TYPE_PATT_MAP is patt_map
        assert conv_map['hex'] is hexint and patt_map['hex'] == r'[0-9a-f]+'
        assert list(conv_map)[-1] == 'hex' and list(patt_map)[-1] == 'hex'
        for mode in MODES:
            bound = live_route('/c/<v:hex>/<rest*hex>', mode)
            assert canon(bound.match_path('/c/ff/10/a')) == \
                canon({'v': 255, 'rest': [16, 10]})
            assert bound.match_path('/c/fg') is None
        # re-registration overrides
        m._register_converter('hex', int, r'[0-9]+')
        assert conv_map['hex'] is int and patt_map['hex'] == r'[0-9]+'
        assert live_route('/c/<v:hex>', S_STRICT).match_path('/c/ff') is None
        assert live_route('/c/<v:hex>', S_STRICT).match_path('/c/12') == \
            {'v': 12}
    finally:
        conv_map.pop('hex', None)
        patt_map.pop('hex', None)
    try:
        Route('/c/<v:hex>', endpoint)
    except InvalidPattern as exc:
        assert str(exc) == 'unknown type specifier hex'
    else:
        raise AssertionError('hex still registered')
    assert m.DEFAULT_CONVS[0][0] == 'int' and len(m.DEFAULT_CONVS) == 4


# --------------------------------------------------------------------------
# 3. BINDING: how a pattern segment is split into name / op / type
# --------------------------------------------------------------------------
def check_binding_regex():
    table = {
        '<x>': ('x', '', None),
        '<x:>': ('x', ':', None),
        '<x:int>': ('x', ':', 'int'),
        '<x?int>': ('x', '?', 'int'),
        '<x*>': ('x', '*', None),
        '<x+float>': ('x', '+', 'float'),
        '<_x9?str>': ('_x9', '?', 'str'),
        '<xint>': ('xint', '', None),
        '<x??int>': ('x', '??', 'int'),
        '<x :int>': ('x', ' :', 'int'),
        '<x-y>': ('x', '-', 'y'),
        '<x>tail': ('x', '', None),
        u'<\xe9>': None,               # names start with an ASCII letter / _
        u'<x\xe9?\xe9t\xe9>': (u'x\xe9', '?', u'\xe9t\xe9'),
        '<9x>': None,
        '<>': None,
        '< x>': None,
        '<x': None,
        'x<y>': None,
        '<x:int:int>': None,
        '<x:int >': None,
        '': None,
    }
    for text, want in table.items():
        match = BINDING.match(text)
        got = match and (match.group('name'), match.group('op'),
                         match.group('type'))
        assert got == want, (text, got, want)
        assert (match is None) == (REF_BINDING.match(text) is None)
    # exhaustive agreement with the reference over short segments
    alphabet = ['<', '>', 'x', '1', '_', ':', '?', '*', '+', ' ']
    n = 0
    for size in range(0, 6):
        for tup in itertools.product(alphabet, repeat=size):
            text = ''.join(tup)
            live, ref = BINDING.match(text), REF_BINDING.match(text)
            assert (live is None) == (ref is None), text
            if live is not None:
                assert live.groupdict() == ref.groupdict(), text
                assert live.span() == ref.span(), text
            n += 1
    return n


# --------------------------------------------------------------------------
# 4. every type x operator combination
# --------------------------------------------------------------------------
def check_type_op_matrix():
    samples = {'int': ('7', 7), 'float': ('7', 7.0), 'str': ('7', '7'),
               'unicode': ('7', '7'), '': ('7', '7')}
    n = 0
    for type_name, (text, value) in samples.items():
        for op in ('', ':', '?', '*', '+'):
            if op == '' and type_name:
                continue   # '<xint>' would be a binding called "xint"
            multi, optional = REF_MULTI[op], REF_OPT[op]
            pattern = '/p/<x%s%s>/q' % (op, type_name)
            for mode in MODES:
                bound = live_route(pattern, mode)
                one = bound.match_path('/p/%s/q' % text)
                two = bound.match_path('/p/%s/%s/q' % (text, text))
                zero = bound.match_path('/p/q')
                bad = bound.match_path('/p/+ 1/q')
                assert canon(one) == canon({'x': [value] if multi else value})
                assert canon(two) == (canon({'x': [value, value]}) if multi
                                      else None), (pattern, two)
                if optional:
                    assert canon(zero) == canon({'x': [] if multi else None})
                else:
                    assert zero is None, (pattern, zero)
                if type_name in ('int', 'float'):
                    assert bad is None, (pattern, bad)
                else:
                    assert canon(bad) == canon(
                        {'x': ['+ 1'] if multi else '+ 1'})
                n += 1
    # ':' is the same as no operator
    for mode in MODES:
        assert live_route('/<x:>', mode).regex.pattern == \
            live_route('/<x>', mode).regex.pattern
        # unicode is the default type and 'str' is its synonym
        srcs = set(live_route('/<x%s>' % spec, mode).regex.pattern
                   for spec in ('', ':', ':str', ':unicode'))
        assert len(srcs) == 1, srcs
    # unknown operators / types are rejected, listing the operator table
    for spec, message in [
            ('!', "unknown arity operator '!', expected one of "
                  "dict_keys(['', '?', ':', '+', '*'])"),
            ('**', "unknown arity operator '**', expected one of "
                   "dict_keys(['', '?', ':', '+', '*'])"),
            (':bool', 'unknown type specifier bool'),
            (':INT', 'unknown type specifier INT'),
            ('?bytes', 'unknown type specifier bytes')]:
        for mode in MODES:
            try:
                Route('/<x%s>' % spec, endpoint, slash_mode=mode)
            except InvalidPattern as exc:
                assert str(exc) == message, (spec, str(exc))
            else:
                raise AssertionError(spec)
    return n


# --------------------------------------------------------------------------
# 5. int / float lexical forms, exhaustively over short segments
# --------------------------------------------------------------------------
def int_oracle(text):
    """Hand-written scanner for  [+-]? ' '* [0-9]+  (no regex involved)."""
    i = 0
    if i < len(text) and text[i] in '+-':
        i += 1
    had_sign = i == 1
    spaces = 0
    while i < len(text) and text[i] == ' ':
        i += 1
        spaces += 1
    digits = text[i:]
    if not digits or any(ch not in '0123456789' for ch in digits):
        return None
    if had_sign and spaces:
        return None          # shape ok, but int() refuses '+ 5'
    value = 0
    for ch in digits:
        value = value * 10 + '0123456789'.index(ch)
    return -value if text[0] == '-' else value


def float_oracle(text):
    """Hand-written scanner for the float segment grammar
    [+-]? ' '* ( D+ ('.' D*)? | '.' D+ ) ( [eE] [+-]? D+ )?   (no regex)."""
    digits = '0123456789'
    i, n = 0, len(text)
    had_sign = False
    if i < n and text[i] in '+-':
        i += 1
        had_sign = True
    spaces = 0
    while i < n and text[i] == ' ':
        i += 1
        spaces += 1
    # mantissa
    start = i
    while i < n and text[i] in digits:
        i += 1
    if i > start:
        if i < n and text[i] == '.':
            i += 1
            while i < n and text[i] in digits:
                i += 1
    else:
        if not (i < n and text[i] == '.'):
            return None
        i += 1
        start = i
        while i < n and text[i] in digits:
            i += 1
        if i == start:
            return None
    # optional exponent, which has to use up the rest of the segment
    if i < n:
        if text[i] not in 'eE':
            return None
        i += 1
        if i < n and text[i] in '+-':
            i += 1
        start = i
        while i < n and text[i] in digits:
            i += 1
        if i == start or i != n:
            return None
    if had_sign and spaces:
        return None          # shape ok, but float() refuses '+ 5'
    return float(text)


def check_lexical_forms():
    alphabet = ['0', '1', '9', '+', '-', ' ', '.', 'e', 'E', 'a', '_']
    segments = [''.join(t) for size in range(1, 5)
                for t in itertools.product(alphabet, repeat=size)]
    segments += ['12345', '-12345', '1.5e10', '1.5e-10', '1.5E+10', '  42',
                 '+  42', '-.5e1', '1e5e5', '1.2.3', '.e1', '1.e1', '00.00',
                 u'١٢', u'1٢', 'inf', 'nan', '0x10', '1e400']
    int_route = live_route('/n/<v:int>', S_STRICT)
    float_route = live_route('/n/<v:float>', S_STRICT)
    str_route = live_route('/n/<v>', S_STRICT)
    ints = floats = 0
    for seg in segments:
        path = '/n/' + seg
        got = int_route.match_path(path)
        want = int_oracle(seg)
        assert canon(got) == canon(None if want is None else {'v': want}), \
            (seg, got, want)
        ints += want is not None
        if seg in (u'١٢', u'1٢'):
            # \d admits non-ASCII digits for floats (float() accepts them)
            want_f = float(seg)
        else:
            want_f = float_oracle(seg)
        got = float_route.match_path(path)
        assert canon(got) == canon(None if want_f is None else {'v': want_f}), \
            (seg, got, want_f)
        floats += want_f is not None
        assert str_route.match_path(path) == {'v': seg}
    assert ints > 100 and floats > 500, (ints, floats)
    assert float_route.match_path('/n/1e400') == {'v': float('inf')}
    return len(segments), ints, floats


# --------------------------------------------------------------------------
# 6. differential sample of pattern x path pairs built from the tables
# --------------------------------------------------------------------------
def ref_compile(pattern, mode):
    processed, convs = [], {}
    sep = '/' if mode == 'strict' else '/+'
    for part in pattern.split('/'):
        m = REF_BINDING.match(part)
        if not m:
            processed.append(part)
            continue
        name, type_name, op = m.group('name'), m.group('type'), m.group('op')
        op = '' if op == ':' else op
        type_name = type_name or 'unicode'
        convs[name] = (REF_CONV[type_name], REF_OPT[op], REF_MULTI[op])
        processed[-1] += '(?P<%s>(%s%s)%s)' % (name, sep,
                                               REF_PATT[type_name], op)
    if mode != 'strict' and not processed[-1]:
        processed = processed[:-1]
    tail = '' if mode == 'strict' else '/*'
    return re.compile('^' + sep.join(processed) + tail + '$'), convs


def ref_match(regex, convs, path):
    m = regex.match(path)
    if not m:
        return None
    ret = {}
    try:
        for name, (conv, optional, multi) in convs.items():
            value = m.group(name)
            if not value and optional:
                ret[name] = [] if multi else None
            elif multi:
                ret[name] = [conv(v) for v in value.split('/')[1:]]
            else:
                ret[name] = conv(value.replace('/', ''))
    except (KeyError, TypeError, ValueError):
        return None
    return ret


def check_differential():
    elements = ['a', '7'] + ['<%s>'] + ['<%s' + op + t + '>' for op in ':?*+'
                                        for t in ('', 'int', 'float', 'str',
                                                  'unicode')]
    names = ['x', 'y', 'z']
    rng = random.Random(31)
    patterns = []
    for n in (1, 2, 3):
        combos = list(itertools.product(elements, repeat=n))
        if n == 3:
            combos = rng.sample(combos, 120)
        for combo in combos:
            parts = [e % names[i] if '%s' in e else e
                     for i, e in enumerate(combo)]
            patterns.append('/' + '/'.join(parts)
                            + ('/' if rng.random() < 0.3 else ''))
    alphabet = [u'/', u'a', u'7', u'.', u'-', u'+', u' ', u'e', u'\xe9']
    paths = [u''.join(t) for n in range(0, 4)
             for t in itertools.product(alphabet, repeat=n)]
    paths += [u'/' + u''.join(t) for t in itertools.product(alphabet, repeat=3)]
    pool = [u'a', u'7', u'-7', u'+ 7', u'7.5', u'.5', u'7e3', u'\xe9', u'',
            u'a b', u' 7', u'7e', u'.']
    for _ in range(300):
        path = u''
        for _ in range(rng.randint(1, 6)):
            path += rng.choice([u'/', u'/', u'//']) + rng.choice(pool)
        paths.append(path + rng.choice([u'', u'/', u'///']))
    # compiled regexes agree for all patterns / modes
    for pattern in patterns:
        for mode in MODES:
            regex, convs = _compile_path_pattern(pattern, mode)
            ref_regex, ref_convs = ref_compile(pattern, mode)
            assert regex.pattern == ref_regex.pattern, (pattern, mode)
            assert list(convs) == list(ref_convs)
    n_pairs = n_hits = 0
    for pattern in rng.sample(patterns, 200):
        mode = rng.choice(MODES)
        ref_regex, ref_convs = ref_compile(pattern, mode)
        bound = live_route(pattern, mode)
        for path in paths:
            want = ref_match(ref_regex, ref_convs, path)
            got = bound.match_path(path)
            assert canon(got) == canon(want), (pattern, mode, path, got, want)
            n_pairs += 1
            n_hits += got is not None
    assert n_hits > 1000, n_hits
    return n_pairs, n_hits


def main():
    check_constants()
    check_registration()
    check_constants()          # registries are back to their defaults
    n_bind = check_binding_regex()
    n_matrix = check_type_op_matrix()
    n_seg, n_int, n_float = check_lexical_forms()
    n_pairs, n_hits = check_differential()
    print('binding texts: %d; type x op x mode: %d; segments: %d '
          '(%d ints, %d floats); pattern x path pairs: %d (%d matches)'
          % (n_bind, n_matrix, n_seg, n_int, n_float, n_pairs, n_hits))
    print('PASS')


if __name__ == '__main__':
    main()
    sys.exit(0)
