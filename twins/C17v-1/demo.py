# -*- coding: utf-8 -*-
"""demo1: text / bytes results of render_basic are labelled json / html / plain."""
import sys

from werkzeug.test import EnvironBuilder
from werkzeug.wrappers import Request

from clastic.render import render_basic
from clastic.render.simple import BasicRender


def req(path='/', **kw):
    return Request(EnvironBuilder(path=path, **kw).get_environ())


JSON = 'application/json'
HTML = 'text/html'
PLAIN = 'text/plain'

# (bytes, expected guess)
GUESS_CASES = [
    (b'', False),
    (b'{', False),
    (b'}', False),
    (b'[', False),
    (b']', False),
    (b'{}', True),
    (b'[]', True),
    (b'{]', False),
    (b'[}', False),
    (b'}{', False),
    (b'][', False),
    (b'{"a": 1}', True),
    (b'[1, 2, 3]', True),
    (b' {"a": 1}', False),
    (b'{"a": 1} ', False),
    (b'{"a": 1}\n', False),
    (b'[1, 2}', False),
    (b'{1, 2]', False),
    (b'"{}"', False),
    (b'{{', False),
    (b'[[', False),
    (b'}}', False),
    (b']]', False),
    (b'{x]y}', True),
    (b'[x}y]', True),
    (b'\x00', False),
    (b'\xff{}\xff', False),
    (b'{\xc3\xa9}', True),
    (b'hello', False),
    (b'0', False),
    (b'null', False),
]

for raw, expected in GUESS_CASES:
    got = BasicRender._guess_json(raw)
    assert got is expected, (raw, got, expected)
    # also through an instance (staticmethod)
    assert render_basic._guess_json(raw) is expected, raw


class MyBytes(bytes):
    pass


assert BasicRender._guess_json(MyBytes(b'{}')) is True
assert BasicRender._guess_json(MyBytes(b'')) is False
assert BasicRender._guess_json(MyBytes(b'{')) is False

# (result, expected mimetype)
TEXT_CASES = [
    ('', PLAIN),
    (b'', PLAIN),
    ('{}', JSON),
    ('[]', JSON),
    ('{"a": [1, 2, {"b": null}]}', JSON),
    ('[1, "two", 3.0]', JSON),
    (b'{"k": "v"}', JSON),
    (b'[true, false]', JSON),
    ('{', PLAIN),
    ('[', PLAIN),
    ('{]', PLAIN),
    ('[}', PLAIN),
    (' {}', PLAIN),
    ('{} ', PLAIN),
    ('{"café": "☃"}', JSON),
    ('[é]', JSON),
    ('é{}', PLAIN),
    ('<html><body>hi</body></html>', HTML),
    ('<!doctype html>\n<html lang="en"><head></head></html>', HTML),
    (b'<html>', HTML),
    ('x' * 163 + '<html>', HTML),      # '<html' ends exactly at byte 168
    ('x' * 164 + '<html>', PLAIN),     # just outside of the window
    ('{<html>}', JSON),                # the JSON guess wins over the html sniff
    ('[<html>]', JSON),
    ('[<html>', HTML),
    ('<HTML>', PLAIN),
    ('plain text', PLAIN),
    ('café ☃', PLAIN),
    ('null', PLAIN),
    ('123', PLAIN),
    ('"quoted"', PLAIN),
    (MyBytes(b'[1]'), JSON),
    (MyBytes(b'nope'), PLAIN),
]

REQUESTS = [
    req('/'),
    req('/?format=json'),
    req('/?format=html'),
    req('/?format=xml'),          # unsupported format is never looked at for text
    req('/', headers={'Accept': 'text/html'}),
    req('/', headers={'Accept': 'application/json;q=0.1, text/html'}),
    req('/', headers={'Accept': '*/*'}),
]

for result, expected_mime in TEXT_CASES:
    for request in REQUESTS:
        resp = render_basic(result, request, None)
        assert resp.status_code == 200, (result, resp.status_code)
        assert resp.mimetype == expected_mime, (result, resp.mimetype)
        raw = result.encode('utf8') if isinstance(result, str) else bytes(result)
        assert resp.get_data() == raw, (result, resp.get_data())
        # also through render_response, the un-aliased name
        resp2 = render_basic.render_response(result, request, None)
        assert (resp2.status_code, resp2.mimetype, resp2.get_data()) == \
            (200, expected_mime, raw)

# non-text scalars are not sniffed
for result in (0, 1, -7, 2.5, None, True, False, object, 10 ** 30):
    resp = render_basic(result, req('/'), None)
    assert resp.status_code == 200
    assert resp.mimetype == PLAIN
    assert resp.get_data(as_text=True) == str(result)

# bytearray is Sized but not bytes: serialized, not sniffed
resp = render_basic(bytearray(b'{}'), req('/'), None)
assert resp.status_code == 200 and resp.mimetype == JSON
import json
assert json.loads(resp.get_data(as_text=True)) == [123, 125]

print('PASS')
sys.exit(0)
