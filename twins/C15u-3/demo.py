# -*- coding: utf-8 -*-
"""demo3: context processors never change status or body of responses they
have no business with (direct Responses, redirects, 4xx/5xx, framework
404/405, non-mapping contexts; in their default configuration: anything),
and for render contexts they add exactly the documented keys.

Run:  /venv/bin/python demo3.py   -> prints PASS, exit code 0
"""
import os
import re
import sys
import json
import types
import random
from collections import OrderedDict
from collections.abc import Mapping, MutableMapping

sys.path.insert(0, os.path.dirname(os.path.abspath(__file__)))

from clastic import (Application, Response, GET, POST, redirect, Middleware,
                     render_basic, render_json, BadRequest,
                     GetParamMiddleware)
from clastic.errors import NotFound, Forbidden, ServiceUnavailable
from clastic.sinter import get_arg_names, get_fb
from clastic.middleware.context import (ContextProcessor,
                                        SimpleContextProcessor)

RNG = random.Random(1515)
RANDOM_BYTES = bytes(bytearray(RNG.randrange(256) for _ in range(3000)))
BIG_TEXT = 'lorem ipsum dolor sit amet ' * 2000


# --- scenario application: one route per response kind ----------------------

def ep_resp():
    return Response('plain body', mimetype='text/plain')


def ep_empty():
    return Response(b'')


def ep_big():
    return Response(BIG_TEXT, mimetype='text/html')


def ep_binary():
    return Response(RANDOM_BYTES, mimetype='application/octet-stream')


def ep_ctx():
    return {'greeting': 'hi', 'n': 3, 'zero': 0, 'empty': '', 'none': None}


def ep_redirect():
    return redirect('/resp')


def ep_raise404():
    raise NotFound('raised by the application')


def ep_return403():
    return Forbidden('returned by the application')


def ep_raise503():
    raise ServiceUnavailable(detail='down for a bit')


def ep_nonbreaking():
    raise BadRequest('not breaking', is_breaking=False)


def ep_boom():
    raise ValueError('uncaught')


def scenario_routes():
    return [('/resp', ep_resp),
            ('/empty', ep_empty),
            ('/big', ep_big),
            ('/binary', ep_binary),
            ('/ctx', ep_ctx, render_basic),
            ('/redirect', ep_redirect),
            ('/raise404', ep_raise404),
            ('/return403', ep_return403),
            ('/raise503', ep_raise503),
            ('/nonbreaking', ep_nonbreaking),
            ('/boom', ep_boom),
            GET('/getonly', ep_resp),
            POST('/postonly', ep_resp)]


REQUESTS = [('GET', '/resp'), ('HEAD', '/resp'), ('GET', '/empty'),
            ('GET', '/big'), ('GET', '/binary'), ('GET', '/ctx'),
            ('GET', '/ctx?format=json'), ('GET', '/redirect'),
            ('GET', '/raise404'), ('GET', '/return403'), ('GET', '/raise503'),
            ('GET', '/nonbreaking'), ('GET', '/boom'),
            ('GET', '/no/such/url'), ('POST', '/getonly'),
            ('GET', '/postonly'), ('PUT', '/getonly'), ('HEAD', '/getonly'),
            ('POST', '/postonly'), ('GET', '/resp?a=1&b=x&a=2&c='),
            ('POST', '/resp?a=zzz')]
ACCEPTS = [None, 'text/html', 'application/json', 'text/plain', '*/*']


def normalise(body):
    # the default 500 page shows the traceback (its depth in the text form,
    # every frame in the JSON form); a middleware's own frame is part of
    # it, so the traceback itself is outside the property
    if body.startswith(b'{') and b'"exc_info"' in body:
        parsed = json.loads(body.decode('utf8'))
        parsed.pop('exc_info')
        body = json.dumps(parsed, sort_keys=True).encode('utf8')
    return re.sub(br'\(\d+ frames,', b'(N frames,', body)


def snapshot(app, method, url, accept):
    headers = {}
    if accept is not None:
        headers['Accept'] = accept
    resp = app.get_local_client().open(url, method=method, headers=headers)
    return (resp.status_code, normalise(resp.get_data()),
            resp.headers.get('Location'))


# --- what the processors add to a render context ------------------------------

class ProvidesUser(Middleware):
    provides = ('user', 'lang')

    def request(self, next, request):
        return next(user=request.args.get('user'),
                    lang=request.args.get('lang', 'fr'))


class DictLike(MutableMapping):
    """A mapping that is not a dict."""
    def __init__(self, **kw):
        self._d = dict(kw)

    def __getitem__(self, k):
        return self._d[k]

    def __setitem__(self, k, v):
        self._d[k] = v

    def __delitem__(self, k):
        del self._d[k]

    def __iter__(self):
        return iter(self._d)

    def __len__(self):
        return len(self._d)


def render_sorted(context):
    return Response(json.dumps(dict(context), sort_keys=True))


def ctx_ep():
    return {'name': 'world', 'zero': 0, 'empty': '', 'none': None}


def ctx_custom_mapping():
    return DictLike(name='world')


def ctx_readonly():
    return types.MappingProxyType({'name': 'world'})


def ctx_list():
    return ['not', 'a', 'mapping']


def ctx_str():
    return 'just text'


def ctx_false():
    return 0


def get_json(app, url):
    resp = app.get_local_client().get(url)
    assert resp.status_code == 200, (url, resp.status_code, resp.get_data())
    return json.loads(resp.get_data(True))


BASE = {'name': 'world', 'zero': 0, 'empty': '', 'none': None}


def check_contexts():
    routes = [('/ctx', ctx_ep, render_sorted),
              ('/custom', ctx_custom_mapping, render_sorted),
              ('/readonly', ctx_readonly, render_sorted),
              ('/list', ctx_list, render_basic),
              ('/str', ctx_str, render_basic),
              ('/false', ctx_false, render_basic)]

    def app_with(*mws):
        return Application(routes, middlewares=list(mws))

    # defaults are added, existing keys (also falsy ones) are kept
    defaults = OrderedDict([('name', 'Kurt'), ('zero', 7), ('empty', 'x'),
                            ('none', 'y'), ('language', 'en'), ('flag', None),
                            ('count', 0)])
    app = app_with(ContextProcessor(defaults=defaults))
    assert get_json(app, '/ctx') == dict(BASE, language='en', flag=None,
                                         count=0)
    assert get_json(app, '/custom') == {'name': 'world', 'zero': 7,
                                        'empty': 'x', 'none': 'y',
                                        'language': 'en', 'flag': None,
                                        'count': 0}
    # ... unless overwrite is set
    app = app_with(ContextProcessor(defaults=defaults, overwrite=True))
    assert get_json(app, '/ctx') == dict(defaults)
    assert get_json(app, '/custom') == dict(defaults)

    # required arguments come from whoever provides them
    app = app_with(ProvidesUser(), ContextProcessor(['user'], {'language': 'en'}))
    assert get_json(app, '/ctx') == dict(BASE, user=None, language='en')
    assert get_json(app, '/ctx?user=al') == dict(BASE, user='al',
                                                 language='en')
    app = app_with(ProvidesUser(),
                   ContextProcessor(['user', 'lang'], overwrite=True))
    assert get_json(app, '/ctx?user=') == dict(BASE, user='', lang='fr')
    # a provided value beats the processor's default for the same name
    app = app_with(ProvidesUser(), ContextProcessor(defaults={'lang': 'en',
                                                              'name': 'K'}))
    assert get_json(app, '/ctx') == dict(BASE, lang='fr')
    assert get_json(app, '/ctx?lang=de') == dict(BASE, lang='de')
    app = app_with(GetParamMiddleware({'n': int}),
                   ContextProcessor(defaults={'n': -1}, overwrite=True))
    assert get_json(app, '/ctx?n=5') == dict(BASE, n=5)
    assert get_json(app, '/ctx') == dict(BASE, n=None)   # provided as None

    # the simple spelling
    app = app_with(SimpleContextProcessor('a', 'name', b=2, zero=5))
    assert get_json(app, '/ctx') == dict(BASE, a=None, b=2)
    app = app_with(ProvidesUser(), SimpleContextProcessor('user', x='y'))
    assert get_json(app, '/ctx?user=bo') == dict(BASE, user='bo', x='y')

    # two processors stack; the outer one runs first
    class Second(ContextProcessor):
        pass
    app = app_with(ContextProcessor(defaults={'k': 'outer', 'o': 1}),
                   Second(defaults={'k': 'inner', 'i': 2}))
    assert get_json(app, '/ctx') == dict(BASE, k='outer', o=1, i=2)

    # non-mapping contexts are left alone, a read-only mapping that needs a
    # key added is a server error (nothing is silently dropped)
    for mw in (ContextProcessor(defaults={'language': 'en'}),
               ContextProcessor(defaults={'language': 'en'}, overwrite=True),
               SimpleContextProcessor(language='en')):
        app = app_with(mw)
        plain = Application(routes)
        for url in ('/list', '/str', '/false'):
            for accept in ACCEPTS:
                assert snapshot(app, 'GET', url, accept) == \
                    snapshot(plain, 'GET', url, accept), (mw, url, accept)
        assert app.get_local_client().get('/readonly').status_code == 500
    app = app_with(ContextProcessor(defaults={'name': 'present'}))
    assert get_json(app, '/readonly') == {'name': 'world'}
    app = app_with(ContextProcessor())
    assert get_json(app, '/readonly') == {'name': 'world'}

    # the processor reads its configuration at request time
    mw = ContextProcessor(defaults={'language': 'en'})
    app = app_with(mw)
    assert get_json(app, '/ctx') == dict(BASE, language='en')
    mw.overwrite = True
    mw.defaults['name'] = 'late'
    assert get_json(app, '/ctx') == dict(BASE, language='en', name='late')
    return 30


def check_signature():
    mw = ContextProcessor(['user', 'lang'],
                          OrderedDict([('language', 'en'), ('n', 0)]))
    assert mw.render.__name__ == 'process_render_context'
    assert list(get_arg_names(mw.render)) == ['next', 'context', 'user',
                                              'lang', 'language', 'n']
    assert list(get_arg_names(mw.render, True)) == ['next', 'context',
                                                    'user', 'lang']
    assert get_fb(mw.render).get_defaults_dict() == {'language': 'en', 'n': 0}
    assert get_fb(mw.render).name == 'process_render_context'
    assert sorted(mw.requires) == ['context', 'lang', 'user']
    assert mw.arguments == {'next', 'context', 'user', 'lang', 'language',
                            'n'}
    assert mw.request is None and mw.endpoint is None
    assert repr(mw) == ("ContextProcessor(required=['user', 'lang'], "
                        "defaults=%r)" % (mw.defaults,))
    assert repr(ContextProcessor()) == 'ContextProcessor()'
    assert repr(ContextProcessor(overwrite=True)) == \
        'ContextProcessor(overwrite=True)'
    empty = ContextProcessor()
    assert list(get_arg_names(empty.render)) == ['next', 'context']
    assert empty.required == [] and empty.defaults == {}
    # the caller's objects: required is copied, defaults is kept
    req, dfl = ['user'], {'a': 1}
    mw = ContextProcessor(req, dfl)
    assert mw.required == req and mw.required is not req
    assert mw.defaults is dfl
    mw = ContextProcessor(('user',), {})
    assert mw.required == ['user']
    simple = SimpleContextProcessor('a', b=1)
    assert simple.defaults == {'a': None, 'b': 1}
    assert simple.required == [] and simple.overwrite is False

    # nobody provides a required argument: refused when the app is built
    try:
        Application([('/', ep_ctx, render_basic)],
                    middlewares=[ContextProcessor(['user'])])
    except NameError:
        pass
    else:
        raise AssertionError('unresolved argument accepted')
    return 20


def expect(exc_type, message, *args, **kwargs):
    try:
        ContextProcessor(*args, **kwargs)
    except Exception as e:
        assert type(e) is exc_type, (args, kwargs, e)
        assert str(e) == message, (args, kwargs, str(e))
    else:
        raise AssertionError('accepted: %r %r' % (args, kwargs))
    return 1


def check_validation():
    n = 0
    t_req = 'required argument names must be decoded strings'
    t_def = 'default argument names must be decoded strings'
    n += expect(TypeError, t_req, required=[6])
    n += expect(TypeError, t_req, required=[b'name'])
    n += expect(TypeError, t_req, required=['ok', None])
    n += expect(TypeError, t_def, defaults={6: ''})
    n += expect(TypeError, t_def, defaults={'ok': 1, b'name': 2})
    n += expect(TypeError, "defaults expected a dict (or mapping), not: "
                "['hi', 'hello']", defaults=['hi', 'hello'])
    n += expect(TypeError, "defaults expected a dict (or mapping), not: 'hi'",
                defaults='hi')
    n += expect(TypeError, "defaults expected a dict (or mapping), not: 5",
                defaults=5)
    # a one-tuple is formatted as its element, longer ones break the
    # formatting itself: still a TypeError, with % 's own message
    n += expect(TypeError, "defaults expected a dict (or mapping), not: 'x'",
                defaults=('x',))
    n += expect(TypeError, 'not all arguments converted during string '
                'formatting', defaults=('x', 'y'))
    # precedence: types of required, then defaults, then names
    n += expect(TypeError, t_req, required=[6, 'next'], defaults=['x'])
    n += expect(TypeError, "defaults expected a dict (or mapping), not: "
                "['x']", required=['next'], defaults=['x'])
    n += expect(TypeError, t_def, required=['next'], defaults={6: 1})
    for reserved in ('self', 'next', 'context'):
        msg = ('attempted to use reserved argument "%s" in ContextProcessor.'
               % reserved)
        n += expect(NameError, msg, required=[reserved])
        n += expect(NameError, msg, defaults={reserved: 1})
        n += expect(NameError, msg, required=['a', reserved],
                    defaults={'a': 1})
    n += expect(NameError, 'attempted to use reserved argument "self" in '
                'ContextProcessor.', required=['context', 'next'],
                defaults={'self': 0})
    n += expect(NameError, "ambiguous argument 'name' appears in both "
                "required and default argument lists.",
                required=['name'], defaults={'name': 'Alex'})
    n += expect(NameError, "ambiguous argument 'b' appears in both "
                "required and default argument lists.",
                required=['a', 'b', 'c'], defaults={'c': 1, 'b': 2})
    # falsy arguments mean "none"
    for falsy in (None, (), [], '', 0):
        mw = ContextProcessor(required=falsy, defaults=falsy)
        assert mw.required == [] and mw.defaults == {}
        n += 1
    return n


def check_transparent(middlewares, label, requests):
    plain = Application(scenario_routes())
    wrapped = Application(scenario_routes(), middlewares=middlewares)
    count = 0
    for method, url in requests:
        for accept in ACCEPTS:
            expected = snapshot(plain, method, url, accept)
            actual = snapshot(wrapped, method, url, accept)
            assert expected == actual, (label, method, url, accept)
            count += 1
    return count


def main():
    total = 0
    no_ctx = [(m, u) for m, u in REQUESTS if not u.startswith('/ctx')]
    # default configuration: invisible everywhere
    for mws, label in [([ContextProcessor()], 'default'),
                       ([SimpleContextProcessor()], 'simple-default'),
                       ([ContextProcessor(overwrite=True)], 'overwrite-only'),
                       ([ContextProcessor(), SimpleContextProcessor()],
                        'both')]:
        total += check_transparent(mws, label, REQUESTS)
    # configured: invisible for everything that is not a render context
    for mws, label in [([ContextProcessor(defaults={'language': 'en'})],
                        'defaults'),
                       ([ContextProcessor(defaults={'greeting': 'yo'},
                                          overwrite=True)], 'overwrite'),
                       ([SimpleContextProcessor('extra', n=1)], 'simple'),
                       ([ProvidesUser(),
                         ContextProcessor(['user'], {'language': 'en'})],
                        'required')]:
        total += check_transparent(mws, label, no_ctx)
    total += check_contexts()
    total += check_signature()
    total += check_validation()
    print('checked %d cases' % total)
    print('PASS')


if __name__ == '__main__':
    main()
