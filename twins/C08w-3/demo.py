# -*- coding: utf-8 -*-
"""demo3: requests that no route answers (unknown path, wrong method, strict
slashes, non-breaking errors) still get a complete response from the sentinel
NullRoute, for every error handler, and failures in between leave the
application intact.  Prints PASS and exits 0."""
import os
import sys
import json
import warnings

warnings.simplefilter('ignore')
sys.path.insert(0, os.path.dirname(os.path.abspath(__file__)))

from werkzeug.wrappers import Response

import clastic
from clastic import (Application, SubApplication, Route, GET, POST, PUT, DELETE,
                     S_STRICT, S_REDIRECT, S_REWRITE, MetaApplication)
from clastic import errors
from clastic.errors import (HTTPException, NotFound, MethodNotAllowed, Forbidden,
                            ErrorHandler, ContextualErrorHandler, ContextualNotFound)

assert os.path.dirname(os.path.abspath(clastic.__file__)).startswith(
    os.path.dirname(os.path.abspath(__file__)))

# ---------------------------------------------------------- 1. import paths
from clastic.route import NullRoute, BoundRoute, Route as _Route, normalize_path
from clastic.application import NullRoute as NR_app, default_render_error, DispatchState
from clastic.meta import NullRoute as NR_meta
import clastic.route
import clastic.application

assert NullRoute is NR_app is NR_meta is clastic.route.NullRoute
assert issubclass(NullRoute, _Route) and NullRoute.__name__ == 'NullRoute'
assert NullRoute.__mro__[1] is _Route and NullRoute.__bases__ == (_Route,)
assert set(vars(NullRoute)) >= {'__init__', 'handle_sentinel_condition', 'bind'}

nr = NullRoute('ignored', 'args', anything='goes')
assert nr.pattern == '/<_ignored*>' and nr.slash_mode == S_REWRITE
assert nr.methods is None and nr.render is None and nr.render_error is None
assert nr.endpoint == nr.handle_sentinel_condition and nr.endpoint.__self__ is nr
assert nr.is_branch is False and nr.middlewares == [] and nr.resources == {}
assert repr(nr).startswith("<NullRoute pattern='/<_ignored*>' endpoint=")

for mode in (S_STRICT, S_REDIRECT, S_REWRITE):
    host = Application(slash_mode=mode)
    bound = host._null_route
    assert type(bound) is BoundRoute and type(bound.unbound_route) is NullRoute
    assert bound.slash_mode == S_REWRITE          # never inherits the app's slash mode
    assert bound.pattern == '/<_ignored*>' and bound.bound_apps == [host]
    assert bound.render_error == host.error_handler.render_error
    assert bound not in host.routes and host.routes == []
    for path in ('/', '//', '/a', '/a/', '/a//b///', u'/\xe9/☃', '/a.b/c%20d', '/' + 'x/' * 300):
        assert bound.match_path(path) is not None, path
    assert bound.match_path('/a/b/') == {'_ignored': [u'a', u'b']}
    assert bound.match_method('BREW') is True
    # explicit kwargs are still honoured except inherit_slashes
    rebound = NullRoute().bind(host, inherit_slashes=True, prefix='/p')
    assert rebound.slash_mode == S_REWRITE and rebound.pattern == '/p/<_ignored*>'

# calling the sentinel endpoint directly
class FakeApp(object):
    error_handler = ErrorHandler()

ds = DispatchState()
res = nr.handle_sentinel_condition('REQ', FakeApp, 'ROUTE', ds)
assert type(res) is NotFound and res.dispatch_state is ds and res.status_code == 404
ds.update_methods(set(['PUT', 'GET']))
res = nr.handle_sentinel_condition('REQ', FakeApp, 'ROUTE', ds)
assert type(res) is MethodNotAllowed and res.allowed_methods == {'GET', 'PUT'}
assert res.allowed_methods is not ds.allowed_methods and res.headers['Allow'] == 'GET, PUT'
first, last = Forbidden(is_breaking=False), errors.Gone(is_breaking=False)
ds.add_exception(first)
ds.add_exception(last)
assert nr.handle_sentinel_condition('REQ', FakeApp, 'ROUTE', ds) is last   # exceptions win over 405
FakeApp.error_handler = ContextualErrorHandler()
res = nr.handle_sentinel_condition('REQ', FakeApp, 'ROUTE', DispatchState())
assert type(res) is ContextualNotFound and res.request == 'REQ' and res.application is FakeApp


# --------------------------------------------------- 2. through the WSGI app
def call(app, path='/', method='GET', headers=None):
    resp = app.get_local_client().open(path, method=method, headers=headers or {})
    body = resp.get_data()
    assert isinstance(body, bytes)
    assert resp.status_code == int(resp.status.split()[0])
    return resp.status_code, resp.headers, body


def ok():
    return Response('ok')

def boom():
    raise RuntimeError('boom')

def nb_forbidden():
    raise Forbidden('first refusal', is_breaking=False)

def nb_gone_returned():
    return errors.Gone('second refusal', is_breaking=False)

def breaking_teapot():
    raise HTTPException('teapot', code=418)


class BrokenRender(ErrorHandler):
    def render_error(self, request, _error):
        raise RuntimeError('nope')


class SwapRender(ErrorHandler):
    def render_error(self, request, _error):
        return errors.ServiceUnavailable('swapped %s' % _error.code)


class CustomTypes(ErrorHandler):
    class not_found_type(NotFound):
        code = 410
    class method_not_allowed_type(MethodNotAllowed):
        message = 'custom 405'


def routes():
    sub = Application([GET('/leaf', ok), POST('/leaf', ok), ('/boom', boom)])
    return [GET('/', ok),
            GET('/get', ok), POST('/post', ok), PUT('/put_or_del', ok), DELETE('/put_or_del', ok),
            Route('/strict/', ok, slash_mode=S_STRICT),
            ('/nb', nb_forbidden), ('/nb', nb_gone_returned),
            ('/nb_then_ok', nb_forbidden), ('/nb_then_ok', ok),
            ('/nb_then_break', nb_forbidden), ('/nb_then_break', breaking_teapot),
            POST('/nb_then_405', ok), ('/nb_then_405', nb_forbidden),
            ('/boom', boom),
            ('/item/<num:int>', ok),
            ('/sub', sub)]


METHODS = ['GET', 'HEAD', 'POST', 'PUT', 'DELETE', 'OPTIONS', 'PATCH', 'TRACE', 'BREW']
ACCEPTS = [None, 'text/html', 'application/json', 'application/xml', 'text/plain', 'image/*']
PATHS = ['/', '/get', '/post', '/put_or_del', '/strict/', '/strict', '/nb', '/nb_then_ok',
         '/nb_then_break', '/nb_then_405', '/boom', '/item/3', '/item/x', '/item/', '/sub/leaf',
         '/sub/boom', '/sub/none', '/nope', '/nope/', '//', '/%E2%98%83', '/a/b/c/d/e/f', '/get/extra',
         '/_ignored', '/' + 'long/' * 200]


def expected(path, method):
    m = method
    def allowed(*ms):
        ms = set(ms)
        if 'GET' in ms:
            ms.add('HEAD')
        return m in ms
    if path in ('/', '//'):
        return 200 if allowed('GET') else 405
    if path == '/get':
        return 200 if allowed('GET') else 405
    if path == '/post':
        return 200 if allowed('POST') else 405
    if path == '/put_or_del':
        return 200 if allowed('PUT', 'DELETE') else 405
    if path == '/strict/':
        return 200
    if path == '/strict':
        return 302          # the route inherits the application's redirect mode
    if path == '/nb':
        return 410          # the last non-breaking error wins
    if path == '/nb_then_ok':
        return 200
    if path == '/nb_then_break':
        return 418
    if path == '/nb_then_405':
        return 200 if m == 'POST' else 403   # recorded exception beats the 405
    if path in ('/boom', '/sub/boom'):
        return 500
    if path == '/item/3':
        return 200
    if path == '/sub/leaf':
        return 200 if allowed('GET', 'POST') else 405
    return 404


HANDLERS = [lambda: None, ErrorHandler, ContextualErrorHandler, BrokenRender, SwapRender, CustomTypes]

n = 0
for debug in (False, True):
    for make in HANDLERS:
        handler = make()
        app = Application(routes(), error_handler=handler, debug=debug)
        n_routes = len(app.routes)
        null_route = app._null_route
        for path in PATHS:
            for method in METHODS:
                accept = ACCEPTS[n % len(ACCEPTS)]
                n += 1
                status, headers, body = call(app, path, method,
                                             {} if accept is None else {'Accept': accept})
                exp = expected(path, method)
                if isinstance(handler, SwapRender) and exp >= 400:
                    assert status == 503, (path, method, status)
                    if method != 'HEAD':
                        shown = {404: (b'404',), 405: (b'405',)}.get(exp, (str(exp).encode(),))
                        assert any(s in body for s in shown), (path, method, body)
                    continue
                if isinstance(handler, CustomTypes) and exp == 404:
                    exp = 410
                assert status == exp, (path, method, status, exp)
                if status >= 400:
                    ctype = headers['Content-Type'].split(';')[0]
                    assert ctype in ('text/html', 'application/json', 'text/plain', 'application/xml')
                    if accept in ('text/html', 'application/json', 'application/xml', 'text/plain'):
                        assert ctype == accept
                    else:
                        assert ctype == 'text/plain'
                    if method != 'HEAD':
                        assert body
                if status == 405:
                    allow = set(headers['Allow'].split(', '))
                    assert method not in allow and allow, (path, method, allow)
                    assert sorted(allow) == headers['Allow'].split(', ')
                    if isinstance(handler, CustomTypes) and method != 'HEAD' and accept == 'text/plain':
                        assert b'custom 405' in body
                if path == '/nb' and method != 'HEAD' and accept == 'text/plain':
                    assert b'second refusal' in body and b'first refusal' not in body
        # nothing leaked into the application
        assert len(app.routes) == n_routes and app._null_route is null_route
        assert null_route not in app.routes
        assert call(app, '/')[0] == 200 and call(app, '/')[2] == b'ok'
assert n > 2500

# 3. details of the sentinel's 404 in debug mode
app = Application(routes(), debug=True)
status, headers, body = call(app, '/nope', headers={'Accept': 'application/json'})
doc = json.loads(body.decode('utf-8'))
assert status == 404 and doc['request'] == {'path': '/nope', 'method': 'GET'}
assert [r['pattern'] for r in doc['routes']] == [r.pattern for r in app.routes]
assert '/<_ignored*>' not in [r['pattern'] for r in doc['routes']]

# re-raising handler: 404/405 are still responses, uncaught errors escape unchanged
app = Application(routes(), error_handler=ErrorHandler(reraise_uncaught=True))
assert call(app, '/nope')[0] == 404 and call(app, '/post')[0] == 405
try:
    call(app, '/boom')
except RuntimeError as e:
    assert e.args == ('boom',)
else:
    raise AssertionError('RuntimeError should escape')
assert call(app, '/nb')[0] == 410 and call(app, '/')[0] == 200

# embedding: the sub-application's own sentinel is not copied, the parent's answers
inner = Application([('/in', ok)])
outer = Application([('/pre', inner), SubApplication('/pre2', inner)])
assert [r.pattern for r in outer.routes] == ['/pre/in', '/pre2/in']
assert call(outer, '/pre/in')[0] == 200 and call(outer, '/pre/none')[0] == 404
assert call(outer, '/pre2/in', 'POST')[0] == 200 and call(outer, '/in')[0] == 404
meta = Application([('/', ok), ('/_meta/', MetaApplication())])
status, headers, body = call(meta, '/_meta/')
assert status == 200 and b'_ignored' not in body

# strict slashes: the mismatch is recorded and the sentinel hands it back as the 404
for make in HANDLERS:
    strict = Application([Route('/strict/', ok), POST('/p', ok)], slash_mode=S_STRICT,
                         error_handler=make())
    exp404 = 410 if isinstance(strict.error_handler, CustomTypes) else 404
    if isinstance(strict.error_handler, SwapRender):
        exp404 = 503
    assert call(strict, '/strict/')[0] == 200
    assert call(strict, '/strict')[0] == exp404
    assert call(strict, '/strict//')[0] == exp404
    assert call(strict, '/p')[0] == (503 if exp404 == 503 else 405)
    assert call(strict, '/strict/')[0] == 200

print('PASS')
