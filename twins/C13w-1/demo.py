# -*- coding: utf-8 -*-
"""demo1: an Application is a conforming WSGI application (C13).

Focus of this demo: the static-file part of the mechanism
(clastic/static.py: _PRINTABLE / is_binary_string / peek_file /
build_file_response / StaticFileRoute / StaticApplication) plus a general
conformance sweep.  Prints PASS and exits 0 when everything holds.
"""
import io
import os
import sys
import gzip
import shutil
import tempfile
import warnings
from datetime import datetime, timedelta
from wsgiref.validate import validator

warnings.simplefilter('ignore')

from werkzeug.test import EnvironBuilder
from werkzeug.wrappers import Response
from werkzeug.http import http_date

from clastic import (Application, StaticApplication, StaticFileRoute,
                     render_basic, RerouteWSGI, Middleware, MetaApplication)
from clastic import static as static_mod
from clastic.static import (is_binary_string, peek_file, build_file_response,
                            _PRINTABLE, find_file)
from clastic.errors import NotFound, Forbidden
from clastic.middleware.compress import GzipMiddleware

CHECKS = [0]


def ok(cond, msg=''):
    CHECKS[0] += 1
    if not cond:
        raise AssertionError(msg)


class RecordingFileWrapper(object):
    """A wsgi.file_wrapper that remembers the files it was handed."""
    seen = []

    def __init__(self, file_obj, buffer_size=8192):
        self.file_obj = file_obj
        self.buffer_size = buffer_size
        RecordingFileWrapper.seen.append(file_obj)

    def close(self):
        if hasattr(self.file_obj, 'close'):
            self.file_obj.close()

    def __iter__(self):
        return self

    def __next__(self):
        data = self.file_obj.read(self.buffer_size)
        if data:
            return data
        raise StopIteration()


def call_wsgi(app, path='/', method='GET', headers=None, data=None,
              file_wrapper=None, validate=True, query_string=None):
    """Drive one request through *app* by hand, under wsgiref's validator.

    Returns (status, header_list, body_bytes, n_start_response_calls)."""
    builder = EnvironBuilder(path=path, method=method, headers=headers or {},
                             data=data, query_string=query_string)
    environ = builder.get_environ()
    environ.pop('HTTP_CONTENT_LENGTH', None)  # the validator is picky
    environ.pop('HTTP_CONTENT_TYPE', None)
    if file_wrapper is not None:
        environ['wsgi.file_wrapper'] = file_wrapper
    calls = []
    chunks_before_start = []

    def start_response(status, response_headers, exc_info=None):
        calls.append((status, list(response_headers)))
        return lambda s: None

    target = validator(app) if validate else app
    app_iter = target(environ, start_response)
    body = []
    try:
        for chunk in app_iter:
            if not calls:
                chunks_before_start.append(chunk)
            ok(isinstance(chunk, bytes), 'non-bytes chunk %r' % (chunk,))
            body.append(chunk)
    finally:
        if hasattr(app_iter, 'close'):
            app_iter.close()
    ok(len(calls) == 1, 'start_response called %d times for %s %s'
       % (len(calls), method, path))
    ok(not chunks_before_start, 'body before start_response')
    status, hdrs = calls[0]
    ok(isinstance(status, str) and len(status) >= 4 and status[:3].isdigit()
       and status[3] == ' ', 'bad status line %r' % (status,))
    for pair in hdrs:
        ok(isinstance(pair, tuple) and len(pair) == 2)
        ok(type(pair[0]) is str and type(pair[1]) is str, 'bad header %r' % (pair,))
    body = b''.join(body)
    if method == 'HEAD':
        ok(body == b'', 'HEAD sent a body: %r' % body[:40])
    return status, hdrs, body, len(calls)


def hget(hdrs, name):
    for k, v in hdrs:
        if k.lower() == name.lower():
            return v
    return None


def main():
    # ---------- helpers of the static mechanism
    expected_printable = bytes([7, 8, 9, 10, 12, 13, 27] + list(range(32, 256)))
    ok(_PRINTABLE == expected_printable)
    ok(type(_PRINTABLE) is bytes and len(_PRINTABLE) == 231)
    ok(is_binary_string(b'') is False)
    ok(is_binary_string(b'abc\n\t\r\x1b') is False)
    ok(is_binary_string(b'\x00') is True)
    ok(is_binary_string(b'\x0b') is True)      # vertical tab is not "printable"
    ok(is_binary_string(b'\x7f\x80\xff') is False)
    ok(is_binary_string(b'a' * 4096 + b'\x00') is False)
    ok(is_binary_string(b'a' * 4095 + b'\x00') is True)
    ok(is_binary_string(b'aa\x00', sample_size=2) is False)
    ok(is_binary_string(bytearray(b'a\x01')) is True)

    bio = io.BytesIO(b'0123456789')
    bio.seek(3)
    ok(peek_file(bio, 4) == b'3456' and bio.tell() == 3)
    ok(peek_file(bio) == b'3456789' and bio.tell() == 3)
    ok(peek_file(bio, 0) == b'' and bio.tell() == 3)
    for bad in (object(), None, 'a string', 12):
        try:
            peek_file(bad)
        except TypeError as te:
            ok(str(te) == 'expected seekable file object, not %r' % (bad,), str(te))
        else:
            ok(False, 'peek_file accepted %r' % (bad,))

    class SeekNotCallable(object):
        seek = 5

        def __repr__(self):
            return '<SNC>'
    try:
        peek_file(SeekNotCallable())
    except TypeError as te:
        ok(str(te) == 'expected seekable file object, not <SNC>')
    else:
        ok(False)

    # ---------- files on disk
    tmpdir = tempfile.mkdtemp(prefix='c13demo1')
    try:
        files = {
            'hello.txt': b'hello world\n',
            'page.html': b'<html><body>hi</body></html>',
            'blob': b'\x00\x01\x02\x03' * 300,      # no extension, binary
            'noext': b'just some text without extension',
            'empty': b'',
            'big.bin': os.urandom(70000),
            'data.json': b'{"a": 1}',
        }
        os.mkdir(os.path.join(tmpdir, 'sub'))
        for name, content in files.items():
            with open(os.path.join(tmpdir, name), 'wb') as f:
                f.write(content)
        with open(os.path.join(tmpdir, 'sub', 'inner.css'), 'wb') as f:
            f.write(b'body {}')

        sapp = StaticApplication(tmpdir)
        ok(isinstance(sapp, Application))
        ok(sapp.search_paths == [tmpdir])
        ok(len([r for r in sapp.routes]) == 1)

        expected_mime = {'hello.txt': 'text/plain', 'page.html': 'text/html',
                         'blob': 'application/octet-stream',
                         'noext': 'text/plain', 'empty': 'text/plain',
                         'data.json': 'application/json'}
        for fw in (None, RecordingFileWrapper):
            for method in ('GET', 'HEAD'):
                for name, content in sorted(files.items()):
                    RecordingFileWrapper.seen = []
                    status, hdrs, body, _ = call_wsgi(sapp, '/' + name, method,
                                                      file_wrapper=fw)
                    ok(status == '200 OK', (name, status))
                    ok(hget(hdrs, 'Content-Length') == str(len(content)))
                    if method == 'GET':
                        ok(body == content, name)
                    if name in expected_mime:
                        ok(hget(hdrs, 'Content-Type').split(';')[0]
                           == expected_mime[name], (name, hget(hdrs, 'Content-Type')))
                    ok(hget(hdrs, 'Last-Modified') is not None)
                    ok('max-age=360' in hget(hdrs, 'Cache-Control'))
                    if fw is not None:
                        ok(len(RecordingFileWrapper.seen) == 1)
                        ok(RecordingFileWrapper.seen[0].closed, 'file left open: ' + name)

        status, hdrs, body, _ = call_wsgi(sapp, '/sub/inner.css')
        ok(status == '200 OK' and body == b'body {}')
        ok(hget(hdrs, 'Content-Type').startswith('text/css'))

        # missing / forbidden / wrong method
        for method in ('GET', 'HEAD', 'POST', 'OPTIONS'):
            status, hdrs, body, _ = call_wsgi(sapp, '/nope.txt', method)
            ok(status.startswith('404'), status)
            status, hdrs, body, _ = call_wsgi(sapp, '/sub', method)
            ok(status.startswith('404'), status)
            status, hdrs, body, _ = call_wsgi(sapp, '/../etc/passwd', method)
            ok(status[:3] in ('403', '404'), status)
        status, _, _, _ = call_wsgi(sapp, '/hello.txt', 'POST', data=b'x=1')
        ok(status == '200 OK')   # the catch-all route accepts every method

        # conditional GET
        future = http_date(datetime.utcnow() + timedelta(days=2))
        past = http_date(datetime(2001, 1, 1))
        for method in ('GET', 'HEAD'):
            status, hdrs, body, _ = call_wsgi(sapp, '/hello.txt', method,
                                              headers={'If-Modified-Since': future})
            ok(status.startswith('304'), status)
            ok(body == b'')
            ok('public' in hget(hdrs, 'Cache-Control'))
            ok('max-age=360' in hget(hdrs, 'Cache-Control'))
            status, hdrs, body, _ = call_wsgi(sapp, '/hello.txt', method,
                                              headers={'If-Modified-Since': past})
            ok(status == '200 OK')
            ok('public' in hget(hdrs, 'Cache-Control'))
        status, _, _, _ = call_wsgi(sapp, '/gone.txt',
                                    headers={'If-Modified-Since': future})
        ok(status.startswith('404') or status.startswith('403'), status)

        # custom default mimes and several search paths
        tmpdir2 = os.path.join(tmpdir, 'sub')
        sapp2 = StaticApplication([tmpdir2, tmpdir], default_text_mime='text/x-demo',
                                  default_binary_mime='application/x-demo',
                                  cache_timeout=0)
        status, hdrs, body, _ = call_wsgi(sapp2, '/noext')
        ok(hget(hdrs, 'Content-Type').startswith('text/x-demo'))
        ok('max-age' not in (hget(hdrs, 'Cache-Control') or '')
           or 'max-age=0' in hget(hdrs, 'Cache-Control'))
        status, hdrs, body, _ = call_wsgi(sapp2, '/blob')
        ok(hget(hdrs, 'Content-Type') == 'application/x-demo')
        status, hdrs, body, _ = call_wsgi(sapp2, '/empty')
        ok(hget(hdrs, 'Content-Type').startswith('text/x-demo') and body == b'')
        status, hdrs, body, _ = call_wsgi(sapp2, '/inner.css')
        ok(status == '200 OK' and body == b'body {}')
        # cache_timeout=0 disables the conditional branch altogether
        status, _, _, _ = call_wsgi(sapp2, '/noext',
                                    headers={'If-Modified-Since': future})
        ok(status == '200 OK')

        # a str search path is wrapped in a list, bytes too
        ok(StaticApplication(tmpdir).search_paths == [tmpdir])
        ok(StaticApplication((tmpdir,)).search_paths == (tmpdir,))

        # StaticFileRoute
        sfr = StaticFileRoute('/one', os.path.join(tmpdir, 'hello.txt'))
        ok(sfr.file_path.endswith('hello.txt') and sfr.cache_timeout == 360
           and sfr.mimetype is None)
        ok(sfr.pattern == '/one')
        ok(sfr.endpoint == sfr.get_file_response)
        sfr_m = StaticFileRoute('/forced', os.path.join(tmpdir, 'blob'),
                                mimetype='image/x-demo', cache_timeout=5)
        sfr_late = StaticFileRoute('/late', os.path.join(tmpdir, 'later.txt'),
                                   check_file=False)
        for bad in ('missing.txt',):
            try:
                StaticFileRoute('/bad', os.path.join(tmpdir, bad))
            except (IOError, OSError):
                ok(True)
            else:
                ok(False, 'check_file did not check')
        app = Application([sfr, sfr_m, sfr_late,
                           ('/static', sapp),
                           ('/', lambda: 'root', render_basic)])
        for fw in (None, RecordingFileWrapper):
            for method in ('GET', 'HEAD'):
                RecordingFileWrapper.seen = []
                status, hdrs, body, _ = call_wsgi(app, '/one', method, file_wrapper=fw)
                ok(status == '200 OK')
                ok(method == 'HEAD' or body == files['hello.txt'])
                status, hdrs, body, _ = call_wsgi(app, '/forced', method, file_wrapper=fw)
                ok(hget(hdrs, 'Content-Type') == 'image/x-demo')
                ok('max-age=5' in hget(hdrs, 'Cache-Control'))
                status, hdrs, body, _ = call_wsgi(app, '/static/page.html', method,
                                                  file_wrapper=fw)
                ok(status == '200 OK' and hget(hdrs, 'Content-Type').startswith('text/html'))
                status, hdrs, body, _ = call_wsgi(app, '/late', method, file_wrapper=fw)
                ok(status.startswith('404'), status)
                if fw is not None:
                    ok(len(RecordingFileWrapper.seen) == 3)
                    ok(all(f.closed for f in RecordingFileWrapper.seen))
        with open(os.path.join(tmpdir, 'later.txt'), 'wb') as f:
            f.write(b'now i exist')
        status, hdrs, body, _ = call_wsgi(app, '/late')
        ok(status == '200 OK' and body == b'now i exist')

        # build_file_response directly
        resp = build_file_response(os.path.join(tmpdir, 'hello.txt'))
        ok(resp.status_code == 200 and resp.content_length == 12)
        ok(resp.mimetype == 'text/plain')
        ok(resp.cache_control.max_age is None)
        inner_file = resp.response.file
        ok(not inner_file.closed)
        resp.close()
        ok(inner_file.closed)
        for exc_type, p in ((NotFound, os.path.join(tmpdir, 'zip.zap')),
                            (NotFound, tmpdir)):
            try:
                build_file_response(p)
            except exc_type as e:
                ok(e.is_breaking is False)
            else:
                ok(False)
        # peek failure closes the file and turns into Forbidden
        opened = []

        class BadPeek(Exception):
            pass
        orig_peek = static_mod.peek_file

        def failing_peek(file_obj, size=-1):
            opened.append(file_obj)
            raise IOError('cannot peek')
        static_mod.peek_file = failing_peek
        try:
            try:
                build_file_response(os.path.join(tmpdir, 'noext'))
            except Forbidden as e:
                ok(e.is_breaking is False)
                ok(len(opened) == 1 and opened[0].closed)
            else:
                ok(False)
            # a forced mimetype never peeks
            resp = build_file_response(os.path.join(tmpdir, 'noext'), mimetype='a/b')
            ok(len(opened) == 1 and resp.mimetype == 'a/b')
            resp.close()
        finally:
            static_mod.peek_file = orig_peek

        # gzip + static + HEAD/GET through middleware processing
        gz_app = Application([('/static', sapp),
                              ('/text', lambda: 'x' * 5000, render_basic)],
                             middlewares=[GzipMiddleware()])
        for method in ('GET', 'HEAD'):
            status, hdrs, body, _ = call_wsgi(gz_app, '/text', method,
                                              headers={'Accept-Encoding': 'gzip'})
            ok(status == '200 OK')
            if method == 'GET':
                ok(hget(hdrs, 'Content-Encoding') == 'gzip')
                ok(gzip.decompress(body) == b'x' * 5000)
            status, hdrs, body, _ = call_wsgi(gz_app, '/static/hello.txt', method,
                                              headers={'Accept-Encoding': 'gzip'})
            ok(status == '200 OK')

        # find_file
        ok(find_file([tmpdir], 'hello.txt') == os.path.join(tmpdir, 'hello.txt'))
        ok(find_file([tmpdir], 'zzz') is None)
        ok(find_file([], 'hello.txt') is None)
    finally:
        shutil.rmtree(tmpdir)

    # ---------- general sweep: non-static responses
    def boom():
        raise ValueError('boom')

    def streamed():
        return Response((c for c in [b'a', b'b', b'c']), mimetype='text/plain')

    other = Application([('/re/other', lambda: 'okay', render_basic)])
    for debug in (False, True):
        app = Application([('/', lambda: 'home', render_basic),
                           ('/boom', boom),
                           ('/stream', streamed),
                           ('/branch/', lambda: 'b', render_basic),
                           ('/_meta/', MetaApplication()),
                           ('/re/<x*str>', RerouteWSGI(other))], debug=debug)
        for method in ('GET', 'HEAD', 'POST', 'OPTIONS'):
            for path, exp in (('/', '200'), ('/boom', '500'), ('/stream', '200'),
                              ('/branch', '30'), ('/nowhere', '404'),
                              ('/re/other', '200')):
                status, hdrs, body, _ = call_wsgi(app, path, method,
                                                  data=b'k=v' if method == 'POST' else None)
                ok(status.startswith(exp), (debug, method, path, status))
        status, hdrs, body, _ = call_wsgi(app, '/_meta/')
        ok(status == '200 OK' and b'<html' in body.lower())

    print('PASS (%d checks)' % CHECKS[0])


if __name__ == '__main__':
    main()
