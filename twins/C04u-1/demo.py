# -*- coding: utf-8 -*-
"""demo1: name conflicts between application-level, route-level and embedded
middlewares are rejected at construction (focus: merge_middlewares, which decides
which middlewares of the two levels reach the conflict check)."""
import warnings
warnings.simplefilter('ignore')

from clastic import Application, Route, SubApplication
from clastic.middleware import Middleware
from clastic.middleware.core import merge_middlewares


def ep(request):
    return 'ok'


def raises(exc_type, func, *a, **kw):
    try:
        func(*a, **kw)
    except Exception as e:
        assert type(e) is exc_type, 'expected %s, got %r' % (exc_type.__name__, e)
        return e
    raise AssertionError('expected %s, nothing raised' % exc_type.__name__)


class ProvA(Middleware):
    provides = ('a',)

    def request(self, next):
        return next(a=1)


class ProvA2(Middleware):
    "different type, same provided name"
    provides = ('a',)

    def request(self, next):
        return next(a=2)


class EpProvA(Middleware):
    endpoint_provides = ('a',)

    def endpoint(self, next):
        return next(a=3)


class RnProvA(Middleware):
    render_provides = ('a',)

    def render(self, next, context):
        return next(a=4)


class NonUnique(Middleware):
    unique = False
    provides = ('nu',)

    def request(self, next):
        return next(nu=1)


class NonUniqueNoProvides(Middleware):
    unique = False

    def request(self, next):
        return next()


class Rigid(Middleware):
    reorderable = False

    def request(self, next):
        return next()


class Plain(Middleware):
    def request(self, next):
        return next()


# --- merge_middlewares directly -------------------------------------------
a1, a2, p1, p2, r1, r2 = ProvA(), ProvA(), Plain(), Plain(), Rigid(), Rigid()
n1, n2 = NonUnique(), NonUnique()

# new (application-level) first, then old (route-level) ones not yet present
m = merge_middlewares([a1, p1], [r1])
assert [id(x) for x in m] == [id(r1), id(a1), id(p1)]
# unique + reorderable duplicates (same type) are silently dropped: app's wins
m = merge_middlewares([a1, p1], [p2, a2])
assert [id(x) for x in m] == [id(p2), id(a2)]
# a duplicate inside `old` itself is dropped too
m = merge_middlewares([p1, p2], [])
assert [id(x) for x in m] == [id(p1)]
# unique, non-reorderable duplicate -> ValueError
e = raises(ValueError, merge_middlewares, [r1], [r2])
assert 'Rigid' in str(e)
raises(ValueError, merge_middlewares, [r1, r2], [])
# non-reorderable, but not a duplicate: fine
assert merge_middlewares([r1], [p1]) == [p1, r1]
# non-unique: always appended
m = merge_middlewares([n1, n2], [n1])
assert [id(x) for x in m] == [id(n1), id(n1), id(n2)]
# inputs are not mutated, result is a fresh list; generators accepted
old, new = [a1], [p1]
m = merge_middlewares(old, new)
assert m is not new and m is not old and old == [a1] and new == [p1]
m = merge_middlewares((x for x in [a1]), (x for x in [p1]))
assert [id(x) for x in m] == [id(p1), id(a1)]
assert merge_middlewares([], []) == []
assert merge_middlewares((), ()) == []

# --- conflicts across levels ----------------------------------------------
# app-level vs route-level, different middleware types, same name: all phases
for app_mw, rt_mw in [(ProvA, ProvA2), (ProvA, EpProvA), (ProvA, RnProvA),
                      (EpProvA, RnProvA), (RnProvA, ProvA2), (EpProvA, ProvA)]:
    rt = Route('/', ep, middlewares=[rt_mw()])
    e = raises(NameError, Application, [rt], middlewares=[app_mw()])
    assert 'conflicting provides' in str(e) and "'a'" in str(e)
    # each alone is fine
    Application([Route('/', ep, middlewares=[rt_mw()])])
    Application([Route('/', ep)], middlewares=[app_mw()])

# same type on both levels: deduplicated, hence no conflict
app = Application([Route('/', ep, middlewares=[ProvA()])], middlewares=[ProvA()])
assert len(app.routes[0].middlewares) == 1

# non-unique middleware with provides, on both levels: both survive the merge
# and the doubled name is rejected
raises(NameError, Application, [Route('/', ep, middlewares=[NonUnique()])],
       middlewares=[NonUnique()])
# non-unique without provides: both kept, no conflict
app = Application([Route('/', ep, middlewares=[NonUniqueNoProvides()])],
                  middlewares=[NonUniqueNoProvides()])
assert len(app.routes[0].middlewares) == 2

# unique non-reorderable on both levels: ValueError at construction
raises(ValueError, Application, [Route('/', ep, middlewares=[Rigid()])],
       middlewares=[Rigid()])

# embedded applications: inner route mw vs outer app mw
inner = Application([Route('/x', ep, middlewares=[EpProvA()])])
raises(NameError, Application, [('/sub', inner)], middlewares=[ProvA()])
inner = Application([Route('/x', ep)], middlewares=[ProvA2()])
raises(NameError, Application, [SubApplication('/sub', inner)], middlewares=[RnProvA()])
inner = Application([Route('/x', ep)], middlewares=[ProvA()])
outer = Application([('/sub', inner)], middlewares=[ProvA()])  # same type: dedup'd
assert len(outer.routes[0].middlewares) == 1

# middleware (either level) vs url / resource / builtin
for lvl in ('app', 'route'):
    for pattern, res, in [('/<a>', {}), ('/', {'a': 1})]:
        kw_rt = {'middlewares': [ProvA()]} if lvl == 'route' else {}
        kw_app = {'middlewares': [ProvA()]} if lvl == 'app' else {}
        raises(NameError, Application, [Route(pattern, ep, **kw_rt)], res, **kw_app)
    # route-level resource vs mw
    kw_rt = {'middlewares': [ProvA()]} if lvl == 'route' else {}
    kw_app = {'middlewares': [ProvA()]} if lvl == 'app' else {}
    raises(NameError, Application, [Route('/', ep, resources={'a': 1}, **kw_rt)], **kw_app)


class ProvRequest(Middleware):
    provides = ('request',)

    def request(self, next):
        return next(request=None)


raises(NameError, Application, [Route('/', ep, middlewares=[ProvRequest()])])
raises(NameError, Application, [Route('/', ep)], middlewares=[ProvRequest()])

# reserved names as resources / url bindings
for name in ('request', '_application', '_route', '_dispatch_state', 'context', 'next'):
    raises(NameError, Application, [Route('/', ep)], {name: 1})
    raises(NameError, Application, [Route('/', ep, resources={name: 1})])
    raises(NameError, Application, [Route('/<%s>' % name, ep)])
# url vs resource
raises(NameError, Application, [Route('/<a>', ep)], {'a': 1})
raises(NameError, Application, [Route('/<a>', ep, resources={'a': 1})])

print('PASS')
