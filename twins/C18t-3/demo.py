# -*- coding: utf-8 -*-
"""demo3: route introspection of the meta application (get_route_infos,
get_endpoint_info, get_render_info, get_route_arg_info) -- unusual endpoints
never break the page, and the page still redacts secrets."""
import sys
import os
import json

sys.path.insert(0, os.path.dirname(os.path.abspath(__file__)))

from clastic import (Application, MetaApplication, render_basic, render_json,
                     StaticFileRoute, StaticApplication, GET, POST, Route)
from clastic import meta
from clastic.route import NullRoute, RESERVED_ARGS
from clastic.middleware import Middleware
from clastic.middleware.cookie import SignedCookieMiddleware

_HERE = os.path.dirname(os.path.abspath(__file__))
SECRET = 'xyzzy-SECRETVALUE-9000'
COOKIE_KEY = 'c00kie-signing-key-FROTZ'


class FakeRoute(object):
    def __init__(self, **kw):
        self.__dict__.update(kw)


class LoggingRoute(object):
    "records which attributes are read, in order"
    def __init__(self, **kw):
        object.__setattr__(self, '_vals', kw)
        object.__setattr__(self, 'log', [])

    def __getattr__(self, name):
        vals = object.__getattribute__(self, '_vals')
        self.log.append(name)
        try:
            return vals[name]
        except KeyError:
            raise AttributeError(name)


def func_ep(request):
    return 'x'


class Cls(object):
    def method_ep(self, request):
        return 'x'

    def __call__(self, request):
        return 'x'


class BadReprNoName(object):
    "not callable, no __name__, repr fails"
    def __repr__(self):
        raise RuntimeError('repr fails')


class ReprNoName(object):
    def __repr__(self):
        return '<ReprNoName endpoint>'


class ExplodingCall(object):
    "looking for __call__ fails with something else than AttributeError"
    @property
    def __call__(self):
        raise ValueError('exploding __call__')


# ---- get_endpoint_info --------------------------------------------------
obj = Cls()
info = meta.get_endpoint_info(FakeRoute(endpoint=func_ep))
assert info == {'module_name': '__main__', 'name': 'func_ep'}
assert list(info.keys()) == ['module_name', 'name']
assert meta.get_endpoint_info(FakeRoute(endpoint=obj.method_ep)) == \
    {'module_name': '__main__.Cls', 'name': 'method_ep'}
assert meta.get_endpoint_info(FakeRoute(endpoint=obj)) == \
    {'module_name': '__main__', 'name': 'Cls'}
assert meta.get_endpoint_info(FakeRoute(endpoint=sum)) == \
    {'module_name': 'builtins', 'name': 'sum'}
assert meta.get_endpoint_info(FakeRoute(endpoint=Cls)) == \
    {'module_name': 'builtins', 'name': 'type'}
assert meta.get_endpoint_info(FakeRoute(endpoint=lambda: 1)) == \
    {'module_name': '__main__', 'name': '<lambda>'}
# fallbacks: no __name__ -> repr, failing repr -> object.__repr__
assert meta.get_endpoint_info(FakeRoute(endpoint=5)) == {'name': '5'}
assert meta.get_endpoint_info(FakeRoute(endpoint=None)) == {'name': 'None'}
assert meta.get_endpoint_info(FakeRoute(endpoint=ReprNoName())) == \
    {'name': '<ReprNoName endpoint>'}
bad = BadReprNoName()
assert meta.get_endpoint_info(FakeRoute(endpoint=bad)) == \
    {'name': object.__repr__(bad)}
assert object.__repr__(bad).startswith('<__main__.BadReprNoName object at 0x')
# what is not an AttributeError is not swallowed
for route, exc_type in [(FakeRoute(endpoint=ExplodingCall()), ValueError),
                        (FakeRoute(), AttributeError)]:
    try:
        meta.get_endpoint_info(route)
    except exc_type:
        pass
    else:
        raise AssertionError('expected %r' % exc_type)
# the endpoint attribute is looked up once in the good case, and once more
# for the fallback
lr = LoggingRoute(endpoint=func_ep)
meta.get_endpoint_info(lr)
assert lr.log == ['endpoint'], lr.log
lr = LoggingRoute(endpoint=7)
assert meta.get_endpoint_info(lr) == {'name': '7'}
assert lr.log == ['endpoint', 'endpoint'], lr.log
lr = LoggingRoute(endpoint=bad)
meta.get_endpoint_info(lr)
assert lr.log == ['endpoint', 'endpoint', 'endpoint'], lr.log


# ---- get_render_info ------------------------------------------------------
class FakeFactory(object):
    def __call__(self, arg):
        return lambda context: 'rendered'


class FalsyFactory(FakeFactory):
    def __bool__(self):
        return False
    __nonzero__ = __bool__


class WithFuncName(object):
    func_name = 'legacy_func_name'

    def __call__(self, context):
        return ''


class CallableRender(object):
    def __call__(self, context):
        return ''


def render_func(context):
    return ''


tmpl_list = ['tmpl.html']
cases = [
    (FakeFactory(), 'tmpl.html', {'type': 'FakeFactory', 'arg': 'tmpl.html'}),
    (FakeFactory(), None, {'type': 'FakeFactory', 'arg': None}),
    (FakeFactory(), '', {'type': 'FakeFactory', 'arg': ''}),
    (FakeFactory(), 0, {'type': 'FakeFactory', 'arg': 0}),
    (FakeFactory(), tmpl_list, {'type': 'FakeFactory', 'arg': tmpl_list}),
    (FakeFactory(), render_func, {'type': None, 'arg': 'function'}),
    (FakeFactory(), CallableRender(), {'type': None, 'arg': 'CallableRender'}),
    (FakeFactory(), WithFuncName(), {'type': None, 'arg': 'legacy_func_name'}),
    (None, None, {'type': None, 'arg': None}),
    (None, render_func, {'type': None, 'arg': 'function'}),
    (None, render_basic, {'type': None, 'arg': 'BasicRender'}),
    (None, render_json, {'type': None, 'arg': 'JSONRender'}),
    (None, 'tmpl.html', {'type': None, 'arg': 'str'}),
    (None, '', {'type': None, 'arg': 'str'}),
    (None, 0, {'type': None, 'arg': 'int'}),
    (None, WithFuncName(), {'type': None, 'arg': 'legacy_func_name'}),
    (FalsyFactory(), 'tmpl.html', {'type': None, 'arg': 'str'}),
    (FalsyFactory(), None, {'type': None, 'arg': None}),
    (0, None, {'type': None, 'arg': None}),
    ('', render_func, {'type': None, 'arg': 'function'}),
]
for factory, arg, expected in cases:
    got = meta.get_render_info(FakeRoute(render_factory=factory, render_arg=arg))
    assert got == expected, (factory, arg, got)
    assert list(got.keys()) == ['type', 'arg'], got
    assert type(got['arg']) is type(expected['arg'])
got = meta.get_render_info(FakeRoute(render_factory=FakeFactory(),
                                     render_arg=tmpl_list))
assert got['arg'] is tmpl_list      # passed through, not copied
lr = LoggingRoute(render_factory=FakeFactory(), render_arg='t')
meta.get_render_info(lr)
assert lr.log == ['render_arg', 'render_factory', 'render_factory'], lr.log
lr = LoggingRoute(render_factory=None, render_arg=render_func)
meta.get_render_info(lr)
assert lr.log == ['render_arg', 'render_factory'], lr.log
try:
    meta.get_render_info(FakeRoute(render_arg=None))
except AttributeError:
    pass
else:
    raise AssertionError('expected AttributeError')


# ---- get_route_arg_info -------------------------------------------------
class ProvMW(object):
    def __init__(self, name, provides, log):
        self.name = name
        self._provides = provides
        self._log = log

    @property
    def provides(self):
        self._log.append(self.name)
        return self._provides


def many_args(request, next, _route, in_url, in_url_and_res, in_res,
              in_res_and_mw, in_mw1, in_mw2, in_mw_and_default=1,
              in_default=None, request_default=3):
    pass


def mystery_args(mystery, other_mystery):
    pass


def no_args():
    pass


mw_log = []
mws = (ProvMW('mw1', ('in_res_and_mw', 'in_mw1', 'in_mw_and_default'), mw_log),
       ProvMW('mw2', ['in_mw2', 'in_mw1'], mw_log))
route = FakeRoute(endpoint=many_args,
                  path_args=['in_url', 'in_url_and_res'],
                  resources={'in_url_and_res': 1, 'in_res': 2,
                             'in_res_and_mw': 3},
                  middlewares=mws)
got = meta.get_route_arg_info(route)
assert got == [
    {'name': 'request', 'source': 'builtin'},
    {'name': 'next', 'source': 'builtin'},
    {'name': '_route', 'source': 'builtin'},
    {'name': 'in_url', 'source': 'url'},
    {'name': 'in_url_and_res', 'source': 'url'},
    {'name': 'in_res', 'source': 'resources'},
    {'name': 'in_res_and_mw', 'source': 'resources'},
    {'name': 'in_mw1', 'source': 'middleware'},
    {'name': 'in_mw2', 'source': 'middleware'},
    {'name': 'in_mw_and_default', 'source': 'middleware'},
    {'name': 'in_default', 'source': 'default'},
    {'name': 'request_default', 'source': 'default'},
], got
assert all(list(g.keys()) == ['name', 'source'] for g in got)
# middlewares are only consulted when needed, in order, until the first hit
assert mw_log == ['mw1',                # in_mw1
                  'mw1', 'mw2',         # in_mw2
                  'mw1',                # in_mw_and_default
                  'mw1', 'mw2',         # in_default
                  'mw1', 'mw2'], mw_log  # request_default
for name in RESERVED_ARGS:
    assert isinstance(name, str)
route = FakeRoute(endpoint=mystery_args, path_args=[], resources={},
                  middlewares=())
assert meta.get_route_arg_info(route) == [
    {'name': 'mystery', 'source': None},
    {'name': 'other_mystery', 'source': None}]
assert meta.get_route_arg_info(FakeRoute(endpoint=no_args)) == []
# method endpoints: self is not an argument
route = FakeRoute(endpoint=obj.method_ep, path_args=(), resources={},
                  middlewares=[])
assert meta.get_route_arg_info(route) == [{'name': 'request',
                                           'source': 'builtin'}]
route = FakeRoute(endpoint=obj, path_args=(), resources={}, middlewares=[])
assert meta.get_route_arg_info(route) == [{'name': 'request',
                                           'source': 'builtin'}]
# an endpoint that cannot be introspected fails loudly here (get_main
# reports it inside the page)
for ep in (5, None, 'string'):
    try:
        meta.get_route_arg_info(FakeRoute(endpoint=ep, path_args=(),
                                          resources={}, middlewares=()))
    except Exception:
        pass
    else:
        raise AssertionError('expected a failure for %r' % (ep,))


# ---- get_route_infos on a real application -------------------------------
class ThingMW(Middleware):
    provides = ('thing',)

    def request(self, next):
        return next(thing=1)


def ep_all(request, name, num, thing, cookie, visible, opt='dflt'):
    return {'name': name}


def ep_post(request, db_secret):
    return 'posted'


factory = FakeFactory()
sub_app = Application([('/sub_fn', func_ep, render_basic),
                       GET('/sub_obj', obj, render_json)])
mid_app = Application([('/mid', sub_app)])
routes = [('/fn', func_ep, render_basic),
          ('/all/<name>/<num:int>', ep_all, 'all.html'),
          POST('/post', ep_post, render_basic),
          ('/method', obj.method_ep, render_basic),
          ('/obj', obj, CallableRender()),
          ('/builtin', sum, render_basic),
          ('/norender', func_ep),
          StaticFileRoute('/file', os.path.abspath(__file__)),
          ('/static/', StaticApplication(_HERE)),
          ('/nested', mid_app),
          ('/meta', MetaApplication()),
          ('/nested/deeper', Application([('/meta2', MetaApplication())]))]
resources = {'db_secret': SECRET, 'secret_list': [SECRET, SECRET],
             'xsecretx': {'k': SECRET.encode('ascii')},
             'visible': 'visible-resource-value', 'iterable': [1, 2, 3],
             'start': 0}
app = Application(routes, resources,
                  [SignedCookieMiddleware(secret_key=COOKIE_KEY), ThingMW()],
                  render_factory=factory)

infos = meta.get_route_infos(app)
non_null = [r for r in app.routes if not isinstance(r, NullRoute)]
assert len(infos) == len(non_null)
assert all(list(i.keys()) == ['url_pattern', 'url_regex_pattern', 'endpoint',
                              'render', 'args'] for i in infos)
assert [i['url_pattern'] for i in infos] == [r.pattern for r in non_null]
assert [i['url_regex_pattern'] for i in infos] == \
    [r.regex.pattern for r in non_null]
by_pat = dict((i['url_pattern'], i) for i in infos)
assert by_pat['/fn']['endpoint'] == {'module_name': '__main__',
                                     'name': 'func_ep'}
assert by_pat['/fn']['render'] == {'type': None, 'arg': 'BasicRender'}
assert by_pat['/fn']['args'] == [{'name': 'request', 'source': 'builtin'}]
all_info = by_pat['/all/<name>/<num:int>']
assert all_info['render'] == {'type': 'FakeFactory', 'arg': 'all.html'}
assert all_info['args'] == [{'name': 'request', 'source': 'builtin'},
                            {'name': 'name', 'source': 'url'},
                            {'name': 'num', 'source': 'url'},
                            {'name': 'thing', 'source': 'middleware'},
                            {'name': 'cookie', 'source': 'middleware'},
                            {'name': 'visible', 'source': 'resources'},
                            {'name': 'opt', 'source': 'default'}]
assert by_pat['/post']['args'] == [{'name': 'request', 'source': 'builtin'},
                                   {'name': 'db_secret', 'source': 'resources'}]
assert by_pat['/method']['endpoint'] == {'module_name': '__main__.Cls',
                                         'name': 'method_ep'}
assert by_pat['/obj']['endpoint'] == {'module_name': '__main__', 'name': 'Cls'}
assert by_pat['/obj']['render'] == {'type': None, 'arg': 'CallableRender'}
assert by_pat['/builtin']['endpoint'] == {'module_name': 'builtins',
                                          'name': 'sum'}
assert by_pat['/builtin']['args'] == [{'name': 'iterable', 'source': 'resources'},
                                      {'name': 'start', 'source': 'resources'}]
assert by_pat['/norender']['render']['arg'] is None
assert by_pat['/file']['endpoint'] == \
    {'module_name': 'clastic.static.StaticFileRoute', 'name': 'get_file_response'}
static_pats = [i['url_pattern'] for i in infos if i['endpoint'] ==
               {'module_name': 'clastic.static.StaticApplication',
                'name': 'get_file_response'}]
assert len(static_pats) == 3, static_pats
assert static_pats[0].startswith('/static/'), static_pats
assert static_pats[1].startswith('/meta/clastic_assets/'), static_pats
assert static_pats[2].startswith('/nested/deeper/meta2/clastic_assets/')
assert by_pat['/nested/mid/sub_fn']['endpoint']['name'] == 'func_ep'
assert by_pat['/nested/mid/sub_obj']['render'] == {'type': None,
                                                   'arg': 'JSONRender'}
assert by_pat['/meta/']['endpoint'] == \
    {'module_name': 'clastic.meta.MetaApplication', 'name': 'get_main'}
assert by_pat['/meta/']['render'] == {'type': None, 'arg': 'method'}
assert by_pat['/meta/']['args'] == [
    {'name': 'request', 'source': 'builtin'},
    {'name': '_application', 'source': 'builtin'},
    {'name': '_route', 'source': 'builtin'},
    {'name': 'script_root', 'source': 'middleware'}]
assert '/nested/deeper/meta2/json/' in by_pat
# a second call gives equal, but new, data
again = meta.get_route_infos(app)
assert again == infos and again is not infos and again[0] is not infos[0]
assert meta.get_route_infos(FakeRoute(routes=[])) == []
assert meta.get_route_infos(FakeRoute(routes=[NullRoute()])) == []

# ---- and through HTTP: every meta, HTML + JSON ---------------------------
cl = app.get_local_client()
for prefix in ('/meta', '/nested/deeper/meta2'):
    resp = cl.get(prefix + '/')
    assert resp.status_code == 200
    html = resp.get_data(as_text=True)
    resp = cl.get(prefix + '/json/')
    assert resp.status_code == 200
    jtext = resp.get_data(as_text=True)
    data = json.loads(jtext)
    for body in (html, jtext):
        assert SECRET not in body and COOKIE_KEY not in body
        assert '[REDACTED]' in body
        assert 'visible-resource-value' in body
        assert '/all/&lt;name&gt;/&lt;num:int&gt;' in body \
            or '/all/<name>/<num:int>' in body
        assert 'func_ep' in body and 'method_ep' in body
        assert 'get_file_response' in body
    assert 'exc_content' not in data['app']
    assert data['app']['routes'] == json.loads(json.dumps(infos))
    jres = dict((r['key'], r['value']) for r in data['app']['resources'])
    assert jres == {'db_secret': '[REDACTED]', 'secret_list': '[REDACTED]',
                    'xsecretx': '[REDACTED]',
                    'visible': "'visible-resource-value'",
                    'iterable': '[1, 2, 3]', 'start': '0'}, jres


# an endpoint whose introspection fails: reported inline, page stays up
class Opaque(object):
    """callable whose signature claims an _sinter_fb it cannot honour"""
    def __call__(self, request):
        return 'opaque'

    @property
    def _sinter_fb(self):
        if Opaque.armed:
            raise RuntimeError('introspection exploded')
        raise AttributeError('_sinter_fb')

    armed = False


opaque_app = Application([('/opaque', Opaque(), render_basic),
                          ('/meta', MetaApplication())],
                         {'a_secret': SECRET, 'fine': 'fine-value'})
cl = opaque_app.get_local_client()
assert cl.get('/opaque').status_code == 200
Opaque.armed = True
resp = cl.get('/meta/json/')
assert resp.status_code == 200
data = json.loads(resp.get_data(as_text=True))
assert data['app']['exc_content'] == "RuntimeError('introspection exploded')"
assert 'routes' not in data['app']
assert [r['value'] for r in data['app']['resources']] == ['[REDACTED]',
                                                          "'fine-value'"]
resp = cl.get('/meta/')
assert resp.status_code == 200
html = resp.get_data(as_text=True)
assert SECRET not in html and 'fine-value' in html
assert 'introspection exploded' in html
Opaque.armed = False
data = json.loads(cl.get('/meta/json/').get_data(as_text=True))
assert 'exc_content' not in data['app']
assert data['app']['routes'][0]['endpoint'] == {'module_name': '__main__',
                                                'name': 'Opaque'}

print('PASS')
