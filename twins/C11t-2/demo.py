# -*- coding: utf-8 -*-
"""C11 demo 2: binding is non-destructive, applications are isolated, add() is atomic.

Focus: BoundRoute construction -- what a binding copies (pattern, resources,
middlewares, bound_apps), how render / render_factory / render_error are chosen
through several levels of embedding, and that neither the Route nor the embedded
Application is changed by any of it.
"""
import itertools
import sys

from clastic import Application, Route, SubApplication, Response
from clastic.route import BoundRoute, InvalidPattern, _noop_render
from clastic.middleware import Middleware


class Factory(object):
    """A render factory: turns a render argument into a render function."""
    def __init__(self, name, fail_on=None):
        self.name = name
        self.fail_on = fail_on
        self.calls = []

    def __call__(self, arg):
        self.calls.append(arg)
        if arg == self.fail_on:
            raise ValueError('no such template %r' % (arg,))
        fname = self.name

        def render(context):
            return Response('%s:%s:%s' % (fname, arg, context['v']))
        render.ident = (fname, arg)
        return render


class FalsyFactory(Factory):
    # callable, but falsy: must be *found* but not *used*
    def __len__(self):
        return 0


def explicit_render(context):
    return Response('explicit:%s' % context['v'])
explicit_render.ident = ('explicit', None)


def ep(who):
    return {'v': who}


def ident(render):
    if render is _noop_render:
        return 'noop'
    return render.ident


def model_chain(unbound_render, levels):
    """Independent oracle. levels: list of (factory_or_None, rebind_render).
    Yields (render ident, render_factory) after each level."""
    cur_render, cur_factory = 'noop', None     # what a raw Route with a non-callable render carries
    seen = []
    out = []
    for depth, (factory, rebind) in enumerate(levels):
        seen.append(factory)
        callables = [f for f in seen if callable(f)]
        latest = callables[-1] if callables else None
        # a raw Route's render argument is always (re)interpreted; a generated
        # render only when asked to, a missing one whenever possible
        wants_binding = depth == 0 or rebind or cur_render == 'noop'
        if callable(unbound_render):
            new_render, new_factory = ident(unbound_render), None
        elif wants_binding and latest and unbound_render is not None:   # NB: truthiness of the factory
            new_render, new_factory = (latest.name, unbound_render), latest
        else:
            new_render, new_factory = cur_render, cur_factory
        cur_render, cur_factory = new_render, new_factory
        out.append((new_render, new_factory))
    return out


def route_state(rt):
    return (rt.pattern, rt.endpoint, rt.render, rt.render_error, rt.methods, rt.slash_mode,
            list(rt.middlewares), dict(rt.resources), sorted(vars(rt)))


def bound_state(br):
    return (br.pattern, br.slash_mode, br.methods, br.regex.pattern, sorted(br.converters),
            dict(br.resources), br.middlewares, ident(br.render), br.render_factory,
            br.render_error, list(br.bound_apps), br.unbound_route, br.get_required_args())


def app_state(app):
    return [bound_state(br) for br in app.routes]


def check_render_matrix():
    f_specs = [None, 'F', 'falsy']
    renders = ['tmpl', explicit_render, None, '']
    n = 0
    for render_arg in renders:
        for specs in itertools.product(f_specs, repeat=3):
            for rebinds in itertools.product([False, True], repeat=2):
                factories = []
                for i, s in enumerate(specs):
                    factories.append({None: None, 'F': Factory('F%d' % i),
                                      'falsy': FalsyFactory('Z%d' % i)}[s])
                rt = Route('/r', ep, render_arg)
                before = route_state(rt)
                apps = []
                a0 = Application([rt], resources={'who': 'a0'}, render_factory=factories[0])
                apps.append(a0)
                snap0 = app_state(a0)
                a1 = Application(resources={'who': 'a1'}, render_factory=factories[1])
                a1.add(SubApplication('/l1', a0, rebind_render=rebinds[0]))
                apps.append(a1)
                snap1 = app_state(a1)
                assert app_state(a0) == snap0
                a2 = Application(resources={'who': 'a2'}, render_factory=factories[2])
                a2.add(('/l2', a1), rebind_render=rebinds[1])
                apps.append(a2)
                assert app_state(a0) == snap0 and app_state(a1) == snap1
                assert route_state(rt) == before

                levels = [(factories[0], True), (factories[1], rebinds[0]), (factories[2], rebinds[1])]
                want = model_chain(render_arg, levels)
                paths = ['/r', '/l1/r', '/l2/l1/r']
                for depth, (app, path) in enumerate(zip(apps, paths)):
                    br = app.routes[0]
                    assert [r.pattern for r in app.routes] == [path]
                    got = (ident(br.render), br.render_factory)
                    assert got == want[depth], (render_arg, specs, rebinds, depth, got, want[depth])
                    assert br.unbound_route is rt
                    assert br.bound_apps == apps[:depth + 1]
                    assert br.render_arg is render_arg
                    resp = app.get_local_client().get(path)
                    if got[0] == 'noop':
                        assert resp.status_code == 500, resp.status_code
                    else:
                        assert resp.status_code == 200
                        name, arg = got[0]
                        exp = 'explicit:a%d' % depth if name == 'explicit' else '%s:%s:a%d' % (name, arg, depth)
                        assert resp.get_data(True) == exp, (resp.get_data(True), exp)
                    # other apps do not know the path of this one
                    for other_depth, other in enumerate(apps):
                        if other_depth != depth:
                            assert other.get_local_client().get(path).status_code == 404
                n += 1
    assert n == 4 * 27 * 4


def MW(name, provides=()):
    # Middleware equality is by type, so every instance gets its own class
    class _MW(Middleware):
        def request(self, next):
            return next(**dict((p, name) for p in self.provides))

        def __repr__(self):
            return 'MW(%r)' % name
    _MW.__name__ = 'MW_' + name
    _MW.provides = tuple(provides)
    return _MW()


def check_copies_and_layering():
    rmw, amw, bmw = MW('rmw', ['from_rmw']), MW('amw', ['from_amw']), MW('bmw')

    def show(who, extra, other, from_rmw, from_amw):
        return Response('|'.join([who, str(extra), str(other), from_rmw, from_amw]))

    def route_render_error(_error, who):
        return Response('route-level error for %s' % who, status=418)

    rt = Route('/show/', show, resources={'who': 'route', 'extra': 0}, middlewares=[rmw],
               render_error=route_render_error, methods=['GET'])
    before = route_state(rt)
    app_res = {'who': 'app', 'other': None, 'extra': 7}
    app = Application([rt], resources=app_res, middlewares=[amw], slash_mode='strict')
    br = app.routes[0]
    assert isinstance(br, BoundRoute)
    assert br.resources == {'who': 'route', 'extra': 0, 'other': None}      # route wins, falsy values kept
    assert br.resources is not rt.resources and br.resources is not app.resources
    assert app.resources == app_res and app.resources is not app_res
    assert br.middlewares == (amw, rmw) and type(br.middlewares) is tuple
    assert rt.middlewares == [rmw] and app.middlewares == [amw]
    assert br.methods is rt.methods and rt.methods == set(['GET', 'HEAD'])
    assert br.slash_mode == 'strict' and rt.slash_mode == 'redirect'
    assert br.render_error == app.error_handler.render_error               # rebound by default
    assert list(br.path_args) == []
    assert list(br.endpoint_args) == ['who', 'extra', 'other', 'from_rmw', 'from_amw']
    assert br.get_required_args() == br.get_required_args() and br.get_required_args() is not br.get_required_args()
    assert route_state(rt) == before
    # dispatch-time application resources are layered over the bound ones
    assert app.get_local_client().get('/show/').get_data(True) == 'app|7|None|rmw|amw'
    assert app.get_local_client().get('/show').status_code == 404          # strict

    # same Route, second application, different everything
    app2 = Application(resources={'other': 'o2'}, middlewares=[bmw, amw])
    app2.add(rt, rebind_render_error=False, inherit_slashes=False)
    br2 = app2.routes[0]
    assert br2.render_error is route_render_error
    assert br2.resources == {'who': 'route', 'extra': 0, 'other': 'o2'}
    assert br2.middlewares == (bmw, amw, rmw)
    assert br2.slash_mode == 'redirect'
    assert br2.bound_apps == [app2] and br.bound_apps == [app]
    assert app2.get_local_client().get('/show/').get_data(True) == 'route|0|o2|rmw|amw'
    assert app2.get_local_client().get('/show').status_code in (301, 302, 308)
    # first binding unaffected
    assert br is app.routes[0] and len(app.routes) == 1
    assert app.get_local_client().get('/show/').get_data(True) == 'app|7|None|rmw|amw'
    assert route_state(rt) == before

    # embedding: a BoundRoute is rebound; the inner BoundRoute stays as it was
    inner_state = app_state(app2)
    outer = Application([('/deep', app2)], resources={'who': 'outer'})
    obr = outer.routes[0]
    assert obr.pattern == '/deep/show/' and obr.unbound_route is rt
    assert obr.bound_apps == [app2, outer] and br2.bound_apps == [app2]
    assert obr.bound_apps is not br2.bound_apps
    assert obr.resources == {'who': 'route', 'extra': 0, 'other': 'o2'}
    assert obr.resources is not br2.resources
    assert obr.middlewares == (bmw, amw, rmw)
    assert obr.render_error == outer.error_handler.render_error
    assert app_state(app2) == inner_state
    assert outer.get_local_client().get('/deep/show/').get_data(True) == 'outer|0|o2|rmw|amw'
    assert app2.get_local_client().get('/deep/show/').status_code == 404
    # mutating the copies held by one binding is invisible elsewhere
    obr.resources['extra'] = 'mutated'
    obr.bound_apps.append('junk')
    assert br2.resources['extra'] == 0 and rt.resources['extra'] == 0 and br2.bound_apps == [app2]
    assert app2.get_local_client().get('/show/').get_data(True) == 'route|0|o2|rmw|amw'
    assert route_state(rt) == before

    # path arguments, prefix and required args
    def item(item_id, who):
        return Response('%s:%r' % (who, item_id))
    irt = Route('/item/<item_id:int>', item)
    a = Application([irt], resources={'who': 'a'})
    b = Application([('/v1', a), ('/v2/', a)], resources={'who': 'b'})
    assert [r.pattern for r in b.routes] == ['/v1/item/<item_id:int>', '/v2/item/<item_id:int>']
    assert [r.pattern for r in a.routes] == ['/item/<item_id:int>'] and irt.pattern == '/item/<item_id:int>'
    assert sorted(b.routes[0].get_required_args()) == ['item_id', 'who']
    assert b.routes[0].is_required_arg('item_id') and not b.routes[0].is_required_arg('request')
    assert b.get_local_client().get('/v2/item/12').get_data(True) == 'b:12'
    assert a.get_local_client().get('/item/-3').get_data(True) == 'a:-3'
    assert b.get_local_client().get('/item/3').status_code == 404
    assert b.get_local_client().get('/v1/item/x').status_code == 404


def check_failures_are_atomic():
    good = Factory('G')
    bad = Factory('B', fail_on='t2')
    inner = Application([Route('/one', ep, 't1'), Route('/two', ep, 't2'), Route('/three', ep, 't3')],
                        resources={'who': 'inner'}, render_factory=good)
    inner_snap = app_state(inner)
    outer = Application([Route('/zero', ep, 't0')], resources={'who': 'outer'}, render_factory=bad)
    outer_snap = app_state(outer)
    routes_before = list(outer.routes)

    def expect(exc_type, *a, **kw):
        try:
            outer.add(*a, **kw)
        except Exception as e:
            assert type(e) is exc_type, (type(e), e)
        else:
            raise AssertionError('expected %s' % exc_type)
        assert outer.routes == routes_before and all(x is y for x, y in zip(outer.routes, routes_before))
        assert app_state(outer) == outer_snap and app_state(inner) == inner_snap
        assert outer.get_local_client().get('/zero').get_data(True) == 'B:t0:outer'
        assert inner.get_local_client().get('/two').get_data(True) == 'G:t2:inner'

    # 2nd route of the embedded app fails in the outer render factory
    expect(ValueError, SubApplication('/in', inner, rebind_render=True), 0)
    assert bad.calls == ['t0', 't1', 't2']            # 3rd route never reached
    expect(ValueError, ('/in', inner), 0, rebind_render=True)
    expect(TypeError, ('/in', inner), 0, nonsense=True)
    expect(TypeError, Route('/x', ep, 't0'), nonsense=True, more=1)
    expect(InvalidPattern, ('in', inner))
    expect(InvalidPattern, ('/in/<x>/<x>', inner))
    expect(NameError, Route('/x', lambda unknown_thing: None))
    expect(NameError, Route('/x', ep, middlewares=[MW('clash', ['who'])]))
    expect(NameError, Route('/x', lambda next: None))
    # without rebinding, embedding works and uses the inner app's renders
    outer.add(('/in', inner), 0)
    assert [r.pattern for r in outer.routes] == ['/in/one', '/in/two', '/in/three', '/zero']
    assert outer.get_local_client().get('/in/two').get_data(True) == 'G:t2:outer'
    assert [r.render_factory for r in outer.routes] == [good, good, good, bad]
    assert app_state(inner) == inner_snap
    # unexpected kwargs message lists exactly the unknown names
    try:
        BoundRoute(Route('/k', ep), outer, prefix='/p', zzz=1, rebind_render=False, aaa=2)
    except TypeError as te:
        assert "['zzz', 'aaa']" in str(te), str(te)
    else:
        raise AssertionError('expected TypeError')


def main():
    check_render_matrix()
    check_copies_and_layering()
    check_failures_are_atomic()
    print('PASS')
    return 0


if __name__ == '__main__':
    sys.exit(main())
