# -*- coding: utf-8 -*-
"""Exercises property C14 (static serving stays inside its roots and serves
files faithfully).  Prints PASS and exits 0."""
import os
import sys
import shutil
import tempfile
import itertools
from unittest import mock

sys.path.insert(0, os.path.dirname(os.path.abspath(__file__)))

from werkzeug.test import Client
from werkzeug.wrappers import Response

import clastic
from clastic import Application, StaticApplication, StaticFileRoute
from clastic import static as static_mod
from clastic.static import find_file, build_file_response, is_binary_string
from clastic.route import build_converter, _compile_path_pattern
from clastic.errors import Forbidden, NotFound

assert clastic.__file__.startswith(os.path.dirname(os.path.abspath(__file__)))

base = tempfile.mkdtemp(prefix='c14demo')
try:
    root1 = os.path.join(base, 'outer', 'root1')
    root2 = os.path.join(base, 'outer', 'root2')
    FILES1 = {
        'a.txt': b'hello a\n',
        'empty.txt': b'',
        'noext': b'plain words',
        'blob': b'\x00\x01\x02\xff' * 10,
        'emptynoext': b'',
        'sub/b.html': b'<p>b</p>',
        'sub/deep/c.tar.gz': b'\x1f\x8b\x00binary',
        'sub/with space.txt': b'spaced',
        u'sub/né.txt': u'café'.encode('utf-8'),
        '...': b'three dots',
        'x..y': b'dots inside',
    }
    FILES2 = {'a.txt': b'SHADOWED', 'only2.css': b'body{}', 'sub/deep/z.json': b'{}'}
    for root, files in ((root1, FILES1), (root2, FILES2)):
        for rel, data in files.items():
            fp = os.path.join(root, *rel.split('/'))
            os.makedirs(os.path.dirname(fp), exist_ok=True)
            with open(fp, 'wb') as f:
                f.write(data)
    SECRET = b'TOP-SECRET'
    for fp in (os.path.join(base, 'outer', 'secret.txt'), os.path.join(base, 'secret.txt'),
               os.path.join(base, 'outer', 'root1secret')):
        with open(fp, 'wb') as f:
            f.write(SECRET)

    def get(client, path, **kw):
        resp = client.get(path, **kw)
        return resp.status_code, resp.headers, resp.get_data()

    # ---- find_file directly
    assert find_file([root1, root2], 'a.txt') == os.path.join(root1, 'a.txt')
    assert find_file([root2, root1], 'a.txt') == os.path.join(root2, 'a.txt')
    assert find_file([root1, root2], 'only2.css') == os.path.join(root2, 'only2.css')
    assert find_file([root1], 'sub//deep/../b.html') == os.path.join(root1, 'sub/b.html')
    assert find_file([root1], 'nope') is None
    assert find_file([], 'a.txt') is None
    assert find_file([root1], 'sub') is None          # a directory
    assert find_file([root1], '') is None             # normpath('') == '.'
    assert find_file(iter([root1]), 'a.txt') == os.path.join(root1, 'a.txt')
    for bad in ('/etc/passwd', '../secret.txt', '..', 'sub/../../secret.txt', '//x', '...', '..a',
                root1 + '/a.txt'):
        try:
            find_file([root1], bad)
        except ValueError as e:
            assert type(e) is ValueError
            if bad.startswith('/'):
                assert str(e) == 'expected relative path, not %r' % bad
            else:
                assert str(e) == 'attempted to access beyond root directory'
        else:
            raise AssertionError('not refused: %r' % bad)
    assert find_file([root1], '../secret.txt', limit_root=False) == os.path.join(root1, '../secret.txt')
    assert find_file([root1], '/nonexistent-abs', False) is None
    assert find_file(search_paths=[root1], path='a.txt', limit_root=True).endswith('a.txt')
    for exc_input in (None, 5):
        try:
            find_file([root1], exc_input)
        except TypeError:
            pass
        else:
            raise AssertionError('expected TypeError')

    # ---- converters
    conv = build_converter(str, optional=True, multi=True)
    assert conv('') == [] and conv(None) == [] and conv('/a/b') == ['a', 'b']
    assert conv('//a') == ['', 'a'] and conv('/') == ['']
    conv = build_converter(int, multi=True)
    assert conv('/1/2') == [1, 2] and conv('') == []
    for val in ('/x', None):
        try:
            conv(val)
        except (ValueError, AttributeError):
            pass
        else:
            raise AssertionError
    conv = build_converter(int, optional=True)
    assert conv('') is None and conv('/12') == 12 and conv(None) is None
    conv = build_converter(converter=str, multi=False, optional=False)
    assert conv('') == '' and conv('/a/') == 'a'
    rx, convs = _compile_path_pattern('/<path*>')
    assert list(convs) == ['path'] and convs['path']('/a//b') == ['a', '', 'b']
    from clastic.route import InvalidPattern
    for badpat in ('/<a!>', '/<a:nosuch>', '/<a>/<a>', 'nolead', '/a//b'):
        try:
            _compile_path_pattern(badpat)
        except InvalidPattern as e:
            assert str(e)
        else:
            raise AssertionError(badpat)
    try:
        _compile_path_pattern('/<a!>')
    except InvalidPattern as e:
        assert str(e).startswith("unknown arity operator '!', expected one of ")
    try:
        _compile_path_pattern('/<a:nosuch>')
    except InvalidPattern as e:
        assert str(e) == 'unknown type specifier nosuch'

    # ---- serving through WSGI
    def check_app(app, prefix, roots):
        client = Client(app, Response)
        expected = {}
        for root, files in reversed(roots):
            expected.update(files)
        for rel, data in expected.items():
            if rel.startswith('..'):
                continue
            code, headers, body = get(client, prefix + '/' + rel)
            assert code == 200, (rel, code)
            assert body == data, rel
            assert int(headers['Content-Length']) == len(data)
            assert headers.get('Last-Modified')
            assert headers.get('Content-Type')
            assert 'max-age=360' in headers['Cache-Control']
            # conditional
            code2, headers2, body2 = get(client, prefix + '/' + rel,
                                         headers={'If-Modified-Since': headers['Last-Modified']})
            assert code2 == 304 and body2 == b'', (rel, code2)
            assert 'public' in headers2['Cache-Control'] and 'max-age=360' in headers2['Cache-Control']
            code3, headers3, body3 = get(client, prefix + '/' + rel,
                                         headers={'If-Modified-Since': 'Mon, 01 Jan 1990 00:00:00 GMT'})
            assert code3 == 200 and body3 == data and 'public' in headers3['Cache-Control']
            code4, _, body4 = get(client, prefix + '/' + rel,
                                  headers={'If-Modified-Since': 'Fri, 01 Jan 2100 00:00:00 GMT'})
            assert code4 == 304 and body4 == b''
        segs = ['a.txt', 'sub', 'deep', '.', '..', '', '...', 'secret.txt', 'root1secret',
                '%2e%2e', '..%2f', base.strip('/'), 'outer']
        statuses = {}
        for depth in (1, 2, 3):
            for combo in itertools.product(segs, repeat=depth):
                path = prefix + '/' + '/'.join(combo)
                code, headers, body = get(client, path)
                assert code in (200, 403, 404), (path, code)
                assert SECRET not in body, path
                if code == 200:
                    assert body in expected.values(), path
                    assert int(headers['Content-Length']) == len(body)
                statuses[path] = (code, body if code == 200 else None, headers.get('Content-Type'))
        return statuses

    app1 = StaticApplication([root1, root2])
    st = check_app(app1, '', [(root1, FILES1), (root2, FILES2)])
    assert st['/..'][0] == 403 and st['/../secret.txt'][0] == 403
    assert st['/sub/../a.txt'][:2] == (200, FILES1['a.txt'])
    assert st['//' + base.strip('/')][0] in (403, 404)
    assert st['/...'][0] == 403      # refused: starts with '..'
    assert st['/sub'][0] == 404
    app2 = Application([('/static', StaticApplication(root1))])
    check_app(app2, '/static', [(root1, FILES1)])
    app3 = Application([('/s', StaticApplication(root2)), ('/s', StaticApplication((root1,)))])
    check_app(app3, '/s', [(root2, FILES2), (root1, FILES1)])
    for mode in ('strict', 'rewrite', 'redirect'):
        app = Application([('/m/', StaticApplication([root1]))], slash_mode=mode)
        c = Client(app, Response)
        code, _, body = get(c, '/m/a.txt')
        assert (code, body) == (200, FILES1['a.txt']), (mode, code)
        code, _, body = get(c, '/m//' + base.strip('/') + '/secret.txt')
        assert code in (403, 404) and SECRET not in body

    c = Client(app1, Response)
    # content types
    def ctype(p):
        return get(c, p)[1]['Content-Type']
    assert ctype('/a.txt').startswith('text/plain')
    assert ctype('/sub/b.html').startswith('text/html')
    assert ctype('/noext').startswith('text/plain')
    assert ctype('/emptynoext').startswith('text/plain')
    assert ctype('/blob') == 'application/octet-stream'
    assert ctype('/only2.css').startswith('text/css')
    custom = StaticApplication(root1, default_text_mime='text/x-demo', default_binary_mime='application/x-demo',
                               cache_timeout=0)
    cc = Client(custom, Response)
    assert get(cc, '/noext')[1]['Content-Type'].startswith('text/x-demo')
    assert get(cc, '/blob')[1]['Content-Type'] == 'application/x-demo'
    code, hdrs, body = get(cc, '/a.txt', headers={'If-Modified-Since': 'Fri, 01 Jan 2100 00:00:00 GMT'})
    assert code == 200 and body == FILES1['a.txt']   # no caching when timeout is falsy
    assert is_binary_string(b'\x00') and not is_binary_string(b'') and not is_binary_string(b'abc\n')

    # wsgi.file_wrapper from environ is used
    used = []
    def fw(f, *a):
        used.append(f)
        return iter([f.read()])
    code, _, body = get(c, '/a.txt', environ_overrides={'wsgi.file_wrapper': fw})
    assert code == 200 and body == FILES1['a.txt'] and len(used) == 1

    # ---- build_file_response directly
    r = build_file_response(os.path.join(root1, 'blob'), mimetype='x/y')
    assert r.content_type == 'x/y' and r.content_length == 40 and r.cache_control.max_age is None
    r.close()
    r = build_file_response(os.path.join(root1, 'noext'), cache_timeout=5)
    assert r.mimetype == 'text/plain' and r.cache_control.max_age == 5 and r.status_code == 200
    assert list(h[0] for h in r.headers) == ['Content-Type', 'Content-Length', 'Last-Modified', 'Cache-Control'], list(r.headers)
    r.close()
    for p, exc in ((os.path.join(root1, 'missing'), NotFound), (root1, NotFound)):
        try:
            build_file_response(p)
        except exc as e:
            assert e.is_breaking is False
        else:
            raise AssertionError
    from datetime import datetime
    try:
        build_file_response(os.path.join(root1, 'missing'), cache_timeout=1, cached_modify_time=datetime(2000, 1, 1))
    except Forbidden as e:
        assert e.is_breaking is False
    else:
        raise AssertionError

    # ---- fault injection: never a 500
    import errno
    real_open = open
    targets = [('os.path.getmtime', os.path.getmtime), ('os.path.getsize', os.path.getsize),
               ('builtins.open', real_open)]
    fallback = Application([('/', StaticApplication(root1)), ('/', StaticApplication(root2))])
    fc = Client(fallback, Response)
    for name, real in targets:
        for err in (errno.ENOENT, errno.EACCES, errno.EIO, errno.EISDIR):
            def boom(p, *a, **kw):
                if isinstance(p, str) and p.startswith(root1):
                    raise OSError(err, os.strerror(err), p)
                return real(p, *a, **kw)
            with mock.patch(name, boom):
                code, _, body = get(fc, '/a.txt')
                code_c, _, body_c = get(fc, '/a.txt', headers={'If-Modified-Since': 'Fri, 01 Jan 2100 00:00:00 GMT'})
            # root1 fails -> non-breaking 403 -> second app (root2) serves its a.txt
            assert (code, body) == (200, FILES2['a.txt']), (name, err, code)
            assert code_c in (304, 200), (name, err, code_c)
            with mock.patch(name, boom):
                code, _, body = get(fc, '/noext')
            assert code in (403, 404), (name, err, code)     # only in root1
    # vanishes between lookup and open
    real_find = static_mod.find_file
    victim = os.path.join(root1, 'x..y')
    def find_then_vanish(*a, **kw):
        found = real_find(*a, **kw)
        if found == victim:
            os.unlink(victim)
        return found
    with mock.patch.object(static_mod, 'find_file', find_then_vanish):
        code, _, _ = get(c, '/x..y')
    assert code == 404 and not os.path.exists(victim), code

    # ---- StaticFileRoute
    for bad in (os.path.join(root1, 'missing'), root1):
        try:
            StaticFileRoute('/f', bad)
        except (IOError, OSError):
            pass
        else:
            raise AssertionError
    sfr = StaticFileRoute('/f', os.path.join(root1, 'missing'), check_file=False)
    ok = StaticFileRoute('/g', os.path.join(root1, 'blob'), mimetype='image/x-demo', cache_timeout=7)
    fa = Application([sfr, ok])
    fcl = Client(fa, Response)
    assert get(fcl, '/f')[0] == 404
    code, hdrs, body = get(fcl, '/g')
    assert code == 200 and body == FILES1['blob'] and hdrs['Content-Type'] == 'image/x-demo'
    assert 'max-age=7' in hdrs['Cache-Control']
    assert get(fcl, '/g', headers={'If-Modified-Since': hdrs['Last-Modified']})[0] == 304
finally:
    shutil.rmtree(base, ignore_errors=True)

print('PASS')
