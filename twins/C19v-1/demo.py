# -*- coding: utf-8 -*-
"""demo1: the sample store (Reservoir.add and friends) against a model.

The store never holds more than its capacity, reports the exact number of
values added, never raises, only contains values that were added -- and, for a
fixed random seed, makes exactly the same replacement decisions as the
reference algorithm written out below.
"""
import os
import sys
import random

sys.path.insert(0, os.path.dirname(os.path.abspath(__file__)))

from clastic.middleware import stats as S
from clastic.middleware.stats import Reservoir


class Model(object):
    """The reference algorithm, spelled out independently."""
    def __init__(self, cap):
        self.cap = cap
        self.data = []
        self.total = 0

    def add(self, val):
        self.total += 1
        if len(self.data) < self.cap:
            self.data.append(val)
            return
        idx = 0 + int(random.random() * (self.total + 1 - 0))
        if idx < self.cap:
            self.data[idx] = val

    def resize(self, new_size):
        self.cap = new_size
        if new_size < len(self.data):
            self.data = self.data[:new_size]


def run_ops(seed, cap, ops):
    """Runs ops on a Reservoir and on the model with the same random stream."""
    random.seed(seed)
    res = Reservoir(cap)
    added = []
    for op, arg in ops:
        if op == 'add':
            assert res.add(arg) is None
            added.append(arg)
        elif op == 'resize':
            assert res.resize(arg) is None
        contents = list(res)
        assert len(contents) <= res._cap, (seed, cap, op, arg)
        assert res.total_count == len(added)
        assert all(any(v is a for a in added) for v in contents)
    real = (res.to_list(), res.total_count, res._cap, random.random())

    random.seed(seed)
    model = Model(cap)
    for op, arg in ops:
        getattr(model, op)(arg)
    expected = (model.data, model.total, model.cap, random.random())
    assert real == expected, (seed, cap, real, expected)
    return real


def main():
    # 1. below capacity: plain append, in order, no randomness consumed
    random.seed(1)
    probe = random.random()
    random.seed(1)
    r = Reservoir(5)
    for i in range(4):
        r.add(i)
    assert list(r) == [0, 1, 2, 3] and r.total_count == 4
    assert random.random() == probe

    # 2. falsy / odd values are stored like any other
    r = Reservoir(8)
    vals = [0, '', None, False, 0.0, (), [], {}]
    for v in vals:
        r.add(v)
    assert r.to_list() == vals and r.total_count == 8
    assert all(a is b for a, b in zip(r.to_list(), vals))

    # 3. far beyond capacity, many seeds and capacities
    for seed in range(25):
        for cap in (1, 2, 3, 7, 16):
            ops = [('add', (seed, i)) for i in range(cap * 30 + 5)]
            data, total, _, _ = run_ops(seed, cap, ops)
            assert len(data) == cap and total == cap * 30 + 5

    # 4. interleaved resizes (shrinking, enlarging, to the same size)
    for seed in range(40):
        rnd = random.Random(seed * 7919)
        cap = rnd.randint(1, 9)
        ops = []
        for i in range(300):
            if rnd.random() < 0.08:
                ops.append(('resize', rnd.randint(1, 12)))
            else:
                ops.append(('add', i))
        run_ops(seed, cap, ops)

    # 5. the container passed in is used (aliased), not copied
    box = [10, 20]
    r = Reservoir(3, container=box)
    assert r.total_count == 2
    r.add(30)
    assert box == [10, 20, 30] and r._data is box
    random.seed(5)
    for i in range(200):
        r.add(i)
    assert len(box) == 3 and r.total_count == 203

    # 6. cap=True / cap=False / data=
    r = Reservoir()
    assert r._cap == 2 ** 14
    r = Reservoir(False, data=range(50))
    assert r._cap == float('inf') and r.to_list() == list(range(50))
    r = Reservoir('4', data='abc')
    assert r._cap == 4 and r.to_list() == ['a', 'b', 'c']
    try:
        Reservoir(2, container=[1, 2])
    except AssertionError:
        pass
    else:
        raise SystemExit('expected an AssertionError')

    # 7. the replaced slot is chosen by fast_randint(0, total_count)
    calls = []
    orig = S.fast_randint
    try:
        def fake(start, stop):
            calls.append((start, stop))
            return 1
        S.fast_randint = fake
        r = Reservoir(2)
        for v in 'abcd':
            r.add(v)
        assert calls == [(0, 3), (0, 4)] and r.to_list() == ['a', 'd']
        S.fast_randint = lambda start, stop: 2   # == cap: dropped
        r.add('e')
        assert r.to_list() == ['a', 'd'] and r.total_count == 5
    finally:
        S.fast_randint = orig

    # 8. repr
    assert repr(r) == "<Reservoir cap=2, data_count=2, total_count=5>"

    print('PASS')


if __name__ == '__main__':
    main()
