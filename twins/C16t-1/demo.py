# -*- coding: utf-8 -*-
"""demo1: the JSONCookie codec (quote / unquote / unserialize) and what the
application gets to see when a client sends intact vs. damaged cookies.

Prints PASS and exits 0 when every assertion holds.
"""
import os
import sys
import json
import base64

sys.path.insert(0, os.path.dirname(os.path.abspath(__file__)))

from werkzeug.test import Client
from werkzeug.wrappers import Response
from secure_cookie.cookie import UnquoteError

import clastic
from clastic import Application, render_basic
from clastic.middleware.cookie import JSONCookie, SignedCookieMiddleware, NEVER

HERE = os.path.dirname(os.path.abspath(__file__))
assert os.path.abspath(clastic.__file__).startswith(HERE), clastic.__file__

KEY = b'server-secret-key'
OTHER_KEY = b'somebody-elses-key'

VALUES = ['', 'x', 0, -1, 1.5, 1e100, True, False, None, [], {}, [[]],
          u'ünï©ödé ☃ \U0001f600', '"quoted"', 'a;b,c d', 'x' * 700,
          {'a': [1, {'b': None}], u'к': u'л'}, [1, 'two', 3.0, None, {'k': []}]]
KEYS = ['k', '', 'a=b&c?d', u'ключ', 'sp ace', '_private', 'K' * 100]


# ---------------------------------------------------------------- quote/unquote
def check_codec():
    for v in VALUES:
        q = JSONCookie.quote(v)
        assert type(q) is bytes, (v, q)
        # exactly: single-line, unpadded-by-whitespace base64 of the utf8 JSON text
        assert q == base64.b64encode(json.dumps(v).encode('utf8')), (v, q)
        assert b'\n' not in q and q == q.strip()
        back = JSONCookie.unquote(q)
        assert back == v and type(back) is type(v), (v, back)
        # unquote also accepts text
        assert JSONCookie.unquote(q.decode('ascii')) == v

    # not JSON-serializable: the serializer's own error, not UnquoteError
    for bad in [object(), {1, 2}, b'bytes']:
        try:
            JSONCookie.quote(bad)
        except TypeError:
            pass
        else:
            raise AssertionError('quote(%r) should raise TypeError' % (bad,))

    # anything that is not base64(utf8(JSON)) -> UnquoteError, nothing else
    b64 = base64.b64encode
    bad_quoted = [b'abc', b'a', b'====', b64(b'{not json'), b64(b'\xff\xfe\xfd'),
                  b64(b''), b'', b64(b'[1, 2'), None, 12, [], b64(b'"\xc3"'),
                  u'☃', b64(b"{'a': 1}")]
    for bq in bad_quoted:
        try:
            res = JSONCookie.unquote(bq)
        except UnquoteError as ue:
            assert ue.args == ()
        else:
            raise AssertionError('unquote(%r) -> %r' % (bq, res))


# ----------------------------------------------------------------- unserialize
def assert_empty(cookie, key=KEY):
    assert type(cookie) is JSONCookie, type(cookie)
    assert dict(cookie) == {}, dict(cookie)
    assert cookie.new is False
    assert cookie.modified is False
    assert cookie.should_save is False
    assert cookie.secret_key == key


def flip(s, i):
    # replacement differs from the original in the high bits of its base64
    # value, so that even the last (partially used) signature char changes
    c = s[i]
    r = 'z' if c in 'ABCD' else 'A'
    return s[:i] + r + s[i + 1:]


def check_unserialize():
    data = dict(zip(KEYS, VALUES))
    data['list'] = VALUES[-1]
    ser = JSONCookie(data, KEY).serialize()
    assert type(ser) is bytes
    text = ser.decode('ascii')

    for form in (text, '"%s"' % text, '""%s""' % text, '"' + text, text + '"'):
        c = JSONCookie.unserialize(form, KEY)
        assert type(c) is JSONCookie
        assert dict(c) == data, (form, dict(c))
        assert c.new is False and c.modified is False
        assert c.secret_key == KEY
    # text secret keys are encoded
    c = JSONCookie.unserialize(text, KEY.decode('ascii'))
    assert dict(c) == data and c.secret_key == KEY

    # empty data round-trips as well
    empty_ser = JSONCookie({}, KEY).serialize().decode('ascii')
    assert empty_ser.endswith('?')
    assert_empty(JSONCookie.unserialize(empty_ser, KEY))

    # wrong key
    assert_empty(JSONCookie.unserialize(text, OTHER_KEY), OTHER_KEY)
    # signed by somebody else
    forged = JSONCookie({'admin': True}, OTHER_KEY).serialize().decode('ascii')
    assert_empty(JSONCookie.unserialize(forged, KEY))
    assert dict(JSONCookie.unserialize(forged, OTHER_KEY)) == {'admin': True}

    sig, payload = text.split('?', 1)
    fsig, fpayload = forged.split('?', 1)
    tampered = [
        '', '?', '??', '&', '=', 'x', sig, payload, sig + '?', '?' + payload,
        fsig + '?' + payload, sig + '?' + fpayload,          # swapped parts
        payload + '?' + sig,
        text[:-1], text[:-5], text[:len(text) // 2], text[1:],  # truncated
        text + 'A', text + '&x=' + base64.b64encode(b'1').decode(), text + '&',
        text + '&junk', 'x=MQ==&' + text,
        sig[:-1] + 'A?' + payload, sig[:-1] + '?' + payload,
        'abc?' + payload,                  # signature not valid base64 (padding)
        '!!!!?' + payload, '%%%?x=y',
        sig + '?' + payload.replace('=', '', 1),
        sig + '&' + payload, text.replace('?', ''),
        u'☃?☃=☃', u'\xff\xfe?\xfa=\xfb', sig + u'?к=' + 'MQ==',
        'a' * 5000, '?' * 50, '=' * 50, '&' * 50, '\x00\x01\x02', ' ', '"', '""',
        sig + '?' + '&'.join(reversed(payload.split('&'))) if '&' in payload else 'x',
    ]
    for i in range(0, len(text), max(1, len(text) // 97)):
        if text[i] != '"':
            tampered.append(flip(text, i))
    for t in tampered:
        if t == text:
            continue
        assert_empty(JSONCookie.unserialize(t, KEY))
        assert_empty(JSONCookie.unserialize('"%s"' % t, KEY))

    # lenient base64 decoding ignores junk after the signature's padding: the
    # payload is then still exactly what the server signed, never anything else
    assert sig.endswith('=')
    assert dict(JSONCookie.unserialize(sig + 'A?' + payload, KEY)) in ({}, data)
    assert_empty(JSONCookie.unserialize(sig + 'A?' + fpayload, KEY))

    # correctly signed, but the values are not what our codec produces
    class RawCookie(JSONCookie):
        @classmethod
        def quote(cls, value):
            return value
    for raw in [b'abc', base64.b64encode(b'{oops'), base64.b64encode(b'\xff')]:
        rser = RawCookie({'a': raw}, KEY).serialize().decode('ascii')
        assert_empty(JSONCookie.unserialize(rser, KEY))

    # correctly signed with a nonsensical expiry stamp -> invalid, not an error
    for exp in ['soon', None, [], {}]:
        eser = JSONCookie({'a': 1, '_expires': exp}, KEY).serialize().decode('ascii')
        assert_empty(JSONCookie.unserialize(eser, KEY))
    # far-future / far-past stamps
    fser = JSONCookie({'a': 1, '_expires': 2 ** 40}, KEY).serialize().decode('ascii')
    assert dict(JSONCookie.unserialize(fser, KEY)) == {'a': 1}
    pser = JSONCookie({'a': 1, '_expires': 123456}, KEY).serialize().decode('ascii')
    assert_empty(JSONCookie.unserialize(pser, KEY))

    # the quote-stripping happens before (outside of) the error handling
    for notstr in [ser, None, 5]:
        try:
            JSONCookie.unserialize(notstr, KEY)
        except (TypeError, AttributeError):
            pass
        else:
            raise AssertionError('unserialize(%r) should not be accepted' % (notstr,))

    # set_expires helper
    c = JSONCookie({'a': 1}, KEY)
    c.set_expires()
    assert c['_expires'] == 123456 and c.modified
    c.set_expires(99.5)
    assert c['_expires'] == 99.5
    c.set_expires('now')
    assert c['_expires'] == 123456


# ------------------------------------------------------------------ end to end
def check_end_to_end():
    def ep(request, cookie):
        before = dict(cookie)
        if 'k' in request.args:
            cookie[request.args['k']] = json.loads(request.args['v'])
        return json.dumps({'before': before, 'after': dict(cookie)})

    mw = SignedCookieMiddleware(secret_key=KEY, expiry=NEVER)
    app = Application([('/', ep, render_basic)], middlewares=[mw])
    cl = Client(app, Response, use_cookies=False)

    def call(cookie_value=None, **params):
        headers = []
        if cookie_value is not None:
            headers.append(('Cookie', 'clastic_cookie=' + cookie_value))
        resp = cl.get('/', query_string=params, headers=headers)
        assert resp.status_code == 200, (resp.status_code, cookie_value, resp.data[:300])
        set_cookie = resp.headers.getlist('Set-Cookie')
        assert len(set_cookie) <= 1
        value = None
        if set_cookie:
            name, _, rest = set_cookie[0].partition('=')
            assert name == 'clastic_cookie'
            value = rest.split(';', 1)[0]
        return json.loads(resp.data.decode('utf8')), value

    model = {}
    jar = None
    for k, v in zip(KEYS, VALUES):
        body, new = call(jar, k=k, v=json.dumps(v))
        assert body['before'] == model, (body, model)
        model[k] = v
        assert body['after'] == model
        assert new is not None
        jar = new
    body, new = call(jar)
    assert body['before'] == model and new is None   # unmodified: not re-sent

    inner = jar.strip('"')
    assert dict(JSONCookie.unserialize(inner, KEY)) == model
    # the browser may send it with or without the surrounding quotes
    assert call(inner)[0]['before'] == model
    assert call('"%s"' % inner)[0]['before'] == model
    # a cookie we build ourselves with the server's key is as good as the server's
    mine = JSONCookie({'mine': [1, 2]}, KEY).serialize().decode('ascii')
    assert call('"%s"' % mine)[0]['before'] == {'mine': [1, 2]}

    sig, payload = inner.split('?', 1)
    forged = JSONCookie({'admin': True}, OTHER_KEY).serialize().decode('ascii')
    fsig, fpayload = forged.split('?', 1)
    attacks = [forged, fsig + '?' + payload, sig + '?' + fpayload, inner[:-3], inner + 'A',
               inner + '&admin=' + base64.b64encode(b'true').decode(), 'abc?' + payload,
               flip(inner, 3), flip(inner, len(inner) - 3), 'garbage', '?', sig, payload,
               u'\xff\xfe?\xfa=\xfb', '%%%', 'a' * 3000, '====?====']
    for a in attacks:
        for form in (a, '"%s"' % a):
            body, new = call(form)
            assert body['before'] == {} and body['after'] == {}, (form, body)
            assert new is None
        # and the application can start over from the empty cookie
        body, new = call('"%s"' % a, k='fresh', v='1')
        assert body['before'] == {} and body['after'] == {'fresh': 1}
        assert dict(JSONCookie.unserialize(new.strip('"'), KEY)) == {'fresh': 1}


if __name__ == '__main__':
    check_codec()
    check_unserialize()
    check_end_to_end()
    print('PASS')
