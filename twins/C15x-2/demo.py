# -*- coding: utf-8 -*-
"""C15 demo: built-in middlewares never change status / decoded body.

Shared harness for demo1.py (focus: StatsMiddleware + its reservoir and
stats endpoints) and demo2.py (focus: gzip, http cache, profiler, cookie).
"""
import gzip
import json
import os
import random
import sys

sys.path.insert(0, os.path.dirname(os.path.abspath(__file__)))

from clastic import Application, Response, redirect, GET, POST
from clastic.errors import (NotFound, Forbidden, BadRequest, ImATeapot,
                            InternalServerError, NotImplemented as NotImpl)
from clastic.render import render_basic
from clastic.middleware import (GzipMiddleware, HTTPCacheMiddleware,
                                SimpleProfileMiddleware, GetParamMiddleware,
                                SimpleContextProcessor)
from clastic.middleware.stats import (StatsMiddleware, create_stats_app,
                                      Reservoir, RouteStatReservoir, Hit,
                                      fast_randint, _get_stats_mw)
from clastic.middleware.cookie import SignedCookieMiddleware, JSONCookie, NEVER
from clastic.middleware.form import PostDataMiddleware
from clastic.middleware.url import ScriptRootMiddleware

FOCUS = 'stats' if os.path.basename(__file__).startswith('demo1') else 'others'

_rnd = random.Random(15)
BODIES = {
    'empty': b'',
    'tiny': b'x',
    'text': ('hello w\xf6rld ' * 40).encode('utf8'),
    'large': b'abcdefghij' * 20000,
    'random': bytes(bytearray(_rnd.getrandbits(8) for _ in range(3000))),
    'binary': bytes(bytearray(range(256))) * 8,
}


def make_routes():
    def body(name):
        return Response(BODIES[name], mimetype='application/octet-stream')

    def text():
        return Response(BODIES['text'], mimetype='text/plain')

    def no_ctype():
        resp = Response(BODIES['large'])
        del resp.headers['Content-Type']
        return resp

    def ctx():
        return {'a': 1, 'b': [1, 2, 3]}

    def redir():
        return redirect('/text')

    def raise_404():
        raise NotFound(detail='nope')

    def raise_403():
        raise Forbidden()

    def return_418():
        return ImATeapot()

    def return_400():
        return BadRequest(detail='bad')

    def raise_500():
        raise InternalServerError(detail='boom')

    def uncaught():
        raise ValueError('uncaught')

    def post_only():
        return Response('posted')

    def pre_encoded():
        resp = Response(b'already' * 100, mimetype='text/plain')
        resp.content_encoding = 'br'
        return resp

    def streamed():
        return Response((c for c in [b'a' * 500, b'b' * 500]),
                        mimetype='text/plain')

    return [('/body/<name>', body), ('/text', text), ('/noctype', no_ctype),
            ('/ctx', ctx, render_basic), ('/redir', redir),
            ('/raise404', raise_404), ('/raise403', raise_403),
            ('/return418', return_418), ('/return400', return_400),
            ('/raise500', raise_500), ('/uncaught', uncaught),
            POST('/postonly', post_only), GET('/getonly', text),
            ('/preenc', pre_encoded), ('/streamed', streamed)]


REQUESTS = ([('GET', '/body/%s' % n) for n in sorted(BODIES)] +
            [('GET', p) for p in
             ['/text', '/noctype', '/ctx', '/redir', '/raise404', '/raise403',
              '/return418', '/return400', '/raise500', '/uncaught',
              '/unknown/url', '/postonly', '/preenc', '/streamed',
              '/text?_prof_sort=bogus', '/ctx?format=json', '/text?x=1&y=z']] +
            [('POST', '/getonly'), ('POST', '/postonly'), ('HEAD', '/text'),
             ('HEAD', '/nowhere'), ('PUT', '/text')])

ACCEPT_ENCODINGS = [None, 'gzip', 'gzip, deflate', 'gzip;q=0', '*', 'identity',
                    'deflate', 'gzip;q=0.5, identity;q=0.1', '']


def fetch(app, method, url, accept_encoding=None, headers=()):
    client = app.get_local_client()
    hdrs = list(headers)
    if accept_encoding is not None:
        hdrs.append(('Accept-Encoding', accept_encoding))
    resp = client.open(url, method=method, headers=hdrs)
    raw = resp.get_data()
    decoded = raw
    if resp.headers.get('Content-Encoding') == 'gzip':
        decoded = gzip.decompress(raw)
        assert 'accept-encoding' in resp.headers.get('Vary', '').lower()
    if 'Content-Length' in resp.headers and method != 'HEAD':
        assert int(resp.headers['Content-Length']) == len(raw), (method, url)
    return resp, raw, decoded


def compare(mw_factory, label, encodings=ACCEPT_ENCODINGS, headers=()):
    count = 0
    for ae in encodings:
        # fresh apps per encoding, so that per-app state cannot leak
        plain = Application(make_routes())
        wrapped = Application(make_routes(), middlewares=mw_factory())
        for method, url in REQUESTS:
            r0, raw0, dec0 = fetch(plain, method, url, ae, headers)
            r1, raw1, dec1 = fetch(wrapped, method, url, ae, headers)
            ctx = (label, ae, method, url)
            assert r0.status_code == r1.status_code, ctx + (r0.status, r1.status)
            if url != '/uncaught':  # that body may name the stack frames
                assert dec0 == dec1, ctx
            assert r0.headers.get('Location') == r1.headers.get('Location'), ctx
            assert r0.headers.get('Content-Type') == r1.headers.get('Content-Type'), ctx
            count += 1
    return count


def check_gzip_details():
    app = Application(make_routes(), middlewares=[GzipMiddleware()])
    for name, data in sorted(BODIES.items()):
        resp, raw, dec = fetch(app, 'GET', '/body/' + name, 'gzip')
        assert dec == data, name
        assert 'Accept-Encoding' in resp.headers['Vary']
        compressed = resp.headers.get('Content-Encoding') == 'gzip'
        assert compressed == (name in ('text', 'large', 'binary')), name
        if compressed:
            assert len(raw) < len(data)
        resp, raw, dec = fetch(app, 'GET', '/body/' + name, 'gzip;q=0')
        assert raw == data and 'Content-Encoding' not in resp.headers
        resp, raw, dec = fetch(app, 'GET', '/body/' + name, None)
        assert raw == data and 'Content-Encoding' not in resp.headers
    # old IE: only text and javascript are compressed
    msie = [('User-Agent', 'Mozilla/4.0 (compatible; MSIE 6.0; Windows NT 5.1)')]
    resp, raw, dec = fetch(app, 'GET', '/body/large', 'gzip', msie)
    assert raw == BODIES['large'] and 'Content-Encoding' not in resp.headers
    resp, raw, dec = fetch(app, 'GET', '/noctype', 'gzip', msie)
    assert raw == BODIES['large'] and 'Content-Encoding' not in resp.headers
    resp, raw, dec = fetch(app, 'GET', '/text', 'gzip', msie)
    assert dec == BODIES['text'] and resp.headers['Content-Encoding'] == 'gzip'
    # pre-encoded and streamed responses are left alone
    resp, raw, dec = fetch(app, 'GET', '/preenc', 'gzip')
    assert resp.headers['Content-Encoding'] == 'br' and raw == b'already' * 100
    resp, raw, dec = fetch(app, 'GET', '/streamed', 'gzip')
    assert raw == b'a' * 500 + b'b' * 500 and 'Content-Encoding' not in resp.headers
    # header order of a compressed response
    resp, raw, dec = fetch(app, 'GET', '/text', 'gzip')
    names = [k for k, _ in resp.headers]
    return names


def check_cache_details():
    app = Application(make_routes(),
                      middlewares=[HTTPCacheMiddleware(max_age=30, public=True)])
    resp, raw, dec = fetch(app, 'GET', '/text')
    assert resp.status_code == 200 and raw == BODIES['text']
    assert 'max-age=30' in resp.headers['Cache-Control']
    assert 'public' in resp.headers['Cache-Control']
    etag = resp.headers['ETag']
    resp2, raw2, _ = fetch(app, 'GET', '/text', headers=[('If-None-Match', etag)])
    assert resp2.status_code == 304 and raw2 == b''
    resp3, raw3, _ = fetch(app, 'GET', '/streamed')
    assert 'ETag' not in resp3.headers and len(raw3) == 1000
    for url, code in [('/raise404', 404), ('/nowhere', 404), ('/return418', 418)]:
        resp, raw, dec = fetch(app, 'GET', url)
        assert resp.status_code == code and 'ETag' not in resp.headers
    noetag = Application(make_routes(),
                         middlewares=[HTTPCacheMiddleware(use_etags=False)])
    resp, raw, dec = fetch(noetag, 'GET', '/text')
    assert 'ETag' not in resp.headers and 'Cache-Control' not in resp.headers


def check_profile_details():
    app = Application(make_routes(), middlewares=[SimpleProfileMiddleware()])
    resp, raw, dec = fetch(app, 'GET', '/text?_prof=1')
    assert resp.status_code == 200
    assert raw.startswith(b'<html><body><pre>') and raw.endswith(b'</pre></body</html>')
    assert b'function calls' in raw and b'internal time' in raw
    resp, raw, dec = fetch(app, 'GET', '/text?_prof=1&_prof_sort=cumulative')
    assert resp.status_code == 200 and b'cumulative' in raw
    resp, raw, dec = fetch(app, 'GET', '/text?_prof=1&_prof_sort=bogus')
    assert resp.status_code == 500
    resp, raw, dec = fetch(app, 'GET', '/text?_prof=')  # empty trigger
    assert raw == BODIES['text']
    quiet = Application(make_routes(),
                        middlewares=[SimpleProfileMiddleware(raise_exc=False)])
    resp, raw, dec = fetch(quiet, 'GET', '/raise404?_prof=1')
    assert resp.status_code == 500  # 'ret' was never bound
    mw = SimpleProfileMiddleware('s', 'g', False)
    assert (mw.sort_param_name, mw.get_param_name, mw.raise_exc) == ('s', 'g', False)


def check_cookie_details():
    def bump(cookie):
        cookie['n'] = cookie.get('n', 0) + 1
        return Response(str(cookie['n']))

    def expire_own(cookie):
        cookie.set_expires(2000000000)
        return Response('own')

    def wipe(cookie):
        cookie.set_expires()
        return Response('wiped')

    for expiry, want_expires in [(0, False), (NEVER, False), (3600, True)]:
        mw = SignedCookieMiddleware(secret_key=b'k' * 20, expiry=expiry,
                                    domain=None, path='/p', http_only=True)
        app = Application([('/p/bump', bump), ('/p/own', expire_own),
                           ('/p/wipe', wipe)], middlewares=[mw])
        cl = app.get_local_client()
        assert cl.get('/p/bump').get_data() == b'1'
        resp = cl.get('/p/bump')
        assert resp.get_data() == b'2'
        set_cookie = resp.headers['Set-Cookie']
        assert set_cookie.startswith('clastic_cookie=')
        assert 'Path=/p' in set_cookie and 'HttpOnly' in set_cookie
        assert 'Secure' not in set_cookie
        assert ('Expires=' in set_cookie) == want_expires, (expiry, set_cookie)
        resp = cl.get('/p/own')
        assert '2033' in resp.headers['Set-Cookie']
        resp = cl.get('/p/wipe')
        assert '1970' in resp.headers['Set-Cookie']
        assert cl.get('/p/nope').status_code == 404
    assert repr(SignedCookieMiddleware(secret_key=b's')) == \
        "SignedCookieMiddleware(arg_name='cookie', cookie_name='clastic_cookie')"
    assert len(SignedCookieMiddleware().secret_key) == 20
    # quoting round trip + garbage
    val = {'a': [1, 2, {'b': None}], u'\xfc': 'x' * 200}
    assert JSONCookie.unquote(JSONCookie.quote(val)) == val
    assert b'\n' not in JSONCookie.quote(val)
    assert dict(JSONCookie.unserialize('"garbage"', b'k')) == {}
    cookie = JSONCookie()
    cookie.set_expires()
    assert cookie['_expires'] == 123456
    cookie.set_expires(99)
    assert cookie['_expires'] == 99


def check_stats_details():
    stats_mw = StatsMiddleware()
    app = Application(make_routes() + [('/stats', create_stats_app())],
                      middlewares=[stats_mw])
    cl = app.get_local_client()
    expected = {}
    for method, url in REQUESTS * 2:
        resp = cl.open(url, method=method)
        resp.get_data()
    resp = cl.get('/stats/')
    assert resp.status_code == 200
    data = json.loads(resp.get_data(True))
    assert sorted(data) == ['cur_time_utc', 'route_stats', 'start_time_utc']
    rs = data['route_stats']
    assert rs['/text']['200']['count'] == 10, rs['/text']
    assert rs['/raise404']['404']['count'] == 2
    assert rs['/return418']['418']['count'] == 2
    assert rs['/redir']['302']['count'] == 2
    entry = rs['/text']['200']
    text_route = [r for r in stats_mw.route_hits if r.pattern == '/text'][0]
    from clastic.middleware.stats import _get_route_stats
    direct = _get_route_stats(stats_mw.route_hits[text_route])
    assert list(direct) == ['200'], list(direct)
    assert list(direct['200']) == ['count', 'mean', 'std_dev', 'mad', 'min',
                                   '0.25', '0.5', '0.75', '0.95', '0.99', 'max',
                                   'last_hit', 'total_duration'], list(direct['200'])
    assert sorted(entry) == sorted(direct['200'])
    assert direct['200']['count'] == 10
    assert isinstance(direct['200']['last_hit'], str)
    assert direct['200']['total_duration'] >= direct['200']['max']
    # hits carry the mimetype without parameters
    hits = list(stats_mw.route_hits[[r for r in stats_mw.route_hits
                                     if r.pattern == '/text'][0]]['200'])
    assert all(isinstance(h, Hit) and h.content_type == 'text/plain'
               and h.url == '/text' and h.pattern == '/text'
               and h.status_code == '200' and h.duration >= 0 for h in hits)
    # reset endpoint
    resp = cl.post('/stats/reset')
    data = json.loads(resp.get_data(True))
    assert data['reset'] is True and '/text' in data['route_stats']
    data = json.loads(cl.get('/stats/').get_data(True))
    assert '/text' not in data['route_stats']
    assert cl.get('/stats/reset').status_code == 405
    # stats app without the middleware: 501
    bare = Application([('/stats', create_stats_app())])
    resp = bare.get_local_client().get('/stats/')
    assert resp.status_code == 501 and b'not installed' in resp.get_data()
    try:
        _get_stats_mw(bare)
    except NotImpl as e:
        assert 'StatsMiddleware not installed on app' in e.detail
    else:
        raise AssertionError('expected NotImplemented')
    first, second = StatsMiddleware(), StatsMiddleware()
    two = Application([('/', lambda: Response('x'))], middlewares=[])
    two.middlewares = [first, second]
    assert _get_stats_mw(two) is first


def check_reservoir():
    import clastic.middleware.stats as stats_mod
    assert stats_mod.fast_randint is fast_randint
    state = random.getstate()
    random.seed(1234)
    draws = [fast_randint(0, 10) for _ in range(200)]
    random.seed(1234)
    assert draws == [int(random.random() * 11) for _ in range(200)]
    assert set(draws) <= set(range(11))
    res = Reservoir()
    assert res._cap == 2 ** 14 and res.total_count == 0 and res.to_list() == []
    assert Reservoir(False)._cap == float('inf')
    assert Reservoir(5)._cap == 5 and Reservoir('7')._cap == 7
    assert Reservoir(2.9)._cap == 2
    assert Reservoir(1)._cap == 1  # 1 == True, but is not True
    for bad, exc in [(None, TypeError), ('x', ValueError), (0, AssertionError)]:
        try:
            Reservoir(bad)
        except exc:
            pass
        else:
            raise AssertionError(bad)
    backing = [1, 2]
    res = Reservoir(3, data=[3, 4, 5], container=backing)
    assert res._data is backing and res.total_count == 5 and len(backing) == 3
    random.seed(99)
    res = Reservoir(4, data=range(50))
    snapshot = res.to_list()
    random.seed(99)
    mirror, total = [], 0
    for val in range(50):
        total += 1
        if len(mirror) < 4:
            mirror.append(val)
            continue
        idx = int(random.random() * (total + 1))
        if idx < 4:
            mirror[idx] = val
    assert snapshot == mirror and res.total_count == 50
    assert repr(res) == '<Reservoir cap=4, data_count=4, total_count=50>'
    res.resize(2)
    assert res.to_list() == mirror[:2]
    res.resize(10)
    res.add('new')
    assert res.to_list() == mirror[:2] + ['new'] and list(iter(res)) == res.to_list()
    rsr = RouteStatReservoir()
    assert rsr.last_hit is None and rsr.total_duration == 0.0 and rsr._cap == 2 ** 14
    rsr.add(Hit(10.0, '/u', '/u', '200', 0.25, 'text/html'))
    rsr.add(Hit(11.0, '/u', '/u', '200', 0.5, 'text/html'))
    assert rsr.last_hit == 11.0 and rsr.total_duration == 0.75 and rsr.total_count == 2
    assert repr(rsr) == '<RouteStatReservoir cap=16384, data_count=2, total_count=2>'
    random.setstate(state)


STACKS = {
    'gzip': lambda: [GzipMiddleware()],
    'gzip9': lambda: [GzipMiddleware(compress_level=9)],
    'cache': lambda: [HTTPCacheMiddleware()],
    'stats': lambda: [StatsMiddleware()],
    'profile': lambda: [SimpleProfileMiddleware()],
    'cookie': lambda: [SignedCookieMiddleware(secret_key=b'0' * 20)],
    'ctxproc': lambda: [SimpleContextProcessor()],
    'getparam': lambda: [GetParamMiddleware({'x': int, 'y': str})],
    'postdata': lambda: [PostDataMiddleware({'f': str})],
    'scriptroot': lambda: [ScriptRootMiddleware()],
    'all': lambda: [StatsMiddleware(), GzipMiddleware(), HTTPCacheMiddleware(),
                    SimpleProfileMiddleware(), SimpleContextProcessor(),
                    SignedCookieMiddleware(secret_key=b'1' * 20),
                    GetParamMiddleware(['x']), ScriptRootMiddleware()],
}


def main():
    total = 0
    for label in sorted(STACKS):
        few = label not in ('gzip', 'stats', 'all')
        encs = [None, 'gzip'] if few else ACCEPT_ENCODINGS
        total += compare(STACKS[label], label, encs)
    rng = random.Random(7)
    singles = [k for k in sorted(STACKS) if k not in ('all', 'gzip9')]
    for _ in range(6):
        picks = rng.sample(singles, rng.randint(2, 5))
        factory = lambda picks=picks: [STACKS[p]()[0] for p in picks]
        total += compare(factory, '+'.join(picks), [None, 'gzip', '*'])
    check_gzip_details()
    check_cache_details()
    check_profile_details()
    check_cookie_details()
    check_stats_details()
    check_reservoir()
    print('compared %d request pairs (focus: %s)' % (total, FOCUS))
    print('PASS')


if __name__ == '__main__':
    main()
