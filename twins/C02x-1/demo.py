# -*- coding: utf-8 -*-
"""Demo for property C02: each injected argument comes from its one declared
source.  Prints PASS and exits 0.  Re-runs itself under several hash seeds."""
import os
import sys
import subprocess

HERE = os.path.dirname(os.path.abspath(__file__))
sys.path.insert(0, HERE)

from werkzeug.test import Client, EnvironBuilder
from werkzeug.wrappers import Response

import clastic
from clastic import Application, Middleware, Route, GET
from clastic import sinter
from clastic.sinter import (inject, build_chain_str, make_chain, compile_chain,
                            compile_code, chain_argspec, get_arg_names)
from clastic.middleware import core
from clastic.middleware.core import (make_middleware_chain, _create_request_inner,
                                     check_middlewares)
from clastic.route import BoundRoute

assert clastic.__file__.startswith(HERE), clastic.__file__


class S(object):
    "distinct sentinel"
    def __init__(self, label):
        self.label = label

    def __repr__(self):
        return '<S %s>' % self.label


LOG = []


def rec(tag, **kw):
    LOG.append((tag, kw))


# ---------------------------------------------------------------- inject()
def check_inject():
    a, b, c = S('a'), S('b'), S('c')

    def f(x, y=5, *, z=7):
        return (x, y, z)
    assert inject(f, {'x': a, 'q': b}) == (a, 5, 7)
    assert inject(f, {'x': a, 'y': b, 'z': c, 'w': 1}) == (a, b, c)
    assert inject(f, {'x': None, 'y': 0, 'z': ''}) == (None, 0, '')
    try:
        inject(f, {'y': 1})
    except TypeError:
        pass
    else:
        raise AssertionError('missing x must raise TypeError')

    def g(x, y=5, **rest):
        return (x, y, rest)
    r = inject(g, {'x': a, 'other': b})
    assert r[0] is a and r[1] == 5 and r[2] == {'other': b} and r[2]['other'] is b

    def h():
        return 'h'
    assert inject(h, {}) == 'h'
    assert inject(h, {'x': 1}) == 'h'
    # injectables must not be mutated
    inj = {'x': a, 'zzz': b}
    inject(f, inj)
    assert inj == {'x': a, 'zzz': b}
    # pairs are accepted like dict.update accepts them
    assert inject(f, [('x', a)]) == (a, 5, 7)

    class C(object):
        def m(self, x, y=2):
            return (self, x, y)

        def __call__(self, x, k=3):
            return ('call', x, k)
    o = C()
    assert inject(o.m, {'x': a, 'self': b}) == (o, a, 2)
    assert inject(o, {'x': a, 'k': c, 'self': b}) == ('call', a, c)


# ------------------------------------------------------- generated source
EXPECTED_CHAIN = (
    "def next(a, r):\n"
    "    def next(p):\n"
    "        def next():\n"
    "            __traceback_hide__ = True\n"
    "            return funcs[2](a=a, p=p)\n"
    "        __traceback_hide__ = True\n"
    "        return funcs[1](next=next, r=r)\n"
    "    __traceback_hide__ = True\n"
    "    return funcs[0](a=a, next=next)\n")


def check_chain_source():
    def mw0(next, a, unseen=1):
        return next(p=('p-from-mw0', a))

    def mw1(next, r, p2=9):
        return next()

    def final(p, a, zz=3):
        return (p, a, zz)
    funcs = [mw0, mw1, final]
    params = [['a', 'r'], ['p'], []]
    src = build_chain_str(funcs, params, 'next')
    assert src == EXPECTED_CHAIN, src
    assert build_chain_str([], [], 'next') == ''
    chain = compile_chain(funcs, params, 'next')
    a, r = S('a'), S('r')
    out = chain(a=a, r=r)
    assert out[0] == ('p-from-mw0', a) and out[0][1] is a and out[1] is a and out[2] == 3

    reqs, opts = chain_argspec(funcs, [('p',), (), ()], 'next')
    assert reqs == {'a', 'r'} and opts == {'unseen', 'p2', 'zz'}, (reqs, opts)

    chain, args, unres = make_chain([mw0, mw1], [('p',), ()], final, ['a', 'zz'], 'next')
    assert args == {'a', 'r', 'zz'} and unres == {'r'}, (args, unres)
    z = S('z')
    out = chain(a=a, r=r, zz=z)
    assert out[1] is a and out[2] is z

    # compile_code: public import paths and behaviour
    assert sinter.compile_code is compile_code is core.compile_code
    env = {'k': 41}
    fn = compile_code('def foo(x):\n    return x + k\n', 'foo', env)
    assert fn(1) == 42 and env['foo'] is fn
    import linecache
    assert fn.__code__.co_filename.startswith('<sinter generated foo ')
    assert linecache.cache[fn.__code__.co_filename][2] == ['def foo(x):\n', '    return x + k\n']
    try:
        compile_code('def foo(:\n', 'foo', {})
    except SyntaxError:
        pass
    else:
        raise AssertionError

    inner = _create_request_inner(lambda **kw: ('ctx', kw), lambda **kw: ('rendered', kw),
                                  ['u', 'v'], ['u'], ['context', 'v'])
    assert inner(u=1, v=2) == ('rendered', {'context': ('ctx', {'u': 1}), 'v': 2})
    resp = Response('x')
    inner = _create_request_inner(lambda: resp, lambda: 1 / 0, [], [], [])
    assert inner() is resp


# ------------------------------------------------------------ middlewares
class ReqMW(Middleware):
    provides = ('req_val',)

    def __init__(self, val):
        self.val = val

    def request(self, next, request, res_a, _route, _application, _dispatch_state, seg):
        rec('ReqMW.request', request=request, res_a=res_a, _route=_route,
            _application=_application, _dispatch_state=_dispatch_state, seg=seg)
        return next(req_val=(self.val, seg))


class EpMW(Middleware):
    endpoint_provides = ('ep_val',)

    def __init__(self, val):
        self.val = val

    def endpoint(self, next, req_val, res_b, opt_missing='mw-default', res_a='shadowed?'):
        rec('EpMW.endpoint', req_val=req_val, res_b=res_b, opt_missing=opt_missing, res_a=res_a)
        return next(ep_val=self.val)


class RnMW(Middleware):
    render_provides = ('rn_val',)

    def __init__(self, val):
        self.val = val

    def render(self, next, context, req_val, request):
        rec('RnMW.render', context=context, req_val=req_val, request=request)
        return next(rn_val=self.val)


class AllMW(Middleware):
    provides = ('all_req',)
    endpoint_provides = ('all_ep',)
    render_provides = ('all_rn',)

    def request(self, next, res_b=None):
        return next(all_req=('all_req', res_b))

    def endpoint(self, next, all_req):
        return next(all_ep=('all_ep', all_req))

    def render(self, next, all_ep_opt=0):
        return next(all_rn='all_rn')


def check_mw_metadata():
    m = ReqMW(1)
    assert sorted(m.requires) == sorted(['request', 'res_a', '_route', '_application',
                                         '_dispatch_state', 'seg'])
    assert m.arguments == {'next', 'request', 'res_a', '_route', '_application',
                           '_dispatch_state', 'seg'}
    e = EpMW(1)
    assert sorted(e.requires) == ['req_val', 'res_b']
    assert e.arguments == {'next', 'req_val', 'res_b', 'opt_missing', 'res_a'}
    a = AllMW()
    assert sorted(a.requires) == ['all_req'] and isinstance(a.requires, list)
    assert a.arguments == {'next', 'res_b', 'all_req', 'all_ep_opt'}
    assert Middleware().requires == [] and Middleware().arguments == set()

    class Broken(Middleware):
        request = 5
    try:
        Broken().requires
    except Exception as e:
        exc_type = type(e)
    else:
        raise AssertionError
    try:
        Broken().arguments
    except Exception as e:
        assert type(e) is exc_type


def check_app():
    res_a, res_b, res_unused = S('res_a'), S('res_b'), S('res_unused')
    rv, ev, nv = S('req_val'), S('ep_val'), S('rn_val')

    def endpoint(seg, num, res_a, req_val, ep_val, request, _route, _application,
                 _dispatch_state, dflt='own-default', res_b='own-b', *, kwo='own-kwo'):
        rec('endpoint', seg=seg, num=num, res_a=res_a, req_val=req_val, ep_val=ep_val,
            request=request, _route=_route, _application=_application,
            _dispatch_state=_dispatch_state, dflt=dflt, res_b=res_b, kwo=kwo)
        return {'ctx_seg': seg}

    def render(context, rn_val, res_b, req_val, seg, request, ep_val='not-in-render'):
        rec('render', context=context, rn_val=rn_val, res_b=res_b, req_val=req_val,
            seg=seg, request=request, ep_val=ep_val)
        return Response('ok:%s' % context['ctx_seg'])

    def plain(res_a=None, nothing='d'):
        rec('plain', res_a=res_a, nothing=nothing)
        return Response('plain')

    mws = [ReqMW(rv), EpMW(ev), RnMW(nv), AllMW()]
    app = Application([Route('/x/<seg>/<num:int>', endpoint, render, middlewares=mws),
                       GET('/plain', plain)],
                      resources={'res_a': res_a, 'res_b': res_b, 'res_unused': res_unused})
    route = app.routes[0]
    assert isinstance(route, BoundRoute)
    assert sorted(route.get_required_args()) == sorted(route.get_required_args())

    seen_requests = []
    for seg, num in [('alpha', 1), ('beta', 0), ('0', 17)]:
        del LOG[:]
        req = app.request_type(EnvironBuilder(path='/x/%s/%d' % (seg, num)).get_environ())
        resp = app.dispatch(req)
        assert resp.status_code == 200 and resp.get_data(True) == 'ok:' + seg
        seen_requests.append(req)
        calls = dict(LOG)
        assert [t for t, _ in LOG] == ['ReqMW.request', 'EpMW.endpoint', 'endpoint',
                                       'RnMW.render', 'render'], LOG
        r = calls['ReqMW.request']
        assert r['request'] is req and r['res_a'] is res_a and r['_route'] is route
        assert r['_application'] is app and r['seg'] == seg
        ds = r['_dispatch_state']
        e = calls['EpMW.endpoint']
        assert e['req_val'][0] is rv and e['req_val'][1] == seg and e['res_b'] is res_b
        assert e['opt_missing'] == 'mw-default' and e['res_a'] is res_a
        ep = calls['endpoint']
        assert ep['seg'] == seg and ep['num'] == num and type(ep['num']) is int
        assert ep['res_a'] is res_a and ep['req_val'] is e['req_val'] and ep['ep_val'] is ev
        assert ep['request'] is req and ep['_route'] is route and ep['_application'] is app
        assert ep['_dispatch_state'] is ds and ep['dflt'] == 'own-default'
        assert ep['res_b'] is res_b
        assert ep['kwo'] == 'own-kwo'
        n = calls['RnMW.render']
        assert n['context'] == {'ctx_seg': seg} and n['req_val'] is e['req_val']
        assert n['request'] is req
        rn = calls['render']
        assert rn['context'] is n['context'] and rn['rn_val'] is nv and rn['res_b'] is res_b
        assert rn['req_val'] is e['req_val'] and rn['seg'] == seg and rn['request'] is req
        assert rn['ep_val'] == 'not-in-render'   # endpoint-phase value must not leak
    assert len(set(map(id, seen_requests))) == 3

    del LOG[:]
    c = Client(app, Response)
    assert c.get('/plain').get_data(True) == 'plain'
    assert LOG == [('plain', {'res_a': res_a, 'nothing': 'd'})] and LOG[0][1]['res_a'] is res_a
    assert c.get('/x/a/notint').status_code == 404

    # BoundRoute.execute: kwargs beat resources beat built-ins
    del LOG[:]
    other = S('other_res_a')
    req = app.request_type(EnvironBuilder(path='/plain').get_environ())
    app.routes[1].execute(req, res_a=other, undeclared=1)
    assert LOG[0][1]['res_a'] is other

    # execute_error
    def render_error(_error, request, res_a, _route, _application, extra='x'):
        rec('render_error', _error=_error, request=request, res_a=res_a, _route=_route,
            _application=_application, extra=extra)
        return Response('err', status=500)
    app2 = Application([Route('/e', plain, render_error=render_error,
                              resources={'res_a': res_a, 'extra': 'res-extra'})])
    br = app2.routes[0]
    br.render_error = render_error   # (binding normally substitutes the app's handler)
    err = S('err')
    del LOG[:]
    br.execute_error(req, err, extra='given', junk=2)
    kw = LOG[0][1]
    assert kw['_error'] is err and kw['request'] is req and kw['res_a'] is res_a
    assert kw['_route'] is br and kw['_application'] is app2 and kw['extra'] == 'given'
    del LOG[:]
    br.execute_error(req, err)
    assert LOG[0][1]['extra'] == 'res-extra' and LOG[0][1]['res_a'] is res_a
    br.render_error = None
    try:
        br.execute_error(req, err)
    except TypeError:
        pass
    else:
        raise AssertionError

    # rejected configurations keep their exception types
    def bad_ep(next):
        pass
    for bad in (lambda: Application([Route('/', bad_ep)]),
                lambda: Application([Route('/', lambda nope: 1)]),
                lambda: make_middleware_chain([EpMW(1)], plain, plain, ['res_b'])):
        try:
            bad()
        except NameError:
            pass
        else:
            raise AssertionError
    try:
        check_middlewares([ReqMW(1), ReqMW(2)])
    except NameError:
        pass
    else:
        raise AssertionError


def main():
    check_inject()
    check_chain_source()
    check_mw_metadata()
    check_app()


if __name__ == '__main__':
    if os.environ.get('C02_DEMO_CHILD'):
        main()
        print('child ok')
        sys.exit(0)
    main()
    for seed in ('0', '1', '42', '12345'):
        env = dict(os.environ, PYTHONHASHSEED=seed, C02_DEMO_CHILD='1')
        out = subprocess.run([sys.executable, os.path.abspath(__file__)], env=env, cwd=HERE,
                             stdout=subprocess.PIPE, stderr=subprocess.STDOUT)
        assert out.returncode == 0, out.stdout.decode()
    print('PASS')
